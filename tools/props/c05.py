"""
C05 — Column expressions denote the tree the user wrote under SQL three-valued logic.

proof      : lean/SqlframeModel/Props/C05.lean  (C05_meaning, C05_print_parse, C05_wellParen_partial, C05_partial, …)
             over the regenerated Gen.ColumnOps (tools/gen_c05.py)
tie        : three comparisons per generated expression (real sqlframe Column + DuckDB  vs  Lean driver):
               A  structure   sexp(col.expression)                    ==  build theCfg e
               B  engine      DuckDB(sqlframe's text)                 ==  DuckDB(fully parenthesised engineTree (build e))
                              (or: the model predicts a syntax error / a missing function and DuckDB raises exactly that)
               S  meaning     df.select(expr).collect()               ==  denote e   on every row of the value pool
search     : S is the property itself; a failing S is a KNOWN-FINDING only when A and B hold (the model predicts
             the implementation's output) and every violated hypothesis reported by the driver is listed.
literals   : every plain Python value of a tree (operands of operators incl. the reflected forms, isin values, between
             bounds, when/otherwise values, lit(...)) goes through the model of `Column._lit` / `Column(v)` /
             `functions.lit` (Impl/C05Lit.lean over the regenerated Gen.ColumnLit): comparison A includes the *text* of
             every number literal, S its value.  DOUBLE values are exact decimals in the Lean model and in the Python
             mirror; the implementation's doubles are compared with the stated tolerance REL_TOL, and only on trees
             whose observable result does not depend on IEEE rounding (`stable`).
"""
from __future__ import annotations

import decimal
import itertools
import json
import math
import os
import random
import sys
import typing as t
from fractions import Fraction

import vlib
from vlib import Ctx, log, lval, plain

ID = "C05"
LEVEL = "proof"
MODULES = ["SqlframeModel.Codec.C05", "SqlframeModel.Props.C05"]
GEN = ["ColumnOps", "ColumnLit"]
SOURCES = [
    "SqlframeModel/Props/C05.lean",
    "SqlframeModel/Lemmas/C05Meaning.lean",
    "SqlframeModel/Lemmas/C05Parse.lean",
    "SqlframeModel/Lemmas/C05Scope.lean",
    "SqlframeModel/Lemmas/C05Build.lean",
    "SqlframeModel/Lemmas/C05Fns.lean",
    "SqlframeModel/Impl/C05Column.lean",
    "SqlframeModel/Impl/C05Engine.lean",
    "SqlframeModel/Impl/C05Lit.lean",
    "SqlframeModel/Impl/C05Value.lean",
    "SqlframeModel/Lemmas/C05Lit.lean",
]

# the value pool of the property's quantifier
COLS: t.Dict[str, str] = {"x": "int", "y": "int", "s": "str", "u": "str", "p": "bool", "q": "bool", "d": "dbl", "f": "dbl"}
POOL: t.Dict[str, t.List[t.Any]] = {"int": [None, 0, -1, 2], "str": [None, "", "a"], "bool": [None, True, False], "dbl": [None, 0.0, -2.0, 4.0, 0.5]}
INT_LITS = [0, 1, 2, -1, 3]
STR_LITS = ["", "a", "b", "ab"]
# literals that only ever stand where the value is compared / returned as it is (no LIKE / regexp pattern, no arithmetic)
STR_LITS_PLAIN = ["a'b", 'a"b', "a\\b", "é", " a", "A", "a%", "NULL", "1"]
INT_LITS_PLAIN = [10, -7, 2**31, -(2**31) - 1, 10**12, 2**63 - 1]
# Python floats in every spelling `repr` has: positional, exponent with a negative / positive exponent, long mantissas
FLOAT_LITS = [0.25, 1.5, -0.5, 2.0, 10.1, 0.0, 4.0, 0.0001, 0.000123, 123456.789, 2.5e-07, 1.234e-05, 1e-05, 1e-09, -1e-07, 3e-07, 1.5e-08, 1e16, 1.5e17, 1e15, 1234567.125, 0.1]
# tolerance of every comparison between an implementation DOUBLE and the exact decimal of the specification
REL_TOL = 1e-9
LIKE_PATS = ["a", "a%", "%a", "%", "_", "", "_b"]
RLIKE_PATS = ["a", "b", "ab"]
ARITH = ["add", "sub", "mul", "mod"]
CMP = ["eq", "ne", "lt", "le", "gt", "ge"]
ALIASES = ["r", "w", "z"]

# ------------------------------------------------------------------------------------------------
# expression trees: exactly the JSON the Lean codec reads ({"ctor": {fields}} / "noElse"), plus
# private "_…" decorations (how a literal operand is written in Python) that are stripped before sending
# ------------------------------------------------------------------------------------------------


def N(ctor: str, **fields: t.Any) -> dict:
    return {ctor: fields}


def ctor(e: t.Any) -> str:
    if isinstance(e, str):
        return e
    return next(k for k in e if not k.startswith("_"))


def fields(e: t.Any) -> dict:
    return {} if isinstance(e, str) else e[ctor(e)]


# ---- numbers: a DOUBLE is the exact decimal Python's repr() shows (what the user wrote) --------------------------


def float_digits(v: float) -> t.Tuple[bool, t.List[int], int]:
    """(negative, shortest round-trip digits d1..dn, pt) with |v| = 0.d1..dn * 10**pt — what repr(v) is made of"""
    neg = math.copysign(1.0, v) < 0
    sign, digits, exp = decimal.Decimal(repr(abs(v))).as_tuple()
    ds = list(digits)
    while len(ds) > 1 and ds[-1] == 0:
        ds.pop()
        exp += 1
    while len(ds) > 1 and ds[0] == 0:
        ds.pop(0)
    if ds == [0]:
        return neg, [0], 1
    return neg, ds, len(ds) + exp


def frac_of(v: float) -> Fraction:
    return Fraction(decimal.Decimal(repr(v)))


def dec_pair(q: Fraction) -> t.List[int]:
    """normalised [m, e] with q = m * 10**e and m not a multiple of 10 (zero: [0, 0]) — Lean's `Dbl.mk`"""
    if q == 0:
        return [0, 0]
    e = 0
    while q.denominator != 1:
        q *= 10
        e -= 1
        if e < -2000:
            raise ValueError("not a decimal fraction")
    m = q.numerator
    while m % 10 == 0:
        m //= 10
        e += 1
    return [m, e]


def pyval(v: t.Any) -> t.Any:
    """python value -> Lean `PyVal`"""
    if v is None:
        return "none"
    if isinstance(v, bool):
        return {"bool": {"b": v}}
    if isinstance(v, int):
        return {"int": {"i": v}}
    if isinstance(v, float):
        if math.isnan(v):
            return {"float": {"f": "nan"}}
        if math.isinf(v):
            return {"float": {"f": {"inf": {"neg": v < 0}}}}
        neg, ds, pt = float_digits(v)
        return {"float": {"f": {"fin": {"neg": neg, "ds": ds, "pt": pt}}}}
    if isinstance(v, str):
        return {"str": {"s": v}}
    raise TypeError(f"unsupported python value {v!r}")


def cval(v: t.Any) -> t.Any:
    """python value of a pool -> Lean `CVal`"""
    if isinstance(v, float):
        m, e = dec_pair(frac_of(v))
        return {"dbl": {"d": {"fin": {"m": m, "e": e}}}}
    return lval(v)


def enc_tree(e: t.Any) -> t.Any:
    """a tree as strict JSON: the non-finite floats as {"$float": "nan" | "inf" | "-inf"}"""
    if isinstance(e, float) and (math.isnan(e) or math.isinf(e)):
        return {"$float": repr(e)}
    if isinstance(e, dict):
        return {k: enc_tree(v) for k, v in e.items()}
    if isinstance(e, list):
        return [enc_tree(v) for v in e]
    return e


def dec_tree(e: t.Any) -> t.Any:
    if isinstance(e, dict):
        if set(e) == {"$float"}:
            return float(e["$float"])
        return {k: dec_tree(v) for k, v in e.items()}
    if isinstance(e, list):
        return [dec_tree(v) for v in e]
    return e


def site_of(parent: str, key: str, pf: dict) -> t.Any:
    """the `Site` of a plain Python operand standing at `key` of a `parent` node"""
    if parent in ("arith", "cmp", "logic", "eqNullSafe") and key == "b":
        return "binary"
    if parent == "between" and key in ("lo", "hi"):
        return "between"
    if parent == "strFn" and key == "b":
        return {"strFn": {"f": pf["f"]}}
    if parent == "substr" and key in ("st", "len"):
        return "substr"
    if parent == "when" and key == "v":
        return "when"
    if parent == "otherwise" and key == "d":
        return "otherwise"
    raise ValueError(f"a plain Python value cannot stand at {parent}.{key}")


def strip(e: t.Any, site: t.Any = None) -> t.Any:
    """tree -> the driver's JSON (python values -> Lean `PyVal`, a `_raw` literal -> `raw` tagged with its position)"""
    if isinstance(e, str):
        return e
    c = ctor(e)
    if c == "lit":
        v = pyval(e[c]["v"])
        if e.get("_raw"):
            if site is None:
                raise ValueError("a plain Python value at the root")
            return {"raw": {"s": site, "v": v}}
        return {"lit": {"v": v}}
    out = {}
    for k, v in e[c].items():
        if k in ("a", "b", "c", "lo", "hi", "st", "len", "rest", "d") or (k == "v" and c == "when"):
            sub_site = None
            if ctor(v) == "lit" and not isinstance(v, str) and v.get("_raw"):
                sub_site = site_of(c, k, e[c])
            out[k] = strip(v, sub_site)
        elif k == "v":
            out[k] = pyval(v)
        elif k == "vs":
            out[k] = [pyval(x) for x in v]
        else:
            out[k] = v
    return {c: out}


CHILD_KEYS = ("a", "b", "c", "lo", "hi", "st", "len", "rest", "d")


def children(e: t.Any) -> t.List[t.Tuple[str, t.Any]]:
    if isinstance(e, str):
        return []
    c = ctor(e)
    out = []
    for k, v in e[c].items():
        if k in CHILD_KEYS or (k == "v" and c == "when"):
            out.append((k, v))
    return out


def size(e: t.Any) -> int:
    return 1 + sum(size(ch) for _, ch in children(e))


def depth(e: t.Any) -> int:
    return 1 + max([depth(ch) for _, ch in children(e)] or [0])


def cols_of(e: t.Any) -> t.List[str]:
    if ctor(e) == "col":
        return [fields(e)["n"]]
    out: t.List[str] = []
    for _, ch in children(e):
        for c in cols_of(ch):
            if c not in out:
                out.append(c)
    return out


def kinds_of(e: t.Any, acc: t.Dict[str, int]) -> None:
    c = ctor(e)
    f = fields(e)
    k = c + (":" + f["op"] if "op" in f else "") + (":" + f["f"] if "f" in f else "")
    acc[k] = acc.get(k, 0) + 1
    for _, ch in children(e):
        kinds_of(ch, acc)


def lit_type(v: t.Any) -> str:
    return "bool" if isinstance(v, bool) else "int" if isinstance(v, int) else "str" if isinstance(v, str) else "dbl" if isinstance(v, float) else "int"


def has_dbl(e: t.Any) -> bool:
    c = ctor(e)
    f = fields(e)
    if c == "col":
        return COLS[f["n"]] == "dbl"
    if c == "lit":
        return isinstance(f["v"], float)
    if c in ("arithL", "cmpL") and isinstance(f["v"], float):
        return True
    if c == "isin" and any(isinstance(x, float) for x in f["vs"]):
        return True
    if c == "cast" and f["ty"] == "double":
        return True
    return any(has_dbl(ch) for _, ch in children(e))


def py_repr(v: t.Any) -> str:
    """Python source text of a value"""
    if isinstance(v, float) and (math.isnan(v) or math.isinf(v)):
        return f"float({repr(v)!r})"
    return repr(v)


def type_of(e: t.Any) -> str:
    c = ctor(e)
    f = fields(e)
    if c == "col":
        return COLS[f["n"]]
    if c == "lit":
        v = f["v"]
        return e.get("_ty") or lit_type(v)
    if c == "arith":
        return "dbl" if "dbl" in (type_of(f["a"]), type_of(f["b"])) else "int"
    if c == "arithL":
        return "dbl" if isinstance(f["v"], float) or type_of(f["b"]) == "dbl" else "int"
    if c == "neg":
        return type_of(f["a"])
    if c in ("cmp", "cmpL", "logic", "logicL", "not", "isNull", "isNotNull", "eqNullSafe", "isin", "between", "like", "strFn"):
        return "bool"
    if c == "substr":
        return "str"
    if c == "cast":
        return {"string": "str", "bigint": "int", "double": "dbl"}[f["ty"]]
    if c == "alias":
        return type_of(f["a"])
    if c == "when":
        return type_of(f["v"])
    if c == "otherwise":
        return type_of(f["d"])
    return "int"


# ------------------------------------------------------------------------------------------------
# python source text of a tree (for humans and replays)
# ------------------------------------------------------------------------------------------------

PY_OP = {"add": "+", "sub": "-", "mul": "*", "mod": "%", "eq": "==", "ne": "!=", "lt": "<", "le": "<=", "gt": ">", "ge": ">=", "and": "&", "or": "|"}


def show(e: t.Any) -> str:
    c = ctor(e)
    f = fields(e)

    def operand(x: t.Any) -> str:
        if ctor(x) == "lit" and x.get("_raw"):
            return py_repr(fields(x)["v"])
        return show(x)

    if c == "col":
        return f"col({f['n']!r})"
    if c == "lit":
        return f"lit({py_repr(f['v'])})"
    if c in ("arith", "cmp", "logic"):
        return f"({show(f['a'])} {PY_OP[f['op']]} {operand(f['b'])})"
    if c in ("arithL", "cmpL", "logicL"):
        return f"({py_repr(f['v'])} {PY_OP[f['op']]} {show(f['b'])})"
    if c == "neg":
        return f"(-{show(f['a'])})"
    if c == "not":
        return f"(~{show(f['a'])})"
    if c in ("isNull", "isNotNull"):
        return f"{show(f['a'])}.{c}()"
    if c == "eqNullSafe":
        return f"{show(f['a'])}.eqNullSafe({operand(f['b'])})"
    if c == "isin":
        return f"{show(f['a'])}.isin({', '.join(map(py_repr, f['vs'])) if not e.get('_list') else '[' + ', '.join(map(py_repr, f['vs'])) + ']'})"
    if c == "between":
        return f"{show(f['a'])}.between({operand(f['lo'])}, {operand(f['hi'])})"
    if c == "like":
        return f"{show(f['a'])}.like({f['pat']!r})"
    if c == "strFn":
        return f"{show(f['a'])}.{f['f']}({operand(f['b'])})"
    if c == "substr":
        return f"{show(f['a'])}.substr({operand(f['st'])}, {operand(f['len'])})"
    if c == "when":
        out = f"when({show(f['c'])}, {operand(f['v'])})"
        r = f["rest"]
        while ctor(r) == "when":
            out += f".when({show(fields(r)['c'])}, {operand(fields(r)['v'])})"
            r = fields(r)["rest"]
        if ctor(r) == "otherwise":
            out += f".otherwise({operand(fields(r)['d'])})"
        return out
    if c == "cast":
        return f"{show(f['a'])}.cast({f['ty']!r})"
    if c == "alias":
        return f"{show(f['a'])}.alias({f['n']!r})"
    return str(e)


# ------------------------------------------------------------------------------------------------
# typed generator
# ------------------------------------------------------------------------------------------------


class TreeGen:
    def __init__(self, rng: random.Random, cols: t.List[str]):
        self.rng = rng
        self.cols = cols

    def col(self, ty: str) -> t.Optional[dict]:
        cs = [c for c in self.cols if COLS[c] == ty]
        return N("col", n=self.rng.choice(cs)) if cs else None

    def flt(self) -> float:
        """a Python float: from the fixed family, or with random digits and a random exponent (every spelling of repr)"""
        r = self.rng
        if r.random() < 0.6:
            return r.choice(FLOAT_LITS)
        nd = r.choice([1, 1, 2, 2, 3, 4, 6, 9, 12, 15, 17])
        m = r.randrange(10 ** (nd - 1), 10**nd)
        ex = r.choice([-12, -9, -8, -7, -6, -5, -4, -3, -2, -1, 0, 1, 2, 5, 9, 14, 15, 16, 17]) - (nd - 1)
        return float(f"{'-' if r.random() < 0.25 else ''}{m}e{ex}")

    def lit(self, ty: str, raw_ok: bool = True, null_ok: bool = True, plain_ok: bool = False) -> dict:
        r = self.rng
        if null_ok and r.random() < 0.06:
            v: t.Any = None
        elif ty == "int":
            v = r.choice(INT_LITS_PLAIN) if plain_ok and r.random() < 0.3 else r.choice(INT_LITS)
        elif ty == "str":
            v = r.choice(STR_LITS_PLAIN) if plain_ok and r.random() < 0.4 else r.choice(STR_LITS)
        elif ty == "dbl":
            v = r.choice([0, 1, 2, -1]) if r.random() < 0.15 else self.flt()
        else:
            v = r.choice([True, False])
        e = N("lit", v=v)
        e["_ty"] = ty
        if raw_ok and r.random() < 0.5:
            e["_raw"] = True
        return e

    def leaf(self, ty: str) -> dict:
        c = self.col(ty)
        if c is not None and self.rng.random() < 0.75:
            return c
        e = self.lit(ty, raw_ok=False)
        return e

    def maybe_alias(self, e: dict) -> dict:
        if self.rng.random() < 0.04:
            return N("alias", a=e, n=self.rng.choice(ALIASES))
        return e

    def operand(self, ty: str, d: int, plain_ok: bool = False) -> dict:
        """a right-hand operand: sometimes a plain Python value"""
        if self.rng.random() < (0.35 if ty == "dbl" else 0.2):
            return self.lit(ty, raw_ok=True, plain_ok=plain_ok)
        return self.expr(ty, d)

    def expr(self, ty: str, d: int) -> dict:
        e = self._expr(ty, d)
        return self.maybe_alias(e)

    def when(self, ty: str, d: int) -> dict:
        r = self.rng
        n = r.choice([1, 1, 2, 3])
        tail: t.Any = "noElse" if r.random() < 0.3 else N("otherwise", d=self.operand(ty, d - 1))
        for _ in range(n):
            tail = N("when", c=self.expr("bool", d - 1), v=self.operand(ty, d - 1), rest=tail)
        return tail

    def _expr(self, ty: str, d: int) -> dict:
        r = self.rng
        if d <= 1 or r.random() < 0.12:
            return self.leaf(ty)
        if ty == "int":
            k = r.random()
            if k < 0.45:
                return N("arith", op=r.choice(ARITH), a=self.expr("int", d - 1), b=self.operand("int", d - 1))
            if k < 0.62:
                return N("arithL", op=r.choice(ARITH), v=r.choice(INT_LITS), b=self.expr("int", d - 1))
            if k < 0.77:
                return N("neg", a=self.expr("int", d - 1))
            if k < 0.9:
                return self.when("int", d)
            if k < 0.95:
                return N("cast", a=self.expr("int", d - 1), ty="bigint")
            return N("cast", a=self.expr("bool", d - 1), ty="bigint")
        if ty == "dbl":
            k = r.random()
            if k < 0.45:
                op = r.choice(["add", "sub", "mul"])
                if r.random() < 0.75:
                    return N("arith", op=op, a=self.expr("dbl", d - 1), b=self.operand(r.choice(["dbl", "dbl", "int"]), d - 1))
                return N("arith", op=op, a=self.expr("int", d - 1), b=self.operand("dbl", d - 1))
            if k < 0.65:
                op = r.choice(["add", "sub", "mul"])
                if r.random() < 0.7:
                    return N("arithL", op=op, v=self.flt(), b=self.expr(r.choice(["dbl", "dbl", "int"]), d - 1))
                return N("arithL", op=op, v=r.choice(INT_LITS), b=self.expr("dbl", d - 1))
            if k < 0.75:
                return N("neg", a=self.expr("dbl", d - 1))
            if k < 0.9:
                return self.when("dbl", d)
            if k < 0.95:
                return N("cast", a=self.expr("int", d - 1), ty="double")
            return self.leaf("dbl")
        if ty == "str":
            k = r.random()
            if k < 0.3:
                st, ln = self.lit_int([1, 2]), self.lit_int([0, 1, 2])
                return N("substr", a=self.expr("str", d - 1), st=st, len=ln)
            if k < 0.55:
                return N("cast", a=self.expr(r.choice(["int", "int", "bool", "str"]), d - 1), ty="string")
            if k < 0.8:
                return self.when("str", d)
            return self.leaf("str")
        # bool
        k = r.random()
        oty = r.choice(["int", "int", "str", "bool", "bool", "dbl", "dbl"])
        if k < 0.2:
            return N("cmp", op=r.choice(CMP), a=self.expr(oty, d - 1), b=self.operand(oty, d - 1, plain_ok=True))
        if k < 0.27:
            v = self.lit(oty, null_ok=False, plain_ok=True)
            return N("cmpL", op=r.choice(CMP), v=fields(v)["v"], b=self.expr(oty, d - 1))
        if k < 0.42:
            return N("logic", op=r.choice(["and", "or"]), a=self.expr("bool", d - 1), b=self.operand("bool", d - 1))
        if k < 0.49:
            return N("logicL", op=r.choice(["and", "or"]), v=r.choice([True, False]), b=self.expr("bool", d - 1))
        if k < 0.57:
            return N("not", a=self.expr("bool", d - 1))
        if k < 0.64:
            return N("isNull", a=self.expr(oty, d - 1))
        if k < 0.69:
            return N("isNotNull", a=self.expr(oty, d - 1))
        if k < 0.75:
            return N("eqNullSafe", a=self.expr(oty, d - 1), b=self.operand(oty, d - 1, plain_ok=True))
        if k < 0.81:
            vs = [fields(self.lit(oty, plain_ok=True))["v"] for _ in range(r.randint(1, 3))]
            e = N("isin", a=self.expr(oty, d - 1), vs=vs)
            if r.random() < 0.4:
                e["_list"] = True
            return e
        if k < 0.87:
            return N("between", a=self.expr(oty, d - 1), lo=self.operand(oty, d - 1), hi=self.operand(oty, d - 1))
        if k < 0.91:
            return N("like", a=self.expr("str", d - 1), pat=r.choice(LIKE_PATS))
        if k < 0.96:
            f = r.choice(["startswith", "endswith", "rlike"])
            if f == "rlike":
                b = N("lit", v=r.choice(RLIKE_PATS))
                b["_raw"] = True
                b["_ty"] = "str"
            else:
                b = self.operand("str", d - 1)
            return N("strFn", f=f, a=self.expr("str", d - 1), b=b)
        return self.when("bool", d)

    def lit_int(self, pool: t.List[int]) -> dict:
        e = N("lit", v=self.rng.choice(pool))
        e["_ty"] = "int"
        if self.rng.random() < 0.7:
            e["_raw"] = True
        return e


def valid(e: t.Any) -> bool:
    return grammar_ok(e) and stable(e)


def grammar_ok(e: t.Any) -> bool:
    """inside the engine model's grammar: the lower bound of BETWEEN is not a bare (reflected) AND — its `AND`
    would be read as BETWEEN's own keyword, a re-tokenisation the operator-precedence model does not cover"""
    if ctor(e) == "between":
        lo = fields(e)["lo"]
        while ctor(lo) == "alias":
            lo = fields(lo)["a"]
        if ctor(lo) == "logicL" and fields(lo)["op"] == "and":
            return False
    return all(grammar_ok(ch) for _, ch in children(e))


def gen_case(rng: random.Random, max_depth: int = 4) -> dict:
    while True:
        ncols = rng.choice([2, 3, 3, 4])
        cols = rng.sample(list(COLS), ncols)
        g = TreeGen(rng, cols)
        ty = rng.choice(["bool", "bool", "bool", "bool", "int", "str", "dbl", "dbl"])
        d = rng.choice([2, 3, 3, 4, 4]) if max_depth >= 4 else max_depth
        e = g.expr(ty, d)
        if ctor(e) != "alias" and rng.random() < 0.25:
            e = N("alias", a=e, n=rng.choice(ALIASES))
        if valid(e):
            return {"e": e}


def base_cases() -> t.List[dict]:
    """every operator / method of the alphabet once, in each operand form"""
    x, y, s, u, p, q = (N("col", n=c) for c in "xysupq")

    def raw(v: t.Any) -> dict:
        e = N("lit", v=v)
        e["_raw"] = True
        return e

    out: t.List[t.Any] = []
    for op in ARITH:
        out += [N("arith", op=op, a=x, b=y), N("arith", op=op, a=x, b=raw(2)), N("arithL", op=op, v=3, b=y), N("arith", op=op, a=N("arith", op="sub", a=x, b=y), b=N("arith", op="add", a=y, b=raw(1)))]
    for op in CMP:
        out += [N("cmp", op=op, a=x, b=y), N("cmp", op=op, a=s, b=raw("a")), N("cmpL", op=op, v=1, b=x), N("cmpL", op=op, v="a", b=s), N("cmp", op=op, a=p, b=q)]
    for op in ("and", "or"):
        out += [N("logic", op=op, a=p, b=q), N("logic", op=op, a=p, b=raw(True)), N("logicL", op=op, v=True, b=q), N("logicL", op=op, v=False, b=q)]
        out += [N("logic", op=op, a=N("logic", op="or" if op == "and" else "and", a=p, b=q), b=N("not", a=p))]
    out += [N("neg", a=x), N("neg", a=N("neg", a=x)), N("not", a=p), N("not", a=N("not", a=p)), N("not", a=N("logic", op="or", a=p, b=q))]
    out += [N("isNull", a=x), N("isNotNull", a=s), N("isNull", a=N("arith", op="add", a=x, b=y)), N("eqNullSafe", a=x, b=y), N("eqNullSafe", a=s, b=raw("a")), N("eqNullSafe", a=p, b=q)]
    e = N("isin", a=x, vs=[0, 2])
    e2 = N("isin", a=s, vs=["a", None])
    e2["_list"] = True
    out += [e, e2, N("isin", a=p, vs=[True])]
    out += [N("between", a=x, lo=raw(0), hi=raw(2)), N("between", a=x, lo=y, hi=N("arith", op="add", a=y, b=raw(2))), N("between", a=s, lo=raw(""), hi=u)]
    out += [N("like", a=s, pat=pt) for pt in LIKE_PATS]
    out += [N("strFn", f="startswith", a=s, b=raw("a")), N("strFn", f="startswith", a=s, b=u), N("strFn", f="rlike", a=s, b=raw("a"))]
    out += [N("substr", a=s, st=raw(1), len=raw(1)), N("substr", a=s, st=N("lit", v=2), len=N("lit", v=2))]
    out += [N("when", c=p, v=x, rest="noElse"), N("when", c=p, v=raw(1), rest=N("otherwise", d=raw(0))), N("when", c=p, v=s, rest=N("when", c=q, v=raw("b"), rest=N("otherwise", d=u)))]
    out += [N("cast", a=x, ty="string"), N("cast", a=x, ty="bigint"), N("cast", a=p, ty="string"), N("cast", a=p, ty="bigint")]
    out += [N("alias", a=N("arith", op="add", a=x, b=y), n="r"), N("arith", op="add", a=N("alias", a=x, n="w"), b=y), N("alias", a=N("alias", a=x, n="w"), n="r")]
    out += [N("lit", v=None), N("lit", v=True), N("lit", v="a"), N("lit", v=-1), N("isNull", a=N("lit", v=None))]
    # compositions the property is about (in scope): mixed precedence, NOT over a compound, reflected forms
    out += [
        N("logic", op="and", a=N("cmp", op="gt", a=N("arith", op="mul", a=N("arith", op="add", a=x, b=raw(1)), b=raw(2)), b=y), b=N("not", a=N("like", a=s, pat="a%"))),
        N("not", a=N("logic", op="and", a=N("isNull", a=x), b=N("cmp", op="eq", a=y, b=raw(0)))),
        N("arithL", op="sub", v=1, b=N("arithL", op="sub", v=2, b=x)),
        N("logic", op="or", a=N("logic", op="and", a=p, b=q), b=N("isNull", a=p)),
        N("cmp", op="eq", a=N("neg", a=x), b=N("arith", op="mod", a=y, b=raw(2))),
    ]
    # DOUBLE columns and Python floats: every operator / method once
    d, f2 = N("col", n="d"), N("col", n="f")
    for op in ("add", "sub", "mul"):
        out += [N("arith", op=op, a=d, b=f2), N("arith", op=op, a=d, b=raw(0.25)), N("arith", op=op, a=d, b=raw(2)), N("arith", op=op, a=x, b=raw(2.5e-07)), N("arithL", op=op, v=1.5, b=d), N("arithL", op=op, v=1e-07, b=x), N("arithL", op=op, v=3, b=d)]
    for op in CMP:
        out += [N("cmp", op=op, a=d, b=f2), N("cmp", op=op, a=d, b=raw(0.5)), N("cmp", op=op, a=d, b=raw(0)), N("cmp", op=op, a=x, b=raw(0.5)), N("cmpL", op=op, v=3e-07, b=d), N("cmpL", op=op, v=2, b=d)]
    out += [N("neg", a=d), N("neg", a=N("lit", v=2.5e-07)), N("isNull", a=d), N("isNotNull", a=N("arith", op="add", a=d, b=f2)), N("eqNullSafe", a=d, b=f2), N("eqNullSafe", a=d, b=raw(0.5))]
    out += [N("isin", a=d, vs=[0.5, 4.0]), N("isin", a=d, vs=[1e-07, None]), N("isin", a=d, vs=[4, 0]), N("between", a=d, lo=raw(-1e-09), hi=raw(1e-09)), N("between", a=d, lo=f2, hi=raw(4))]
    out += [N("when", c=p, v=raw(1e-07), rest=N("otherwise", d=raw(-1e-07))), N("when", c=N("cmp", op="ge", a=d, b=raw(0)), v=d, rest=N("otherwise", d=N("neg", a=d))), N("cast", a=x, ty="double"), N("alias", a=N("arith", op="mul", a=d, b=raw(2.5e-07)), n="r")]
    out += [N("cmp", op="lt", a=N("arith", op="mul", a=N("arith", op="add", a=d, b=raw(1.234e-05)), b=raw(2)), b=N("arithL", op="sub", v=1e16, b=f2))]
    # NaN is written as a cast (and `lit(nan)` carries the decorator's alias)
    nan = float("nan")
    out += [N("lit", v=nan), N("isNull", a=N("lit", v=nan)), N("when", c=p, v=raw(nan), rest="noElse"), N("eqNullSafe", a=d, b=raw(nan)), N("cmp", op="lt", a=d, b=raw(nan)), N("cmp", op="eq", a=N("lit", v=nan), b=raw(nan))]
    # ±inf: a cast of 'Infinity' to DOUBLE as a plain operand (Column._lit); still the *string* 'inf' through
    # functions.lit — lit(inf), when(c, inf), .otherwise(inf) (H_floatLitFinite)
    inf = float("inf")
    out += [N("cmp", op="lt", a=d, b=raw(inf)), N("cmpL", op="gt", v=inf, b=d), N("cmpL", op="le", v=-inf, b=d), N("isin", a=d, vs=[inf, 4.0]), N("between", a=d, lo=raw(-inf), hi=raw(inf))]
    out += [N("arith", op="mul", a=d, b=raw(inf)), N("arith", op="add", a=d, b=raw(-inf)), N("arithL", op="sub", v=inf, b=d), N("eqNullSafe", a=d, b=raw(inf)), N("arithL", op="mul", v=-inf, b=x)]
    out += [N("lit", v=inf), N("lit", v=-inf), N("when", c=p, v=raw(inf), rest="noElse"), N("cmp", op="gt", a=N("lit", v=inf), b=d), N("arith", op="mul", a=N("lit", v=inf), b=raw(2))]
    out += [N("when", c=p, v=raw(1.5), rest=N("otherwise", d=raw(inf))), N("neg", a=N("lit", v=inf)), N("isNull", a=N("lit", v=-inf))]
    return [{"e": e, "origin": "base"} for e in out]


def entry_points(v: t.Any, ty: str) -> t.List[t.Any]:
    """the plain Python value `v` at every place a literal enters an expression (each reaches `Column._lit`,
    `Column(v)` or `functions.lit` by a different route); the subject is a column of its type"""
    c = N("col", n={"int": "x", "str": "s", "bool": "p", "dbl": "d"}[ty])
    p = N("col", n="p")

    def raw() -> dict:
        e = N("lit", v=v)
        e["_raw"] = True
        e["_ty"] = ty
        return e

    out = [
        N("lit", v=v),
        N("cmp", op="eq", a=c, b=raw()),
        N("cmp", op="lt", a=c, b=N("lit", v=v)),
        N("cmpL", op="ge", v=v, b=c),
        N("eqNullSafe", a=c, b=raw()),
        N("isin", a=c, vs=[v]),
        N("between", a=c, lo=raw(), hi=raw()),
        N("when", c=p, v=raw(), rest=N("otherwise", d=raw())),
        N("when", c=N("isNull", a=c), v=N("lit", v=v), rest=N("otherwise", d=c)),
    ]
    e = N("isin", a=c, vs=[v, None])
    e["_list"] = True
    out.append(e)
    if ty in ("int", "dbl"):
        out += [N("arith", op="mul", a=c, b=raw()), N("arithL", op="sub", v=v, b=c), N("neg", a=N("lit", v=v))]
    if ty == "dbl":
        x = N("col", n="x")
        out += [N("arithL", op="mul", v=v, b=x), N("cmp", op="gt", a=x, b=raw())]
    if ty == "bool":
        out += [N("logic", op="and", a=c, b=raw()), N("logicL", op="or", v=v, b=c)]
    if ty == "str":
        out += [N("strFn", f="startswith", a=c, b=raw())]
    return out


def literal_cases(rng: random.Random, thorough: bool) -> t.List[dict]:
    """targeted family: every kind of plain Python value, in every spelling, at every entry point"""
    g = TreeGen(rng, list(COLS))
    floats = list(FLOAT_LITS) + [-v for v in FLOAT_LITS[:6]] + [5e-324, 1.7976931348623157e308, 2.2250738585072014e-308, 0.30000000000000004, 1e22, 1e23, 123456789012345678.0]
    floats += [g.flt() for _ in range(60 if thorough else 14)]
    vals: t.List[t.Tuple[t.Any, str]] = [(v, "dbl") for v in floats]
    vals += [(v, "int") for v in INT_LITS + INT_LITS_PLAIN]
    vals += [(v, "str") for v in STR_LITS + STR_LITS_PLAIN]
    vals += [(True, "bool"), (False, "bool")]
    vals += [(None, ty) for ty in ("int", "str", "bool", "dbl")]
    out = []
    for v, ty in vals:
        eps = entry_points(v, ty)
        big = isinstance(v, float) and v != 0 and not (1e-30 < abs(v) < 1e30)
        for e in eps:
            c = ctor(e)
            # the domain excludes overflow: extreme magnitudes only where nothing is computed with them
            if big and c in ("arith", "arithL"):
                continue
            if isinstance(v, int) and not isinstance(v, bool) and abs(v) >= 2**31 and c in ("arith", "arithL", "neg"):
                continue
            if grammar_ok(e) and stable(e):
                out.append({"e": e, "origin": "literal"})
    return out


# ------------------------------------------------------------------------------------------------
# the real implementation
# ------------------------------------------------------------------------------------------------

_STATE: t.Dict[str, t.Any] = {}


def session() -> t.Any:
    if "s" not in _STATE:
        _STATE["s"] = vlib.fresh_duckdb_session()
        _STATE["tables"] = {}
    return _STATE["s"]


def conn() -> t.Any:
    s = session()
    return s._conn


def sql_lit(v: t.Any) -> str:
    if v is None:
        return "NULL"
    if isinstance(v, bool):
        return "TRUE" if v else "FALSE"
    if isinstance(v, int):
        return str(v) if v >= 0 else f"({v})"
    if isinstance(v, float):
        return f"CAST({repr(v)!r} AS DOUBLE)"
    return "'" + str(v).replace("'", "''") + "'"


SQL_TY = {"int": "BIGINT", "str": "VARCHAR", "bool": "BOOLEAN", "dbl": "DOUBLE"}


def pool_table(cols: t.List[str]) -> str:
    """a DuckDB table holding the cartesian product of the pools of `cols` (created once per column set)"""
    session()
    key = "_".join(cols) or "none"
    name = "c05_pool_" + key
    if name not in _STATE["tables"]:
        c = conn()
        if not cols:
            c.execute(f"CREATE TABLE {name} AS SELECT 0 AS z0")
        else:
            parts = []
            for col in cols:
                vals = ", ".join(f"(CAST({sql_lit(v)} AS {SQL_TY[COLS[col]]}))" for v in POOL[COLS[col]])
                parts.append(f"(VALUES {vals}) AS v_{col}({col})")
            c.execute(f"CREATE TABLE {name} AS SELECT * FROM " + ", ".join(parts))
        _STATE["tables"][name] = True
    return name


def to_column(e: t.Any, F: t.Any, check_immutable: bool = True) -> t.Any:
    """build the real sqlframe Column exactly as the user would write it"""
    c = ctor(e)
    f = fields(e)

    def operand(x: t.Any) -> t.Any:
        if ctor(x) == "lit" and x.get("_raw"):
            return fields(x)["v"]
        return to_column(x, F, check_immutable)

    def binop(op: str, a: t.Any, b: t.Any) -> t.Any:
        if op == "add":
            return a + b
        if op == "sub":
            return a - b
        if op == "mul":
            return a * b
        if op == "mod":
            return a % b
        if op == "eq":
            return a == b
        if op == "ne":
            return a != b
        if op == "lt":
            return a < b
        if op == "le":
            return a <= b
        if op == "gt":
            return a > b
        if op == "ge":
            return a >= b
        if op == "and":
            return a & b
        if op == "or":
            return a | b
        raise ValueError(op)

    if c == "col":
        return F.col(f["n"])
    if c == "lit":
        return F.lit(f["v"])
    kids = {}
    before = {}
    for k, ch in children(e):
        if k == "rest":
            continue
        v = operand(ch)
        kids[k] = v
        if check_immutable and hasattr(v, "expression"):
            before[k] = json.dumps(sexp(v.expression), sort_keys=True)
    if c in ("arith", "cmp", "logic"):
        out = binop(f["op"], kids["a"], kids["b"])
    elif c in ("arithL", "cmpL", "logicL"):
        out = binop(f["op"], f["v"], kids["b"])
    elif c == "neg":
        out = -kids["a"]
    elif c == "not":
        out = ~kids["a"]
    elif c == "isNull":
        out = kids["a"].isNull()
    elif c == "isNotNull":
        out = kids["a"].isNotNull()
    elif c == "eqNullSafe":
        out = kids["a"].eqNullSafe(kids["b"])
    elif c == "isin":
        out = kids["a"].isin(list(f["vs"])) if e.get("_list") else kids["a"].isin(*f["vs"])
    elif c == "between":
        out = kids["a"].between(kids["lo"], kids["hi"])
    elif c == "like":
        out = kids["a"].like(f["pat"])
    elif c == "strFn":
        out = getattr(kids["a"], f["f"])(kids["b"])
    elif c == "substr":
        out = kids["a"].substr(kids["st"], kids["len"])
    elif c == "when":
        # the chain is nested to the right in the tree; the receiver grows to the left in Python
        chain = [e]
        r = f["rest"]
        while ctor(r) == "when":
            chain.append(r)
            r = fields(r)["rest"]
        out = None
        for i, w in enumerate(chain):
            wf = fields(w)
            cc = kids["c"] if i == 0 else to_column(wf["c"], F, check_immutable)
            vv = kids["v"] if i == 0 else operand(wf["v"])
            if out is None:
                out = F.when(cc, vv)
            else:
                snap = json.dumps(sexp(out.expression), sort_keys=True)
                nxt = out.when(cc, vv)
                if check_immutable and json.dumps(sexp(out.expression), sort_keys=True) != snap:
                    raise AssertionError("Column.when mutated its receiver")
                out = nxt
        if ctor(r) == "otherwise":
            snap = json.dumps(sexp(out.expression), sort_keys=True)
            nxt = out.otherwise(operand(fields(r)["d"]))
            if check_immutable and json.dumps(sexp(out.expression), sort_keys=True) != snap:
                raise AssertionError("Column.otherwise mutated its receiver")
            out = nxt
        return out
    elif c == "cast":
        out = kids["a"].cast(f["ty"])
    elif c == "alias":
        out = kids["a"].alias(f["n"])
    elif c in ("noElse", "otherwise"):
        raise ValueError("a `when` tail outside a chain")
    else:
        raise ValueError(c)
    if check_immutable:
        for k, s0 in before.items():
            if json.dumps(sexp(kids[k].expression), sort_keys=True) != s0:
                raise AssertionError(f"building {c} mutated its operand {k}")
    return out


BIN_CLASSES = {"EQ", "NEQ", "GT", "GTE", "LT", "LTE", "And", "Or", "Add", "Sub", "Mul", "Div", "Mod", "NullSafeEQ", "Like", "ILike"}


def sexp(node: t.Any) -> t.Any:
    """canonical s-expression of a sqlglot tree in the vocabulary of `SqlExpr.toSexp`; anything else is opaque"""
    from sqlglot import expressions as exp

    k = type(node).__name__

    def extra(allowed: t.Set[str]) -> bool:
        return any(v is not None and v != [] and v is not False and a not in allowed for a, v in node.args.items())

    if isinstance(node, exp.Column):
        if extra({"this"}) or not isinstance(node.this, exp.Identifier):
            return ["raw", node.sql()]
        return ["Column", node.name]
    if isinstance(node, exp.Literal):
        if extra({"this", "is_string"}) or not isinstance(node.this, str):
            return ["raw", node.sql()]
        if node.is_string:
            return ["Literal", {"s": node.this}]
        return ["Number", node.this]  # the literal's text as it is: its spelling is part of the structure
    if isinstance(node, exp.Boolean):
        return ["Boolean", bool(node.this)]
    if isinstance(node, exp.Null):
        return ["Null"]
    if isinstance(node, exp.Paren):
        return ["Paren", sexp(node.this)]
    if k in BIN_CLASSES:
        if extra({"this", "expression"}):
            return ["raw", node.sql()]
        return [k, sexp(node.this), sexp(node.expression)]
    if k in ("Not", "Neg"):
        return [k, sexp(node.this)]
    if isinstance(node, exp.Is):
        return ["Is", sexp(node.this), sexp(node.expression)]
    if isinstance(node, exp.In):
        if extra({"this", "expressions"}):
            return ["raw", node.sql()]
        return ["In", sexp(node.this), [sexp(x) for x in node.expressions]]
    if isinstance(node, exp.Between):
        return ["Between", sexp(node.this), sexp(node.args["low"]), sexp(node.args["high"])]
    if isinstance(node, exp.StartsWith):
        return ["Fn", "StartsWith", sexp(node.this), sexp(node.expression)]
    if isinstance(node, exp.RegexpLike):
        if extra({"this", "expression"}):
            return ["raw", node.sql()]
        return ["Fn", "RegexpLike", sexp(node.this), sexp(node.expression)]
    if isinstance(node, exp.Substring):
        return ["Fn", "Substring", sexp(node.this), sexp(node.args["start"]), sexp(node.args["length"])]
    if isinstance(node, exp.Anonymous):
        name = str(node.this).upper()
        tag = "Anonymous:" + name
        if name == "ENDS_WITH" and _STATE.get("endswithViaSession"):
            tag = "Session:endswith"
        return ["Fn", tag] + [sexp(x) for x in node.expressions]
    if isinstance(node, exp.Case):
        if node.args.get("this") is not None:
            return ["raw", node.sql()]
        d = node.args.get("default")
        tail: t.Any = ["CaseElse", sexp(d)] if d is not None else ["CaseEnd"]
        for i in reversed(node.args.get("ifs") or []):
            tail = ["CaseWhen", sexp(i.this), sexp(i.args["true"]), tail]
        return tail
    if isinstance(node, exp.Cast):
        to = node.args["to"]
        if to.expressions or type(node) is not exp.Cast:
            return ["raw", node.sql()]
        return ["Cast", sexp(node.this), to.this.name]
    if isinstance(node, exp.Alias):
        # the `@meta` decorator's automatic display alias (`when__<identifier>__`); its spelling is C10's business
        name = node.alias
        return ["Alias", sexp(node.this), "<auto>" if name.startswith(("when__", "lit__")) and name.endswith("__") else name]
    return ["raw", node.sql()]


SQL_BIN = {"EQ": "=", "NEQ": "<>", "GT": ">", "GTE": ">=", "LT": "<", "LTE": "<=", "And": "AND", "Or": "OR", "Add": "+", "Sub": "-", "Mul": "*", "Mod": "%", "NullSafeEQ": "IS NOT DISTINCT FROM", "Like": "LIKE"}
SQL_FN = {"StartsWith": "STARTS_WITH", "RegexpLike": "REGEXP_MATCHES", "Substring": "SUBSTRING", "Session:endswith": "ENDS_WITH"}


def render_full(s: t.Any) -> str:
    """DuckDB text of a model tree with *every* compound node parenthesised: the engine can only group it as the tree is"""
    h = s[0]
    if h == "Column":
        return f'"{s[1]}"'
    if h == "Literal":
        return sql_lit(s[1]["s"])
    if h == "Number":
        return f"({s[1]})" if s[1].startswith("-") else s[1]
    if h == "Boolean":
        return "TRUE" if s[1] else "FALSE"
    if h == "Null":
        return "NULL"
    if h == "Paren":
        return "(" + render_full(s[1]) + ")"
    if h in SQL_BIN:
        return f"({render_full(s[1])} {SQL_BIN[h]} {render_full(s[2])})"
    if h == "Not":
        return f"(NOT {render_full(s[1])})"
    if h == "Neg":
        return f"(- {render_full(s[1])})"
    if h == "Is":
        return f"({render_full(s[1])} IS NULL)"
    if h == "In":
        return f"({render_full(s[1])} IN ({', '.join(render_full(x) for x in s[2])}))"
    if h == "Between":
        return f"({render_full(s[1])} BETWEEN {render_full(s[2])} AND {render_full(s[3])})"
    if h == "Fn":
        name = SQL_FN.get(s[1]) or s[1].split(":", 1)[-1]
        return f"{name}({', '.join(render_full(x) for x in s[2:])})"
    if h == "CaseWhen":
        out = "CASE"
        while s[0] == "CaseWhen":
            out += f" WHEN {render_full(s[1])} THEN {render_full(s[2])}"
            s = s[3]
        if s[0] == "CaseElse":
            out += f" ELSE {render_full(s[1])}"
        elif s[0] != "CaseEnd":
            raise ValueError("malformed CASE chain")
        return out + " END"
    if h == "CaseEnd":
        return "NULL"
    if h == "CaseElse":
        return render_full(s[1])
    if h == "Cast":
        return f"CAST({render_full(s[1])} AS {s[2]})"
    if h == "Alias":
        return render_full(s[1])
    raise ValueError(f"cannot render {s!r}")


def err_kind(ex: BaseException) -> str:
    n = type(ex).__name__
    # DuckDB types a positional float literal as DECIMAL: arithmetic between two such literals can leave the range of
    # DECIMAL(18, s) ("Casting value … to type DECIMAL(18,9) failed: value is out of range") — an engine-defined overflow
    if n == "ConversionException" and "out of range" in str(ex) and "DECIMAL" in str(ex):
        return "overflow"
    return {"ParserException": "syntax", "CatalogException": "function", "BinderException": "binder", "OutOfRangeException": "overflow"}.get(n, n)


def row_key(vals: t.Sequence[t.Any]) -> str:
    return json.dumps([plain_or_repr(v) for v in vals], sort_keys=True)


def plain_or_repr(v: t.Any) -> t.Any:
    """a returned value in the comparison encoding: DOUBLE / DECIMAL results as {"f": float | "nan" | "inf" | "-inf"}"""
    if isinstance(v, decimal.Decimal):
        v = float(v)
    if isinstance(v, float):
        if math.isnan(v):
            return {"f": "nan"}
        if math.isinf(v):
            return {"f": "-inf" if v < 0 else "inf"}
        return {"f": v}
    try:
        return plain(v)
    except TypeError:
        return {"repr": repr(v)}


def as_number(a: t.Any) -> t.Any:
    """{"f": x} (implementation) or {"d": [m, e]} (exact decimal of model / specification) -> Fraction | 'nan' | 'inf' | '-inf'"""
    if isinstance(a, dict) and "f" in a:
        return a["f"] if isinstance(a["f"], str) else Fraction(a["f"])
    if isinstance(a, dict) and "d" in a:
        return a["d"] if isinstance(a["d"], str) else Fraction(a["d"][0]) * Fraction(10) ** a["d"][1]
    return None


def val_eq(a: t.Any, b: t.Any, tol: float = REL_TOL) -> bool:
    """equality of two encoded values; two DOUBLEs agree within the relative tolerance `tol` (no absolute slack:
    a tiny value must not be confused with zero)"""
    x, y = as_number(a), as_number(b)
    # a BIGINT value and a DOUBLE value are compared numerically: SQL unifies the branch types of a CASE (and of IN /
    # BETWEEN operands) to DOUBLE, so `when(p, 0).otherwise(d)` returns 0.0 where the specification says 0
    exact_int = False
    if x is None and isinstance(a, int) and not isinstance(a, bool) and y is not None:
        x, exact_int = Fraction(a), True  # an integer has no rounding: the DOUBLE must be exactly it
    if y is None and isinstance(b, int) and not isinstance(b, bool) and x is not None:
        y, exact_int = Fraction(b), True
    if x is None or y is None:
        return a == b
    if isinstance(x, str) or isinstance(y, str):
        return x == y
    if x == y:
        return True
    if exact_int:
        return False
    if tol == 0:
        # no arithmetic was involved: the two are the same DOUBLE (the decimal of the specification is the shortest
        # spelling of exactly one double)
        try:
            return float(x) == float(y)
        except OverflowError:
            return False
    return abs(x - y) <= Fraction(tol) * max(abs(x), abs(y))


def computes(e: t.Any) -> bool:
    """does the tree do arithmetic (whose DOUBLE results the engine rounds)?  If not, values only travel from literals
    and columns to the result and are compared exactly"""
    if ctor(e) in ("arith", "arithL", "neg", "cast"):
        return True
    return any(computes(ch) for _, ch in children(e))


def rows_eq(a: t.Dict[str, t.Any], b: t.Dict[str, t.Any], tol: float = REL_TOL) -> bool:
    return a.keys() == b.keys() and all(val_eq(v, b[k], tol) for k, v in a.items())


def run_impl(case: dict) -> dict:
    """the real side of one case: structure of the Column, and the values DuckDB returns through sqlframe"""
    from sqlframe.duckdb import functions as F

    e = case["e"]
    cols = case["cols"]
    out: t.Dict[str, t.Any] = {}
    try:
        column = to_column(e, F)
    except Exception as ex:  # noqa
        return {"build_err": f"{type(ex).__name__}: {str(ex)[:200]}"}
    expr = column.expression
    out["sexp"] = sexp(expr)
    out["sql"] = expr.sql(dialect="duckdb")
    df = session().table(pool_table(cols))
    try:
        rows = df.select(*[F.col(c) for c in cols], column).collect()
        res = {}
        for r in rows:
            vals = list(r)
            k = row_key(vals[: len(cols)])
            v = plain_or_repr(vals[len(cols)])
            if k in res and res[k] != v:
                out["nondeterministic"] = True
            res[k] = v
        out["rows"] = res
    except Exception as ex:  # noqa
        out["err"] = err_kind(ex)
        out["err_text"] = f"{type(ex).__name__}: {str(ex).splitlines()[0][:160]}"
    return out


def run_engine(case: dict, engine_sexp: t.Any) -> dict:
    """DuckDB on the model's engine tree, rendered so that no regrouping is possible"""
    cols = case["cols"]
    try:
        text = render_full(engine_sexp)
    except Exception as ex:  # noqa
        return {"err": "render", "err_text": str(ex)}
    q = "SELECT " + ", ".join([f'"{c}"' for c in cols] + [text + " AS r_"]) + " FROM " + pool_table(cols)
    try:
        rows = conn().execute(q).fetchall()
    except Exception as ex:  # noqa
        return {"err": err_kind(ex), "err_text": f"{type(ex).__name__}: {str(ex).splitlines()[0][:160]}", "sql": text}
    res = {}
    for r in rows:
        res[row_key(list(r[: len(cols)]))] = plain_or_repr(r[len(cols)])
    return {"rows": res, "sql": text}


def keyed(case: dict, values: t.List[t.Any]) -> t.Dict[str, t.Any]:
    """the driver's per-row list (cartesian product, first column slowest) keyed like the implementation's rows"""
    cols = case["cols"]
    prod = list(itertools.product(*[POOL[COLS[c]] for c in cols]))
    if len(prod) != len(values):
        raise RuntimeError(f"driver returned {len(values)} rows for {len(prod)} environments")
    return {row_key(list(r)): v for r, v in zip(prod, values)}


def case_to_lean(i: int, case: dict) -> dict:
    return {"case": i, "e": strip(case["e"]), "cols": [{"n": c, "pool": [cval(v) for v in POOL[COLS[c]]]} for c in case["cols"]]}


def prepare(case: dict) -> dict:
    case = dict(case)
    if "cols" not in case:
        case["cols"] = sorted(cols_of(case["e"]), key=list(COLS).index)
    return case


def evaluate(cases: t.List[dict]) -> t.List[dict]:
    cases = [prepare(c) for c in cases]
    outs = vlib.run_driver("C05", [case_to_lean(i, c) for i, c in enumerate(cases)])
    res = []
    for c, o in zip(cases, outs):
        if "err" in o:
            raise RuntimeError(f"driver rejected a case: {o} :: {json.dumps(strip(c['e']))[:300]}")
        impl = run_impl(c)
        spec = keyed(c, o["spec"])
        model = keyed(c, o["model"])
        r: t.Dict[str, t.Any] = {"case": c, "impl": impl, "driver": {k: o.get(k) for k in ("build", "engine", "fnsOK", "litsOK", "sitesOK", "wellParen", "scope")}}
        # A — structure
        r["struct_ok"] = "sexp" in impl and impl["sexp"] == o["build"] and bool(o.get("sitesOK", True))
        if impl.get("err") == "overflow":
            r["overflow"] = True  # the property's domain excludes overflow (engine-defined): counted, not judged
        # B — engine grouping
        if "build_err" in impl:
            r["engine_ok"] = False
            eng: t.Dict[str, t.Any] = {}
        elif o["engine"] is None:
            eng = {"err": "syntax"}
            r["engine_ok"] = impl.get("err") == "syntax"
        elif not o["fnsOK"]:
            eng = {"err": "function"}
            r["engine_ok"] = impl.get("err") == "function"
        elif not o.get("litsOK", True):
            eng = {"err": "binder"}  # a literal whose text is not a literal to the engine (a bare `inf`): an unknown column
            r["engine_ok"] = impl.get("err") == "binder"
        else:
            eng = run_engine(c, o["engine"])
            if "err" in eng or "err" in impl:
                r["engine_ok"] = eng.get("err") is not None and eng.get("err") == impl.get("err")
            else:
                r["engine_ok"] = rows_eq(eng["rows"], impl["rows"], 1e-12)
        r["engine"] = eng
        # S — meaning
        tol = REL_TOL if computes(c["e"]) else 0.0
        r["spec_ok"] = "rows" in impl and rows_eq(impl["rows"], spec, tol) and not impl.get("nondeterministic")
        # in scope the Lean evaluation of the engine tree is the implementation's value as well
        r["model_ok"] = bool(o["scope"]) or ("rows" in impl and rows_eq(impl["rows"], model, tol))
        r["spec"] = spec
        r["mirror_ok"] = py_spec(c) == spec
        res.append(r)
    return res


def first_diff(r: dict) -> t.Optional[dict]:
    impl = r["impl"]
    if "rows" not in impl:
        return {"row": None, "implementation": impl.get("err_text") or impl.get("build_err"), "specification": "a value for every row"}
    for k, v in r["spec"].items():
        if not val_eq(impl["rows"].get(k, "<missing>"), v, REL_TOL if computes(r["case"]["e"]) else 0.0):
            return {"row": dict(zip(r["case"]["cols"], json.loads(k))), "implementation": impl["rows"].get(k, "<missing>"), "specification": v}
    return None


# ------------------------------------------------------------------------------------------------
# Python mirror of `denote` and of the pattern part of the scope hypotheses.
# Used (a) as a cross-check of the driver's `spec` on every case (a drift is a broken obligation) and
# (b) as the specification of the failing-input search when the Lean model no longer builds
# (e.g. the source left the translator's sub-language), so that a concrete input can still be reported.
# ------------------------------------------------------------------------------------------------


def _and3(a: t.Any, b: t.Any) -> t.Any:
    if a is False or b is False:
        return False
    if a is True and b is True:
        return True
    return None


def _or3(a: t.Any, b: t.Any) -> t.Any:
    if a is True or b is True:
        return True
    if a is False and b is False:
        return False
    return None


def _not3(a: t.Any) -> t.Any:
    return (not a) if isinstance(a, bool) else None


# Values of the mirror: None, bool, int (BIGINT), str, and DOUBLE — a `Fraction` in the exact mode (the exact decimal,
# as in Lean), a `float` in the IEEE modes; the specials (nan, ±inf) are floats in every mode.
# Modes: "exact" is the specification; "ieee" evaluates like an engine does; "up" / "down" are "ieee" with every
# arithmetic result moved one ulp away — a tree whose observable result is the same in all four does not depend on rounding.


def _is_int(x: t.Any) -> bool:
    return isinstance(x, int) and not isinstance(x, bool)


def _is_dbl(x: t.Any) -> bool:
    return isinstance(x, (Fraction, float))


def _special(x: t.Any) -> bool:
    return isinstance(x, float) and (math.isnan(x) or math.isinf(x))


def _dbl(v: float, mode: str) -> t.Any:
    """a Python float (literal or column value) as a value of the mirror"""
    if math.isnan(v) or math.isinf(v):
        return v
    return frac_of(v) if mode == "exact" else float(v)


def _lit_val(v: t.Any, mode: str) -> t.Any:
    return _dbl(v, mode) if isinstance(v, float) else v


def _round(r: t.Any, mode: str) -> t.Any:
    if mode in ("up", "down") and isinstance(r, float) and r != 0 and not _special(r):
        return math.nextafter(r, math.inf if mode == "up" else -math.inf)
    return r


def _num_lt(a: t.Any, b: t.Any) -> bool:
    """the total order of Spark and DuckDB: -inf < finite < +inf < NaN, NaN = NaN"""
    an = isinstance(a, float) and math.isnan(a)
    bn = isinstance(b, float) and math.isnan(b)
    if an:
        return False
    if bn:
        return True
    return a < b


def _lt(a: t.Any, b: t.Any) -> t.Optional[bool]:
    if a is None or b is None:
        return None
    if isinstance(a, bool) or isinstance(b, bool):
        return ((not a) and b) if isinstance(a, bool) and isinstance(b, bool) else None
    if isinstance(a, str) or isinstance(b, str):
        return (a < b) if isinstance(a, str) and isinstance(b, str) else None
    if (_is_int(a) or _is_dbl(a)) and (_is_int(b) or _is_dbl(b)):
        return _num_lt(a, b)
    return None


def _cmp(op: str, a: t.Any, b: t.Any) -> t.Any:
    lt, gt = _lt(a, b), _lt(b, a)
    if lt is None or gt is None:
        return None
    return {"eq": not lt and not gt, "ne": lt or gt, "lt": lt, "le": not gt, "gt": gt, "ge": not lt}[op]


def _tmod(a: int, b: int) -> int:
    r = abs(a) % abs(b)
    return -r if a < 0 else r


def _arith(op: str, a: t.Any, b: t.Any, mode: str = "exact") -> t.Any:
    if _is_int(a) and _is_int(b):
        if op == "add":
            return a + b
        if op == "sub":
            return a - b
        if op == "mul":
            return a * b
        return None if b == 0 else _tmod(a, b)
    if op == "mod" or not ((_is_int(a) or _is_dbl(a)) and (_is_int(b) or _is_dbl(b))):
        return None
    if mode == "exact" and not (_special(a) or _special(b)):
        x, y = Fraction(a), Fraction(b)
    else:
        x, y = float(a), float(b)
    try:
        r = x + y if op == "add" else x - y if op == "sub" else x * y
    except OverflowError:
        r = math.inf
    return _round(r, mode)


def _like(pat: str, sv: str) -> bool:
    if not pat:
        return not sv
    if pat[0] == "%":
        return any(_like(pat[1:], sv[i:]) for i in range(len(sv) + 1))
    return bool(sv) and (pat[0] == "_" or pat[0] == sv[0]) and _like(pat[1:], sv[1:])


def _eq_true(a: t.Any, b: t.Any) -> bool:
    return _cmp("eq", a, b) is True


def py_denote(env: t.Dict[str, t.Any], e: t.Any, mode: str = "exact") -> t.Any:
    c = ctor(e)
    f = fields(e)
    D = lambda x: py_denote(env, x, mode)  # noqa
    L = lambda v: _lit_val(v, mode)  # noqa
    if c == "col":
        return env.get(f["n"])
    if c == "lit":
        return L(f["v"])
    if c == "arith":
        return _arith(f["op"], D(f["a"]), D(f["b"]), mode)
    if c == "arithL":
        return _arith(f["op"], L(f["v"]), D(f["b"]), mode)
    if c == "cmp":
        return _cmp(f["op"], D(f["a"]), D(f["b"]))
    if c == "cmpL":
        return _cmp(f["op"], L(f["v"]), D(f["b"]))
    if c == "logic":
        return (_and3 if f["op"] == "and" else _or3)(*[x if isinstance(x, bool) else None for x in (D(f["a"]), D(f["b"]))])
    if c == "logicL":
        return (_and3 if f["op"] == "and" else _or3)(*[x if isinstance(x, bool) else None for x in (f["v"], D(f["b"]))])
    if c == "neg":
        v = D(f["a"])
        return -v if (_is_int(v) or _is_dbl(v)) else None
    if c == "not":
        return _not3(D(f["a"]))
    if c == "isNull":
        return D(f["a"]) is None
    if c == "isNotNull":
        return D(f["a"]) is not None
    if c == "eqNullSafe":
        a, b = D(f["a"]), D(f["b"])
        if a is None or b is None:
            return a is None and b is None
        return _eq_true(a, b)
    if c == "isin":
        v = D(f["a"])
        if v is None:
            return None
        vs = [L(x) for x in f["vs"]]
        if any(_eq_true(v, x) for x in vs):
            return True
        return None if any(x is None for x in vs) else False
    if c == "between":
        a = D(f["a"])
        return _and3(_cmp("ge", a, D(f["lo"])), _cmp("le", a, D(f["hi"])))
    if c == "like":
        v = D(f["a"])
        return _like(f["pat"], v) if isinstance(v, str) else None
    if c == "strFn":
        a, b = D(f["a"]), D(f["b"])
        if not isinstance(a, str) or not isinstance(b, str):
            return None
        return {"startswith": a.startswith(b), "endswith": a.endswith(b), "rlike": b in a}[f["f"]]
    if c == "substr":
        a, st, ln = D(f["a"]), D(f["st"]), D(f["len"])
        if not isinstance(a, str) or not _is_int(st) or not _is_int(ln):
            return None
        return a[max(st - 1, 0) :][: max(ln, 0)]
    if c == "when":
        return D(f["v"]) if D(f["c"]) is True else D(f["rest"])
    if c == "noElse":
        return None
    if c == "otherwise":
        return D(f["d"])
    if c == "cast":
        v = D(f["a"])
        if f["ty"] == "string":
            return None if v is None or _is_dbl(v) else ("true" if v is True else "false" if v is False else str(v))
        if f["ty"] == "double":
            if _is_int(v):
                return Fraction(v) if mode == "exact" else float(v)
            return v if _is_dbl(v) else None
        return None if v is None or isinstance(v, str) or _is_dbl(v) else int(v)
    if c == "alias":
        return D(f["a"])
    raise ValueError(c)


def enc(v: t.Any) -> t.Any:
    """a value of the mirror in the driver's output encoding (exact decimals as {"d": [m, e]})"""
    if isinstance(v, Fraction):
        return {"d": dec_pair(v)}
    if isinstance(v, float):
        if math.isnan(v):
            return {"d": "nan"}
        if math.isinf(v):
            return {"d": "-inf" if v < 0 else "inf"}
        return {"f": v}
    return plain(v)


def envs_of(cols: t.List[str], mode: str) -> t.Iterator[t.Tuple[t.Tuple[t.Any, ...], t.Dict[str, t.Any]]]:
    for r in itertools.product(*[POOL[COLS[c]] for c in cols]):
        yield r, {c: _lit_val(v, mode) for c, v in zip(cols, r)}


def py_spec(case: dict) -> t.Dict[str, t.Any]:
    cols = case["cols"]
    out = {}
    for r, env in envs_of(cols, "exact"):
        out[row_key(list(r))] = enc(py_denote(env, case["e"], "exact"))
    return out


_STABLE: t.Dict[str, bool] = {}


def stable(e: t.Any) -> bool:
    """the observable result does not depend on IEEE rounding: the exact-decimal evaluation (the specification), the
    IEEE evaluation and the IEEE evaluation with every arithmetic result moved one ulp up / down agree on every row
    (non-DOUBLE results exactly, DOUBLE results within REL_TOL / 10).  Trees without a DOUBLE are always stable."""
    if not has_dbl(e):
        return True
    key = json.dumps(e, sort_keys=True, default=repr)
    if key in _STABLE:
        return _STABLE[key]
    cols = sorted(cols_of(e), key=list(COLS).index)
    ok = True
    try:
        rows = {m: [py_denote(env, e, m) for _, env in envs_of(cols, m)] for m in ("exact", "ieee", "up", "down")}
        for i, ex in enumerate(rows["exact"]):
            for m in ("ieee", "up", "down"):
                if not val_eq(enc(ex), enc(rows[m][i]), REL_TOL / 10):
                    ok = False
                    break
            if not ok:
                break
    except (OverflowError, ValueError, ZeroDivisionError):
        ok = False
    _STABLE[key] = ok
    return ok


def _core(e: t.Any) -> t.Any:
    while ctor(e) == "alias":
        e = fields(e)["a"]
    return e


def _atomic_py(e: t.Any) -> bool:
    return ctor(_core(e)) in ("col", "lit", "arith", "arithL", "logic", "neg", "strFn", "substr", "when", "noElse", "otherwise", "cast")


def py_in_scope(e: t.Any) -> bool:
    """the pattern part of every scope hypothesis (as if no cause were repaired in the source): conservative"""
    c = ctor(e)
    f = fields(e)
    if c in ("arith", "cmp", "eqNullSafe") and not (_atomic_py(f["a"]) and _atomic_py(f["b"])):
        return False
    if c in ("arithL", "cmpL") and not _atomic_py(f["b"]):
        return False
    if c in ("isNull", "isNotNull", "isin", "like") and not _atomic_py(f["a"]):
        return False
    if c == "between":
        if not all(_atomic_py(f[k]) for k in ("a", "lo", "hi")) or any(ctor(f[k]) in ("alias", "when") for k in ("lo", "hi")):
            return False
    if c in ("logic", "logicL") and any(ctor(_core(ch)) == "logicL" for _, ch in children(e)):
        return False
    if c == "strFn" and f["f"] == "endswith":
        return False
    if any(isinstance(v, float) and math.isinf(v) for v in ([f["v"]] if c in ("lit", "arithL", "cmpL") else f["vs"] if c == "isin" else [])):
        return False
    return all(py_in_scope(ch) for _, ch in children(e))


def evaluate_without_model(cases: t.List[dict]) -> t.List[dict]:
    """implementation vs the Python mirror of the specification, on cases inside the pattern scope"""
    res = []
    for c in cases:
        c = prepare(c)
        if not py_in_scope(c["e"]):
            continue
        try:
            impl = run_impl(c)
        except Exception as ex:  # noqa
            impl = {"build_err": f"{type(ex).__name__}: {str(ex)[:200]}"}
        spec = py_spec(c)
        ok = "rows" in impl and rows_eq(impl["rows"], spec, REL_TOL if computes(c["e"]) else 0.0)
        res.append(
            {
                "case": c,
                "impl": impl,
                "spec": spec,
                "spec_ok": ok,
                "struct_ok": True,
                "engine_ok": True,
                "model_ok": True,
                "engine": {},
                "driver": {"build": None, "engine": None, "fnsOK": None, "wellParen": None, "scope": []},
                "no_model": True,
                "overflow": impl.get("err") == "overflow",
            }
        )
    return res


# ------------------------------------------------------------------------------------------------
# known findings, classification, shrinking
# ------------------------------------------------------------------------------------------------


def load_known() -> t.Dict[str, dict]:
    known = {e["id"]: e for e in vlib.known_findings(ID)}
    extra = os.path.join(os.path.dirname(os.path.abspath(__file__)), "c05.known.json")
    if os.path.exists(extra):
        for e in json.load(open(extra)).get("findings", []):
            if e.get("property") == ID and e.get("status") == "open":
                known.setdefault(e["id"], e)
    return known


def classify(r: dict, known: t.Dict[str, dict]) -> str:
    """ok | known | violation"""
    if r["struct_ok"] and r["engine_ok"] and r["spec_ok"] and r["model_ok"]:
        return "ok"
    if r.get("overflow") and r["struct_ok"]:
        return "ok"  # outside the property's domain (overflow is engine-defined); the structure was still compared
    sc = r["driver"]["scope"]
    if (not r["spec_ok"]) and r["struct_ok"] and r["engine_ok"] and sc and all(h in known for h in sc):
        return "known"
    if r["spec_ok"] and r["struct_ok"] and r["engine_ok"] and r["model_ok"]:
        return "ok"
    return "violation"


def subtrees(e: t.Any) -> t.List[t.Any]:
    out = [e]
    for _, ch in children(e):
        out += subtrees(ch)
    return out


def replace_at(e: t.Any, path: t.List[str], new: t.Any) -> t.Any:
    if not path:
        return new
    c = ctor(e)
    f = dict(e[c])
    f[path[0]] = replace_at(f[path[0]], path[1:], new)
    out = {k: v for k, v in e.items()}
    out[c] = f
    return out


def paths(e: t.Any, pre: t.Optional[t.List[str]] = None) -> t.List[t.Tuple[t.List[str], t.Any]]:
    pre = pre or []
    out = [(pre, e)]
    for k, ch in children(e):
        out += paths(ch, pre + [k])
    return out


def fix_raw(e: t.Any, parent: t.Optional[str] = None, key: t.Optional[str] = None, pf: t.Optional[dict] = None) -> t.Any:
    """after moving sub-trees around: a plain Python value keeps its `_raw` mark only where one can stand"""
    if isinstance(e, str):
        return e
    c = ctor(e)
    if c == "lit":
        if e.get("_raw"):
            try:
                if parent is None:
                    raise ValueError
                site_of(parent, key or "", pf or {})
            except ValueError:
                return {k: v for k, v in e.items() if k != "_raw"}
        return e
    out = dict(e)
    f = dict(e[c])
    for k, ch in children(e):
        f[k] = fix_raw(ch, c, k, e[c])
    out[c] = f
    return out


def shrink_candidates(e: t.Any) -> t.List[t.Any]:
    cands = []
    for path, sub in paths(e):
        if ctor(sub) in ("noElse", "otherwise"):
            continue
        if ctor(sub) == "when" and ctor(fields(sub)["rest"]) == "when":
            cands.append(replace_at(e, path, {"when": dict(fields(sub), rest=fields(fields(sub)["rest"])["rest"])}))
        if path and path[-1] == "rest":
            continue  # the tail of a chain stays a tail
        ty = type_of(sub)
        # a descendant of the same type in its place
        for d in subtrees(sub)[1:]:
            if ctor(d) not in ("noElse", "otherwise") and type_of(d) == ty and not (ctor(d) == "lit" and fields(d)["v"] is None):
                cands.append(replace_at(e, path, d))
        if ctor(sub) not in ("col", "lit"):
            for leaf in [N("col", n=next(c for c, k in COLS.items() if k == ty))]:
                cands.append(replace_at(e, path, leaf))
    seen = set()
    out = []
    for c in map(fix_raw, cands):
        k = json.dumps(c, sort_keys=True, default=repr)
        if k not in seen and size(c) < size(e) and valid(c):
            seen.add(k)
            out.append(c)
    out.sort(key=size)
    return out[:80]


def shrink(case: dict, known: t.Dict[str, dict], rounds: int = 10, no_model: bool = False) -> dict:
    best = prepare({"e": case["e"]})
    for _ in range(rounds):
        cands = [{"e": e} for e in shrink_candidates(best["e"])]
        if not cands:
            break
        try:
            res = evaluate_without_model(cands) if no_model else evaluate(cands)
        except Exception as ex:  # noqa
            log("shrink: evaluation failed:", ex)
            break
        nxt = next((r["case"] for r in res if classify(r, known) == "violation"), None)
        if nxt is None:
            break
        best = nxt
    return best


def replay_dict(r: dict, ctx: Ctx) -> dict:
    c = r["case"]
    return {
        "kind": "Column expression does not evaluate to the tree the user wrote"
        if r["struct_ok"] and r["engine_ok"]
        else "implementation and model disagree (structure of Column.expression or engine grouping)",
        "program": show(c["e"]),
        "case": {"e": enc_tree(c["e"]), "cols": c["cols"]},
        "sql": r["impl"].get("sql"),
        "first_difference": first_diff(r),
        "implementation_error": r["impl"].get("err_text") or r["impl"].get("build_err"),
        "structure_matches_model": r["struct_ok"],
        "implementation_sexp": r["impl"].get("sexp"),
        "model_sexp": r["driver"]["build"],
        "engine_grouping_matches_model": r["engine_ok"],
        "model_engine_tree": r["driver"]["engine"],
        "violated_scope_hypotheses": r["driver"]["scope"],
        "broken": ctx.broken,
    }


# ------------------------------------------------------------------------------------------------
# generated table vs the running code
# ------------------------------------------------------------------------------------------------


def check_table_live(ctx: Ctx) -> int:
    """every entry of Gen.ColumnOps against the live method applied to two distinct columns"""
    import gen_c05
    from sqlglot import expressions as exp
    from sqlframe.duckdb import functions as F

    session()
    d = gen_c05.extract(vlib.REPO)
    _STATE["endswithViaSession"] = d["methods"]["endswith"]["viaSession"]
    bad = []
    n = 0
    for m, r in d["ops"].items():
        a, b = F.col("a"), F.col("b")
        try:
            fn = getattr(type(a), m)
            out = fn(a) if r["helper"] == "unaryOp" else fn(a, b)
        except Exception as ex:  # noqa
            bad.append(f"{m}: raised {type(ex).__name__}")
            continue
        n += 1
        node = out.expression
        paren = isinstance(node, exp.Paren)
        if paren:
            node = node.this
        if paren != r["paren"]:
            bad.append(f"{m}: paren={paren} but the translator extracted {r['paren']}")
        if type(node).__name__ != r["klass"]:
            bad.append(f"{m}: class {type(node).__name__} but the translator extracted {r['klass']}")
        if r["helper"] == "unaryOp":
            inner = node.this
            if isinstance(inner, exp.Paren) != d["unaryWrapsParen"]:
                bad.append(f"{m}: operand Paren={isinstance(inner, exp.Paren)} but unaryWrapsParen={d['unaryWrapsParen']}")
        else:
            self_first = {"binaryOp": d["helpers"]["binary_op"]["thisIsSelf"], "inverseBinaryOp": d["helpers"]["inverse_binary_op"]["thisIsSelf"], "direct": r.get("selfFirst")}[r["helper"]]
            left = node.this.name if isinstance(node.this, exp.Column) else None
            if (left == "a") != bool(self_first):
                bad.append(f"{m}: left operand is {left!r} but the translator extracted selfFirst={self_first}")
    # _operand / subjectWrap flags: a compound subject is parenthesised iff the translator says so
    pred = F.col("a") == F.col("b")
    for m, call in {
        "isNull": lambda c: c.isNull().expression.this,
        "isNotNull": lambda c: c.isNotNull().expression.this.this,
        "isin": lambda c: c.isin(True).expression.this,
        "between": lambda c: c.between(False, True).expression.this,
        "like": lambda c: c.like("a").expression.this,
    }.items():
        n += 1
        got = isinstance(call(pred), exp.Paren)
        if got != bool(d["methods"][m]["subjectWrap"]):
            bad.append(f"{m}: compound subject parenthesised={got} but the translator extracted subjectWrap={d['methods'][m]['subjectWrap']}")
    got = isinstance((pred == F.col("c")).expression.this, exp.Paren)
    n += 1
    if got != d["helpers"]["binary_op"]["wrap"]:
        bad.append(f"binary_op: compound operand parenthesised={got} but the translator extracted wrap={d['helpers']['binary_op']['wrap']}")
    got = isinstance(F.col("a").between(F.col("b").alias("n"), 1).expression.args["low"], exp.Alias)
    n += 1
    if got == d["methods"]["between"]["boundsUnalias"]:
        bad.append(f"between: bound keeps its alias={got} but the translator extracted boundsUnalias={d['methods']['between']['boundsUnalias']}")
    for b in bad:
        ctx.broken.append("Gen.ColumnOps disagrees with the running code: " + b)
    return n


def check_lit_live(ctx: Ctx) -> int:
    """every branch of the regenerated literal chains (Gen.ColumnLit) against the running code, on a value that takes it"""
    import datetime

    import gen_c05
    from sqlglot import expressions as exp
    from sqlframe.base.column import Column
    from sqlframe.base.types import Row
    from sqlframe.duckdb import functions as F

    session()
    d = gen_c05.extract_lit(vlib.REPO)
    samples = {
        "isRow": Row(a=1),
        "isListOrSet": [1, 2],
        "isTuple": (1, 2),
        "isDict": {"a": 1},
        "isFloatNan": float("nan"),
        "isFloatInf": float("-inf"),
        "isDatetime": datetime.datetime(2020, 1, 2, 3, 4, 5),
        "isStr": "a'b",
    }
    bad: t.List[str] = []
    n = 0

    def agrees(action: t.Tuple[str, ...], value: t.Any, node: t.Any) -> t.Optional[str]:
        kind = action[0]
        klass = {"structOfRow": exp.Struct, "arrayOf": exp.Array, "tupleOf": exp.Tuple, "varMapOf": exp.VarMap, "datetimeCast": exp.Cast}.get(kind)
        if klass is not None:
            return None if type(node) is klass else f"built {type(node).__name__}, the chain says {kind}"
        if kind == "castStrConst":
            ok = type(node) is exp.Cast and isinstance(node.this, exp.Literal) and node.this.is_string and node.this.this == action[1] and node.args["to"].sql().lower() == action[2]
            return None if ok else f"built {node.sql()!r}, the chain says CAST({action[1]!r} AS {action[2]})"
        if kind == "castStrBySign":
            want = action[1] if value > 0 else action[2]
            ok = type(node) is exp.Cast and isinstance(node.this, exp.Literal) and node.this.is_string and node.this.this == want and node.args["to"].sql().lower() == action[3]
            return None if ok else f"built {node.sql()!r}, the chain says CAST({want!r} AS {action[3]})"
        if kind == "convert":
            return None if node == exp.convert(value) else f"built {node.sql()!r}, exp.convert gives {exp.convert(value).sql()!r}"
        if kind in ("stringOfValue", "stringOfStr"):
            ok = isinstance(node, exp.Literal) and node.is_string and node.this == str(value)
            return None if ok else f"built {node.sql()!r}, the chain says the string literal {str(value)!r}"
        if kind == "columnInit":
            return None if node == Column(value).expression.unalias() else f"built {node.sql()!r}, Column(value) gives {Column(value).expression.sql()!r}"
        return f"unknown action {kind}"

    def walk(chain: t.List[t.Tuple[str, t.Tuple[str, ...]]], fall: t.Tuple[str, ...], fn: t.Callable[[t.Any], t.Any], what: str) -> None:
        nonlocal n
        seen: t.Set[str] = set()
        for guard, action in chain:
            if guard in seen:
                continue
            seen.add(guard)
            for v in [samples[guard]] + ([float("inf")] if guard == "isFloatInf" else []):
                n += 1
                try:
                    msg = agrees(action, v, fn(v))
                except Exception as ex:  # noqa
                    msg = f"raised {type(ex).__name__}: {str(ex)[:120]}"
                if msg:
                    bad.append(f"{what}({guard} value {v!r}): {msg}")
        for v in (None, True, 7, -3, 1.5, 2.5e-07, "a'b"):
            taken = next((a for g, a in chain if (g == "isStr" and isinstance(v, str)) or (g == "isFloatNan" and isinstance(v, float) and math.isnan(v))), fall)
            n += 1
            try:
                msg = agrees(taken, v, fn(v))
            except Exception as ex:  # noqa
                msg = f"raised {type(ex).__name__}: {str(ex)[:120]}"
            if msg:
                bad.append(f"{what}({v!r}): {msg}")

    walk(d["litChain"], d["litFallthrough"], lambda v: Column._lit(v).expression, "Column._lit")
    walk(d["litFnChain"], d["litFnFallthrough"], lambda v: F.lit(v).expression.unalias(), "functions.lit")
    # Column.__init__: a Column is taken as it is, a non-str value goes through _lit, a str is parsed as SQL text
    c = F.col("a")
    n += 3
    if Column(c).expression is not c.expression:
        bad.append("Column(Column): the expression is not taken as it is")
    if Column(1.5).expression != Column._lit(1.5).expression:
        bad.append("Column(1.5) differs from Column._lit(1.5)")
    if isinstance(Column("a + 1").expression, exp.Literal):
        bad.append("Column('a + 1') is a literal, the constructor's dispatch says it is parsed")
    # the decorator: an alias exactly on results that are functions
    n += 2
    if isinstance(F.lit(float("nan")).expression, exp.Alias) != (d["litFnHasMeta"] and d["metaAliasesFunc"]):
        bad.append("lit(nan): automatic alias present != the translator's litFnHasMeta && metaAliasesFunc")
    if isinstance(F.lit(1.5).expression, exp.Alias):
        bad.append("lit(1.5) carries an alias")
    for b in bad:
        ctx.broken.append("Gen.ColumnLit disagrees with the running code: " + b)
    return n


# ------------------------------------------------------------------------------------------------
# the check
# ------------------------------------------------------------------------------------------------


def corpus_cases() -> t.List[dict]:
    out = []
    d = os.path.join(vlib.VERIF, "corpus", ID)
    if os.path.isdir(d):
        for fn in sorted(os.listdir(d)):
            if fn.endswith(".json"):
                c = json.load(open(os.path.join(d, fn)))
                out.append({"e": dec_tree(c["e"]), "origin": "corpus:" + fn})
    return out


def cases_for(ctx: Ctx) -> t.List[dict]:
    cases = corpus_cases() + [c for c in base_cases() if valid(c["e"])] + literal_cases(ctx.rng, ctx.thorough)
    n = 6000 if ctx.thorough else 450
    for _ in range(n):
        c = gen_case(ctx.rng)
        c["origin"] = "random"
        cases.append(c)
    return cases


def run(ctx: Ctx) -> None:
    idx = vlib.props_index()[ID]
    vlib.prove(ctx, MODULES, GEN, idx["theorems"], SOURCES)
    known = load_known()

    try:
        n_table = check_table_live(ctx)
    except Exception as ex:  # noqa  (Untranslatable: already recorded by prove as a broken obligation)
        n_table = 0
        if not any("untranslatable" in b for b in ctx.broken):
            ctx.broken.append(f"Gen.ColumnOps cannot be compared with the running code: {type(ex).__name__}: {str(ex)[:200]}")
    try:
        n_table += check_lit_live(ctx)
    except Exception as ex:  # noqa
        if not any("untranslatable" in b for b in ctx.broken):
            ctx.broken.append(f"Gen.ColumnLit cannot be compared with the running code: {type(ex).__name__}: {str(ex)[:200]}")
    cases = cases_for(ctx)
    no_model = False
    try:
        res = evaluate(cases)
    except RuntimeError as ex:
        # the model no longer builds (e.g. the source left the translator's sub-language): the proof obligation is
        # broken and there is no model to compare with; search for a failing input against the Python mirror of `denote`
        ctx.broken.append(f"Lean driver unavailable: {str(ex)[:300]}")
        no_model = True
        res = evaluate_without_model(cases)

    hist: t.Dict[str, int] = {}
    depth_hist: t.Dict[int, int] = {}
    nontrivial = set()
    counts = {"ok": 0, "known": 0, "violation": 0}
    n_struct = n_engine = n_spec = n_out_scope = n_syntax = n_notwp = 0
    viol: t.List[dict] = []
    known_hits: t.Dict[str, int] = {}
    for r in res:
        c = r["case"]
        kinds_of(c["e"], hist)
        dp = depth(c["e"])
        depth_hist[dp] = depth_hist.get(dp, 0) + 1
        n_struct += r["struct_ok"]
        n_engine += r["engine_ok"]
        n_spec += r["spec_ok"]
        n_out_scope += bool(r["driver"]["scope"])
        n_notwp += not r["driver"]["wellParen"]
        n_syntax += r["driver"]["engine"] is None
        if "rows" in r["impl"] and len(set(json.dumps(v, sort_keys=True) for v in r["impl"]["rows"].values())) > 1 and size(c["e"]) > 2:
            nontrivial.add(vlib.digest(strip(c["e"])))
        k = classify(r, known)
        counts[k] += 1
        if k == "known":
            for h in r["driver"]["scope"]:
                known_hits[h] = known_hits.get(h, 0) + 1
        elif k == "violation":
            viol.append(r)

    for h in known_hits:
        vlib.report_known(ctx, known[h], known[h]["summary"])

    # known findings: replay the recorded witnesses on the real code
    for h, e in known.items():
        w = e.get("witness")
        if w and res and not no_model:
            try:
                r = evaluate([{"e": dec_tree(w["e"])}])[0]
            except Exception as ex:  # noqa
                log(f"witness of {h} cannot be evaluated: {ex}")
                continue
            if not r["spec_ok"] and classify(r, known) == "known":
                vlib.report_known(ctx, e, e["summary"])
            elif not r["spec_ok"]:
                viol.append(r)

    n_mirror = sum(1 for r in res if not r.get("mirror_ok", True))
    if n_mirror:
        ctx.broken.append(f"the Python mirror of `denote` (fallback specification) disagrees with the Lean specification on {n_mirror} cases")
    n_model_mismatch = sum(1 for r in res if not (r["struct_ok"] and (r.get("overflow") or (r["engine_ok"] and r["model_ok"]))))
    if n_model_mismatch:
        ctx.broken.append(f"correspondence (implementation vs Impl/C05Column.lean + C05Engine.lean): {n_model_mismatch} of {len(res)} cases differ")

    reported = 0
    seen_progs = set()
    for r in viol:
        if reported >= 3:
            break
        small = shrink(r["case"], known, no_model=no_model)
        try:
            rr = (evaluate_without_model([small]) if no_model else evaluate([small]))[0]
        except Exception:  # noqa
            rr = r
        if classify(rr, known) != "violation":
            rr = r
        prog = show(rr["case"]["e"])
        if prog in seen_progs:
            continue
        seen_progs.add(prog)
        vlib.report_violation(ctx, replay_dict(rr, ctx))
        reported += 1
    if ctx.broken and not reported:
        vlib.report_violation(
            ctx,
            {"kind": "proof obligation or correspondence no longer checks; no failing input found", "broken": ctx.broken, "searched": {"cases": len(res), "node_kinds": hist}},
            no_input=True,
        )

    step = max(1, len(res) // 4)
    ctx.cov.update(
        {
            "evaluations": len(res),
            "row_evaluations": sum(len(r["spec"]) for r in res),
            "distinct_nontrivial": len(nontrivial),
            "rule": "corpus (defect witnesses), then every operator/method of the alphabet in each operand form, then the literal family "
            "(every kind of plain Python value — floats in every spelling of repr incl. random digits/exponents, small and large ints, strings "
            "with quotes/backslashes/non-ASCII, bools, None — at every entry point: lit(), right operand, reflected left operand, eqNullSafe, "
            "isin values, between bounds, when/otherwise values, startswith), then seeded random typed trees of depth ≤ 4 over 2–4 of the columns "
            "x,y:int s,u:str p,q:bool d,f:double; every tree is evaluated on the full cartesian product of the value pools "
            "{NULL,0,-1,2}/{NULL,'','a'}/{NULL,TRUE,FALSE}/{NULL,0.0,-2.0,4.0,0.5} of its columns; trees with a DOUBLE are kept only when their "
            "result is independent of IEEE rounding (`stable`); non-trivial = distinct trees with more than two nodes whose implementation result "
            "is not constant over the rows",
            "double_tolerance": f"relative {REL_TOL} between an implementation DOUBLE and the specification's exact decimal (no absolute slack)",
            "cases_with_double": sum(1 for r in res if has_dbl(r["case"]["e"])),
            "literal_family_cases": sum(1 for r in res if r["case"].get("origin") == "literal"),
            "overflow_cases_not_judged": sum(1 for r in res if r.get("overflow")),
            "traces_validated_against_impl": sum(1 for r in res if r["struct_ok"] and r["engine_ok"] and r["model_ok"]),
            "structure_agree": n_struct,
            "engine_grouping_agree": n_engine,
            "impl_vs_spec_agree": n_spec,
            "out_of_scope_cases": n_out_scope,
            "not_well_parenthesised": n_notwp,
            "model_predicts_syntax_error": n_syntax,
            "classification": counts,
            "known_finding_hits": known_hits,
            "gen_table_entries_checked_live": n_table,
            "specification_source": "python mirror (Lean model unavailable)" if no_model else "Lean driver (denote); python mirror cross-checked on every case",
            "node_kind_histogram": dict(sorted(hist.items())),
            "depth_histogram": {str(k): v for k, v in sorted(depth_hist.items())},
            "samples": [{"program": show(r["case"]["e"]), "sql": r["impl"].get("sql"), "scope": r["driver"]["scope"], "agrees_with_spec": r["spec_ok"]} for r in res[::step][:4]],
        }
    )
    ctx.assumptions += [
        "sqlglot's DuckDB generator renders the tree verbatim: it adds and drops no parentheses (validated per case: DuckDB on sqlframe's text equals DuckDB on the fully parenthesised model tree)",
        "DuckDB's grammar groups operators by the level table of Impl/C05Engine.lean (OR<AND<NOT<IS<comparison<BETWEEN/IN/LIKE<+-<*/%<unary minus; comparison, IS, BETWEEN/IN/LIKE levels non-associative), validated per case by the same comparison",
        "scalar operator meanings of Impl/C05Column.lean (3VL, comparisons, %, LIKE without escape, metacharacter-free REGEXP_MATCHES, SUBSTRING with start ≥ 1, CAST to TEXT/BIGINT) are DuckDB's and Spark's on the value pool (validated against DuckDB per row; division, pow, getItem/getField, cast string→int are outside the modelled alphabet)",
        "Python evaluates `v < col` as `col > v` (reflected comparison), `v + col` as `col.__radd__(v)`",
        "Python's repr(float) (shortest round-trip digits; exponent form iff the decimal point position is ≤ -4 or > 16) and str(int) are as written in Impl/C05Lit.lean (validated: the model's text of every number literal equals the text of the real node); DuckDB's lexer reads such a text as the decimal it spells (validated per value by the literal family)",
        f"DOUBLE arithmetic is exact decimal arithmetic in the model and the specification; the engine's IEEE results are compared within relative {REL_TOL}, on trees whose result is the same under exact, IEEE, and IEEE±1ulp evaluation (rounding is outside the property); NaN/±inf order as in Spark and DuckDB (NaN = NaN, NaN greatest)",
    ]


def replay(ctx: Ctx, rp: dict) -> None:
    c = rp.get("case")
    if not c:
        print("replay names a broken obligation, not an input:", rp.get("broken"))
        return
    known = load_known()
    # the model must be the one of the tree being replayed on: regenerate Gen and rebuild the driver's modules
    with vlib.lean_lock():
        vlib.translate()
        ok, out = vlib.lake_build(["SqlframeModel.Codec.C05"])
    if not ok:
        log(out[-1500:])
    try:
        c = dict(c, e=dec_tree(c["e"]))
        check_table_live(ctx)
        r = evaluate([{"e": c["e"]}])[0]
    except Exception as ex:  # noqa  (no model for this tree: fall back to the Python mirror of the specification)
        log(f"model unavailable ({type(ex).__name__}: {str(ex)[:200]}); replaying against the Python mirror of `denote`")
        rs = evaluate_without_model([{"e": dec_tree(c["e"])}])
        if not rs:
            print("the input is outside the pattern scope; it cannot be judged without the model")
            return
        r = rs[0]
    print(
        json.dumps(
            {
                "program": show(c["e"]),
                "sql": r["impl"].get("sql"),
                "implementation": r["impl"].get("rows") if "rows" in r["impl"] else r["impl"].get("err_text") or r["impl"].get("build_err"),
                "first_difference": first_diff(r),
                "structure_matches_model": r["struct_ok"],
                "engine_grouping_matches_model": r["engine_ok"],
                "agrees_with_specification": r["spec_ok"],
                "violated_scope_hypotheses": r["driver"]["scope"],
                "classification": classify(r, known),
            },
            indent=1,
            default=str,
        )
    )
    if classify(r, known) == "violation":
        vlib.report_violation(ctx, replay_dict(r, ctx))
