"""
C20 — activate() redirects every pyspark.sql import and is fully reversible.

proof      : lean/SqlframeModel/Props/C20.lean over the regenerated Gen/Activate.lean and Gen/ActSession.lean
tie        : (a) Gen.Activate / Gen.ActSession regenerated from /repo's sqlframe/__init__.py, every engine package and the
             session modules on each run and exercised against the live objects; (b) correspondence: event sequences run
             on the REAL code, each in an interpreter in which sqlframe and pyspark have never been imported
             (tools/props/c20_child.py: forked from a zygote that holds third-party libraries only; a sample is re-run in
             brand-new interpreters), in two environments (real pyspark hidden by a meta-path blocker / as installed) vs
             the Lean model's trace (Driver/C20.lean).  Observed after every event: the outcome, the tracked sys.modules
             entries, ACTIVATE_CONFIG, the engines' `functions` attributes and the content of every settings dict the
             harness (the caller) has passed in — one dict object per settings value, reused by every activation of the case
search     : the same runs are judged against the Lean *specification* machine (what each event must yield); targeted
             families: pairs of argument shapes across a deactivation / two context blocks, and session creations that
             fail (unusable connection, unknown dialect) followed by further activations and sessions
"""
from __future__ import annotations

import itertools
import json
import os
import random
import subprocess
import sys
import typing as t
from concurrent.futures import ThreadPoolExecutor

import vlib
from vlib import Ctx, log

ID = "C20"
LEVEL = "proof"
MODULES = ["SqlframeModel.Codec.C20", "SqlframeModel.Props.C20"]
GEN = ["Activate", "ActSession"]
SOURCES = [
    "SqlframeModel/Props/C20.lean",
    "SqlframeModel/Lemmas/C20.lean",
    "SqlframeModel/Lemmas/C20Side.lean",
    "SqlframeModel/Impl/C20Activate.lean",
    "SqlframeModel/Impl/C20Spec.lean",
]
HERE = os.path.dirname(os.path.abspath(__file__))
CHILD = os.path.join(HERE, "c20_child.py")
PY = "/venv/bin/python"
STUBS = ["databricks.sql", "databricks.sql.client", "databricks.sql.exc"]
ENGINE_FILES = ["catalog", "column", "dataframe", "functions", "group", "readwriter", "session", "table", "types", "udf", "window"]
TRACKED = ["pyspark", "pyspark.testing", "pyspark.sql"] + ["pyspark.sql." + f for f in ENGINE_FILES]

# ------------------------------------------------------------------------------------------------
# events (JSON exactly as the Lean codec reads it)
# ------------------------------------------------------------------------------------------------


def A(e=None, conn=None, dialect=None):
    return {"activate": {"eng": e, "conn": conn, "dialect": dialect}}


def CE(e=None, conn=None, dialect=None):
    return {"ctxEnter": {"eng": e, "conn": conn, "dialect": dialect}}


def CX(k):
    return {"ctxExit": {"k": k}}


def FI(path, name):
    return {"userImport": {"f": {"fromImport": {"path": path.split("."), "name": name}}}}


def IA(path):
    return {"userImport": {"f": {"importAs": {"path": path.split(".")}}}}


def IM(path):
    return {"userImport": {"f": {"importModule": {"path": path.split(".")}}}}


D = "deactivate"
S = "sessionCreate"


def show_event(ev: t.Any) -> str:
    if ev == D:
        return "deactivate()"
    if ev == S:
        return "SparkSession.builder.getOrCreate()"
    if "activate" in ev or "ctxEnter" in ev:
        k = "activate" if "activate" in ev else "ctxEnter"
        a = ev[k]
        args = [repr(a["eng"])] if a["eng"] is not None else []
        if a["conn"] is not None:
            args.append(f"conn=c{a['conn']}" + (f"<{CONN_KINDS[a['conn']]}>" if a["conn"] in CONN_KINDS else ""))
        if a["dialect"] is not None:
            args.append("config=cfg_%s" % a["dialect"])
        return ("activate(" if k == "activate" else "with activate_context(") + ", ".join(args) + (")" if k == "activate" else "): # enter")
    if "ctxExit" in ev:
        return {"normal": "# leave the block normally", "exn": "raise RuntimeError  # inside the block", "base": "raise KeyboardInterrupt-like BaseException  # inside the block"}[ev["ctxExit"]["k"]]
    f = ev["userImport"]["f"]
    if "fromImport" in f:
        return f"from {'.'.join(f['fromImport']['path'])} import {f['fromImport']['name']}"
    if "importAs" in f:
        return f"import {'.'.join(f['importAs']['path'])} as X"
    return f"importlib.import_module('{'.'.join(f['importModule']['path'])}')"


def show_case(c: dict) -> str:
    ds = []
    for e in c["events"]:
        a = (e.get("activate") or e.get("ctxEnter")) if isinstance(e, dict) else None
        if a and a["dialect"] is not None and a["dialect"] not in ds:
            ds.append(a["dialect"])
    pre = "".join("cfg_%s = {'sqlframe.input.dialect': %r}; " % (d, d) for d in ds)
    return f"[{c['env']}] " + pre + "; ".join(show_event(e) for e in c["events"])


BATTERY = [
    FI("pyspark.sql", "SparkSession"),
    FI("pyspark.sql.session", "SparkSession"),
    FI("pyspark.sql.dataframe", "DataFrame"),
    IA("pyspark.sql.types"),
    FI("pyspark.testing", "assertDataFrameEqual"),
    IM("pyspark.sql.functions"),
    FI("pyspark.sql", "functions"),
    IA("pyspark.sql.functions"),
]

CORE = [A("duckdb"), A("standalone"), D, CE("duckdb"), CX("normal"), CX("exn"), CX("base"), IA("pyspark.sql.functions"), S]
WIDE = CORE + [
    A("duckdb", conn=1),
    A("duckdb", conn=2),
    A("duckdb", dialect="duckdb"),
    A("duckdb", dialect="nope"),
    A("postgres"),
    A("DuckDB"),
    A("nosuchengine"),
    A(None),
    CE("standalone"),
    CE("duckdb", conn=2),
    CE("duckdb", dialect="nope"),
    CE(None),
    FI("pyspark.sql", "functions"),
    IM("pyspark.sql.functions"),
    FI("pyspark.sql", "SparkSession"),
    FI("pyspark.sql.session", "SparkSession"),
    FI("pyspark.sql", "types"),
    IA("pyspark.sql"),
    IA("pyspark.sql.window"),
    FI("pyspark.sql.readwriter", "DataFrameWriter"),
    FI("pyspark", "testing"),
    IA("pyspark.testing"),
    IM("pyspark.sql.table"),
    A("duckdb", conn=1, dialect="duckdb"),
    A("duckdb", conn=2, dialect="bigquery"),
    A("standalone", conn=1, dialect="duckdb"),
    CE("duckdb", conn=1, dialect="duckdb"),
    CE("standalone", dialect="duckdb"),
]

# argument shapes of an activation: (conn, dialect)
SHAPES = [(None, None), (1, None), (2, None), (None, "duckdb"), (1, "duckdb"), (2, "bigquery")]


def wide_alphabet() -> t.List[t.Any]:
    """WIDE + activations on the connections on which session creation fails here"""
    extra = []
    for n in _BAD[:2]:
        extra += [A("duckdb", conn=n), CE("duckdb", conn=n)]
    return WIDE + extra


def shape_pair_cases(ctx: Ctx) -> t.List[dict]:
    """two activations with every pair of argument shapes (none / a connection / a settings dict / both; the settings
    dict of equal settings is ONE object, as in an application that keeps its settings in a module-level dict),
    separated by deactivate(), by nothing, or as two activate_context blocks (left normally / by an exception), and a
    session created at the end: what the first activation was given must not reach the second"""
    out = []
    rng = ctx.rng
    pairs = [(a, b) for a in SHAPES for b in SHAPES]
    for a, b in pairs:
        out.append({"env": "hidden", "events": [A("duckdb", *a), D, A("duckdb", *b), S], "origin": "shape-pairs"})
    extra = pairs if ctx.thorough else rng.sample(pairs, 12)
    for a, b in extra:
        k = rng.choice(["normal", "exn", "base"])
        e2 = rng.choice(["duckdb", "standalone"])
        out.append({"env": "hidden", "events": [CE("duckdb", *a), CX(k), CE(e2, *b), S, CX("normal")], "origin": "shape-pairs"})
    extra = pairs if ctx.thorough else rng.sample(pairs, 8)
    for a, b in extra:
        out.append({"env": rng.choice(["hidden", "real"]), "events": [A("duckdb", *a), A("standalone", *b), D, A("duckdb", *a), S], "origin": "shape-pairs"})
    return out


def fault_cases(ctx: Ctx) -> t.List[dict]:
    """session creation fails (a connection that cannot be used / a dialect that does not exist), inside a plain activation
    or inside an activate_context block that is then left by that exception; the process goes on: a second (and
    third) activation with other arguments creates a session"""
    out = []
    rng = ctx.rng
    faults: t.List[t.Tuple[t.Optional[int], t.Optional[str]]] = [(n, None) for n in _BAD] + [(None, "nope")] + [(n, "duckdb") for n in _BAD[:1]]
    seconds = [("duckdb", 1, None), ("duckdb", 2, "duckdb"), ("duckdb", None, None), ("standalone", None, None), ("duckdb", None, "duckdb")]
    seconds += [("duckdb", n, None) for n in _BAD[:1]]
    for fc, fd in faults:
        for form in ("plain", "ctx"):
            for e2, c2, d2 in seconds:
                if not ctx.thorough and rng.random() < 0.35:
                    continue
                if form == "plain":
                    evs = [A("duckdb", fc, fd), S, D, A(e2, c2, d2), S]
                else:
                    evs = [CE("duckdb", fc, fd), S, CX("exn"), CE(e2, c2, d2), S, CX("normal")]
                if rng.random() < 0.5:
                    evs += [D, A("duckdb", 2 if c2 != 2 else 1, d2), S]
                out.append({"env": "hidden" if rng.random() < 0.8 else "real", "events": evs, "origin": "session-faults"})
    return out



SESSION_ENGINES = ("duckdb", "standalone")


def well_formed(evs: t.List[t.Any]) -> bool:
    """a ctxExit needs an open block; a bare activate() is only generated while nothing is active; session
    creation is only generated when every activated engine has a modelled session (duckdb, standalone)"""
    depth = 0
    active = False
    has_session = any(ev == S for ev in evs)
    for ev in evs:
        if isinstance(ev, dict) and ("ctxEnter" in ev or "activate" in ev):
            a = ev.get("ctxEnter") or ev.get("activate")
            if a["eng"] is None and active:
                return False
            if has_session and a["eng"] is not None and a["eng"].lower() not in SESSION_ENGINES + ("nosuchengine",):
                return False
            if "ctxEnter" in ev:
                depth += 1
            active = True
        elif isinstance(ev, dict) and "ctxExit" in ev:
            if depth == 0:
                return False
            depth -= 1
        elif ev == D:
            active = False
    return True


# ------------------------------------------------------------------------------------------------
# running the real implementation (fresh interpreter per case)
# ------------------------------------------------------------------------------------------------


def _child_env() -> dict:
    env = dict(os.environ)
    env.pop("PYTHONPATH", None)
    env["PYTHONDONTWRITEBYTECODE"] = "1"
    return env


def run_child(job: dict, timeout: int = 120) -> dict:
    """one job in a brand-new interpreter (one process per job)"""
    try:
        p = subprocess.run([PY, CHILD], input=json.dumps(job), capture_output=True, text=True, timeout=timeout, env=_child_env(), cwd="/tmp")
    except subprocess.TimeoutExpired:
        return {"error": f"no result after {timeout}s"}
    lines = [l for l in p.stdout.split("\n") if l.startswith("{")]
    if p.returncode != 0 or not lines:
        return {"error": (p.stderr or p.stdout)[-600:]}
    return json.loads(lines[-1])


class Zygotes:
    """a few `c20_child.py --serve` processes: each has the third-party libraries loaded (never sqlframe / pyspark) and
    forks one child per job.  The bytecode of the tree under test is cached in a directory private to this run."""

    def __init__(self, n: int, preload: t.List[str]):
        import queue
        import tempfile

        self.pyc = tempfile.mkdtemp(prefix="c20pyc_")
        env = _child_env()
        env.pop("PYTHONDONTWRITEBYTECODE", None)
        env["PYTHONPYCACHEPREFIX"] = self.pyc
        self.free: "queue.Queue[subprocess.Popen]" = queue.Queue()
        self.procs = []
        self.info: t.List[dict] = []
        self.fallbacks = 0
        for _ in range(n):
            p = subprocess.Popen([PY, CHILD, "--serve"], stdin=subprocess.PIPE, stdout=subprocess.PIPE, stderr=subprocess.DEVNULL, text=True, env=env, cwd="/tmp", bufsize=1)
            self.procs.append(p)
        for p in self.procs:
            p.stdin.write(json.dumps({"preload": preload}) + "\n")
            p.stdin.flush()
        for p in self.procs:
            line = p.stdout.readline()
            try:
                r = json.loads(line)["res"]
            except Exception:
                r = {"polluted": ["?"]}
            self.info.append(r)
            if r.get("polluted") or r.get("threads", 1) != 1:
                # a preloaded library dragged sqlframe / pyspark in, or started a thread: do not fork from this one
                p.kill()
            else:
                self.free.put(p)

    def usable(self) -> bool:
        return not self.free.empty()

    def run(self, job: dict) -> dict:
        p = self.free.get()
        try:
            p.stdin.write(json.dumps(job) + "\n")
            p.stdin.flush()
            line = p.stdout.readline()
            if not line:
                raise RuntimeError("zygote died")
            res = json.loads(line)["res"]
            self.free.put(p)
            return res
        except Exception:
            # replace nothing: fall back to a one-shot interpreter for this job; the zygote is dropped
            try:
                p.kill()
            except Exception:
                pass
            self.fallbacks += 1
            if self.free.empty() and not any(q.poll() is None for q in self.procs):
                _POOL.clear()
            return run_child(job)

    def close(self) -> None:
        import shutil

        for p in self.procs:
            try:
                p.stdin.close()
            except Exception:
                pass
        for p in self.procs:
            try:
                p.wait(timeout=5)
            except Exception:
                p.kill()
        shutil.rmtree(self.pyc, ignore_errors=True)


_POOL: t.List[Zygotes] = []
_POOL_NOTES: t.Dict[str, t.Any] = {}


def n_workers() -> int:
    return max(2, min(int(os.environ.get("VERIF_WORKERS", "12")), (os.cpu_count() or 2)))


def start_pool() -> None:
    """warm-up: one representative case in a brand-new interpreter reports which third-party modules sqlframe and the
    real pyspark load; the zygotes import exactly those"""
    import atexit

    if _POOL or os.environ.get("C20_NO_ZYGOTE"):
        return
    warm = run_child({"repo": vlib.REPO, "hide": False, "stubs": STUBS, "tracked": TRACKED, "warm": True, "events": [A("duckdb", conn=1), S, FI("pyspark.testing", "assertDataFrameEqual"), D, IA("pyspark.sql.functions"), FI("pyspark.sql", "SparkSession")]})
    names = [k for k in warm.get("third_party", []) if not k.startswith("__")]
    if not names:
        _POOL_NOTES["zygote"] = "warm-up case gave no module list: one interpreter per case"
        return
    z = Zygotes(n_workers(), names)
    _POOL_NOTES["zygote"] = {"processes": len(z.procs), "usable": z.free.qsize(), "preloaded_modules": len(names), "info": z.info[:1]}
    if z.usable():
        _POOL.append(z)
        atexit.register(z.close)
    else:
        z.close()


def run_job(job: dict) -> dict:
    if _POOL:
        return _POOL[0].run(job)
    return run_child(job)


def pool_map(fn, items, workers: int = 0):
    if workers == 0:
        workers = n_workers()
        if _POOL:
            workers = max(1, _POOL[0].free.qsize())
    with ThreadPoolExecutor(max_workers=workers) as ex:
        return list(ex.map(fn, items))


# connection labels: 1, 2 ordinary connections; the others are connections on which every use fails (the fault
# "exception raised by session creation")
CONN_KINDS = {3: "closed", 4: "udfclash", 5: "dead"}
_BAD: t.List[int] = []  # the labels on which a first session creation really raises on this tree (probed in setup)


def impl_job(c: dict) -> dict:
    return {"repo": vlib.REPO, "hide": c["env"] == "hidden", "stubs": STUBS, "tracked": TRACKED, "events": c["events"], "conn_kinds": {str(k): v for k, v in CONN_KINDS.items()}}


def probe_env() -> dict:
    """what a real `import <tracked module>` does in this sandbox (fresh interpreter each).  A failing import can
    leave modules behind whose re-import fails too (deactivate() would hit them): those keys become tracked."""
    res = pool_map(lambda k: run_job({"probe": k, "tracked": TRACKED, "find_poison": True}), list(TRACKED))
    extra = []
    for k, r in zip(list(TRACKED), res):
        if "probe" not in r:
            raise RuntimeError(f"probe of {k} failed: {r}")
        for pk, _ in r["probe"].get("poison", []):
            if pk not in TRACKED and pk not in extra:
                extra.append(pk)
    if extra:
        TRACKED.extend(extra)
        res = pool_map(lambda k: run_job({"probe": k, "tracked": TRACKED}), list(TRACKED))
    real = []
    for k, r in zip(list(TRACKED), res):
        if "probe" not in r:
            raise RuntimeError(f"probe of {k} failed: {r}")
        pr = r["probe"]
        if pr["raises"] == "moduleNotFound" and not pr["closure"]:
            continue  # not a real module at all
        real.append({"name": k, "raises": pr["raises"], "closure": pr["closure"]})
    return {"real": real, "brokenPkgs": []}


def probe_bad_conns() -> t.List[int]:
    """on which of the fault connections does the very first session creation of a process raise?  (what makes a
    connection unusable is the engine's business; the property speaks about what is left behind afterwards)"""
    labels = sorted(CONN_KINDS)
    res = pool_map(lambda n: run_job(impl_job({"env": "hidden", "events": [A("duckdb", conn=n), S]})), labels)
    bad = []
    for n, r in zip(labels, res):
        tr = r.get("trace") or []
        if len(tr) == 2 and isinstance(tr[1]["outcome"], dict) and "raised" in tr[1]["outcome"]:
            bad.append(n)
    return bad


def broken_pkgs(engines: t.List[str]) -> t.List[str]:
    """engine packages that cannot be imported here even with the driver stubs (`import sqlframe.<e>` raises)"""

    def one(e):
        r = run_job({"repo": vlib.REPO, "hide": True, "stubs": STUBS, "import_pkg": e})
        return r.get("import_pkg", "error") is not None

    return [e for e, bad in zip(engines, pool_map(one, engines)) if bad]


# ------------------------------------------------------------------------------------------------
# canonical forms and comparison
# ------------------------------------------------------------------------------------------------


def canon_obj(o: t.Any) -> t.Any:
    if isinstance(o, dict) and ("real" in o or "realAttr" in o):
        return "REAL"
    return o


def canon_outcome(o: t.Any) -> t.Any:
    if isinstance(o, dict) and "obj" in o:
        return {"obj": canon_obj(o["obj"]["o"])}
    if isinstance(o, dict) and "raised" in o:
        # an Exception subclass without a name of its own in the model (engine errors) is compared as `exception`
        x = o["raised"]["x"]
        return {"raised": "exception" if x.startswith("other:") else x}
    return o


def canon_step(s: dict, ordered: bool) -> dict:
    # key order is not compared: it depends on the engines' internal import graph / the real package and
    # only decides *which* re-import raises first in deactivate(), which the outcomes already show
    mods = sorted([[k, canon_obj(v)] for k, v in s["mods"]], key=lambda kv: kv[0])
    fn = [[e, [canon_obj(a[0]) if a[0] is not None else None, a[1]]] for e, a in s["fn"]]
    return {"outcome": canon_outcome(s["outcome"]), "mods": mods, "config": s["config"], "caller": s.get("caller", []), "fn": fn}


def owner(o: t.Any) -> t.Optional[str]:
    if isinstance(o, dict):
        for k in ("pkg", "file", "dup", "cls"):
            if k in o:
                return o[k]["e"]
    return None


def obj_canon_dup(o: t.Any) -> t.Any:
    if isinstance(o, dict) and "dup" in o:
        return {"file": o["dup"]}
    return o


def meets(want: t.Any, out: t.Any) -> bool:
    """Want.meets of Impl/C20Spec.lean, evaluated on the implementation's outcome"""
    raised = isinstance(out, dict) and "raised" in out
    if want == "any":
        return True
    if want == "noRaise":
        return not raised
    if want == "raises":
        return raised
    if want == "real":
        return isinstance(out, dict) and "obj" in out and canon_obj(out["obj"]["o"]) == "REAL"
    if isinstance(want, dict) and "obj" in want:
        return isinstance(out, dict) and "obj" in out and obj_canon_dup(out["obj"]["o"]) == want["obj"]["o"]
    if isinstance(want, dict) and "session" in want:
        return isinstance(out, dict) and "session" in out and out["session"] == want["session"]
    return False


def state_meets(spec: dict, s: dict, doc_sql_keys: t.List[str]) -> bool:
    """stateMeets of Impl/C20Spec.lean on the implementation's state"""
    mods = {k: v for k, v in s["mods"]}
    for k in doc_sql_keys:
        if k in mods:
            if spec["active"] is not None:
                if owner(mods[k]) != spec["active"]:
                    return False
            elif canon_obj(mods[k]) != "REAL":
                return False
    for k, mocked_obj in (("pyspark", "mock"), ("pyspark.testing", "testing")):
        if k in mods:
            if mods[k] == mocked_obj:
                if not spec["mocked"]:
                    return False
            elif spec["mocked"] or canon_obj(mods[k]) != "REAL":
                return False
        elif spec["mocked"]:
            return False
    if s["config"] != spec["config"]:
        return False
    # the caller's own config dicts still have exactly the content they were created with
    return all(c == [["sqlframe.input.dialect", {"str": {"s": d}}]] for d, c in s.get("caller", []))


# ------------------------------------------------------------------------------------------------
# evaluation of a batch of cases
# ------------------------------------------------------------------------------------------------

_ENVS: t.Dict[str, dict] = {}
_DOC_SQL_KEYS: t.List[str] = []


def lean_env(kind: str) -> dict:
    return _ENVS[kind]


_MODEL = {"ok": True, "spec_port_mismatch": 0}
_SPEC_TB: t.List[t.Any] = []


def spec_tables() -> t.Any:
    import c20_spec

    if not _SPEC_TB:
        _SPEC_TB.append(c20_spec.Tables(vlib.REPO))
    return _SPEC_TB[0]


def evaluate(cases: t.List[dict]) -> t.List[dict]:
    import c20_spec

    impls = pool_map(lambda c: run_job(impl_job(c)), cases)
    # a case without a result (a child killed by the watchdog on an overloaded machine) is run once more on its own
    for i, (c, r) in enumerate(zip(cases, impls)):
        if "trace" not in r:
            log(f"C20: no result for a case ({str(r.get('error'))[:120]}); retrying in a new interpreter")
            impls[i] = run_child(impl_job(c), timeout=600)
    outs: t.List[t.Optional[dict]] = [None] * len(cases)
    if _MODEL["ok"]:
        outs = vlib.run_driver("C20", [{"case": i, "env": lean_env(c["env"]), "events": c["events"]} for i, c in enumerate(cases)])
    tb = spec_tables()
    res = []
    for c, impl, o in zip(cases, impls, outs):
        if o is not None and "err" in o:
            raise RuntimeError(f"driver rejected a case: {o} {c}")
        py_spec = c20_spec.spec_trace(tb, lean_env(c["env"]), c["events"])
        if o is None:
            # the Lean model is unavailable: judge the implementation against the specification port alone
            o = {"spec": py_spec, "scope": c20_spec.violated(tb, lean_env(c["env"]), c["events"]), "trace": None}
        elif [{k: sp[k] for k in ("want", "active", "mocked", "config")} for sp in o["spec"]] != py_spec:
            _MODEL["spec_port_mismatch"] += 1
        if "trace" not in impl:
            res.append({"case": c, "impl_error": impl.get("error", "?"), "corr_ok": False, "spec_ok": True, "scope": o["scope"], "first_diff": None, "spec_fail": None, "impl": None, "model": o["trace"], "spec": o["spec"]})
            continue
        ordered = c["env"] == "hidden"
        it = [canon_step(s, ordered) for s in impl["trace"]]
        mt = [canon_step(s, ordered) for s in o["trace"]] if o["trace"] is not None else None
        first_diff = next((i for i, (a, b) in enumerate(zip(it, mt)) if a != b), None) if mt is not None else None
        spec_fail = None
        for i, (s, sp) in enumerate(zip(impl["trace"], o["spec"])):
            if not meets(sp["want"], s["outcome"]):
                spec_fail = {"event": i, "what": "outcome", "want": sp["want"], "got": s["outcome"]}
                break
            if not state_meets(sp, s, _DOC_SQL_KEYS):
                spec_fail = {"event": i, "what": "state", "spec_state": {k: sp[k] for k in ("active", "mocked", "config")}, "got": {"mods": s["mods"], "config": s["config"], "caller_config_dicts": s.get("caller", [])}}
                break
        model_spec_ok = all(sp.get("meets", True) and sp.get("stateMeets", True) for sp in o["spec"])
        res.append(
            {
                "case": c,
                "corr_ok": (first_diff is None) if mt is not None else None,
                "first_diff": first_diff,
                "spec_ok": spec_fail is None,
                "spec_fail": spec_fail,
                "model_spec_ok": model_spec_ok,
                "scope": o["scope"],
                "impl": impl["trace"],
                "impl_c": it,
                "model_c": mt,
                "spec": o["spec"],
            }
        )
    return res


def is_known(r: dict, known: t.Dict[str, dict]) -> bool:
    # (with the model unavailable, corr_ok is None: the hypotheses decidable on the events alone classify)
    return bool(r["scope"]) and all(h in known for h in r["scope"]) and r["corr_ok"] is not False


def shrink(c: dict, known: t.Dict[str, dict], fail_at: t.Optional[int] = None, budget_s: float = 40.0) -> dict:
    """cut the events after the failing step, then remove chunks of events (halves, quarters, …, single events;
    each size tried as one batch) while the case still fails the specification and is not a known finding"""
    import time

    t_end = time.time() + budget_s

    def bad(r: dict) -> bool:
        return (not r["spec_ok"]) and not is_known(r, known)

    def cut(best: dict, at: t.Optional[int]) -> dict:
        if at is not None and at + 1 < len(best["events"]):
            cand = dict(best, events=best["events"][: at + 1])
            if well_formed(cand["events"]):
                r = evaluate([cand])[0]
                if bad(r):
                    return cand
        return best

    best = cut(c, fail_at)
    size = max(1, len(best["events"]) // 2)
    while time.time() < t_end and len(best["events"]) > 1:
        n = len(best["events"])
        cands = [dict(best, events=best["events"][:i] + best["events"][i + size :]) for i in range(0, n, size)]
        cands = [x for x in cands if x["events"] and well_formed(x["events"])][:32]
        nxt = None
        if cands:
            rs = evaluate(cands)
            nxt = next((r for r in rs if bad(r)), None)
        if nxt is not None:
            best = cut(nxt["case"], (nxt["spec_fail"] or {}).get("event"))
            size = max(1, min(size, len(best["events"]) // 2))
        elif size == 1:
            break
        else:
            size = max(1, size // 2)
    return best


# ------------------------------------------------------------------------------------------------
# case generation
# ------------------------------------------------------------------------------------------------


def cases_for(ctx: Ctx, engines: t.List[str], broken: t.List[str]) -> t.List[dict]:
    cases: t.List[dict] = []
    corpus_dir = os.path.join(vlib.VERIF, "corpus", ID)
    if os.path.isdir(corpus_dir):
        for fn in sorted(os.listdir(corpus_dir)):
            if fn.endswith(".json"):
                c = json.load(open(os.path.join(corpus_dir, fn)))
                cases.append({"env": c["env"], "events": c["events"], "origin": "corpus:" + fn})
    # every engine of the generated table, every documented import path, both environments
    documented = _TABLES["documented"]
    for e in engines:
        for env in ("hidden", "real"):
            evs = [A(e)] + [{"userImport": {"f": f}} for f in documented] + [D] + [{"userImport": {"f": f}} for f in documented[:3]]
            cases.append({"env": env, "events": evs, "origin": "redirect-all-paths"})
    cases += shape_pair_cases(ctx)
    cases += fault_cases(ctx)
    rng = ctx.rng
    depth_h, depth_r = (4, 3) if ctx.thorough else (2, 1)
    for env, depth in (("hidden", depth_h), ("real", depth_r)):
        for L in range(1, depth + 1):
            for seq in itertools.product(CORE, repeat=L):
                if well_formed(list(seq)):
                    cases.append({"env": env, "events": list(seq) + BATTERY, "origin": f"exhaustive-core-L{L}"})
    n_h, n_r = (2500, 600) if ctx.thorough else (260, 70)
    wide = wide_alphabet()
    for env, n in (("hidden", n_h), ("real", n_r)):
        made = 0
        while made < n:
            L = rng.randint(3, 5)
            pool = wide if rng.random() < 0.6 else CORE
            seq = [rng.choice(pool) for _ in range(L)]
            if not well_formed(seq):
                continue
            tail = BATTERY if rng.random() < 0.7 else []
            cases.append({"env": env, "events": seq + tail, "origin": "random"})
            made += 1
    return cases


# ------------------------------------------------------------------------------------------------
# exercising the generated tables against the live objects
# ------------------------------------------------------------------------------------------------

_TABLES: t.Dict[str, t.Any] = {}

LIVE_SRC = r"""
import sys, json, types
sys.path.insert(0, sys.argv[1])
class Stub(types.ModuleType):
    def __getattr__(self, n):
        if n.startswith("__"): raise AttributeError(n)
        return type(n, (Exception,), {})
for nm in sys.argv[2].split(","):
    parts = nm.split(".")
    for i in range(1, len(parts) + 1):
        k = ".".join(parts[:i])
        if k not in sys.modules:
            m = Stub(k); m.__path__ = []; sys.modules[k] = m
import importlib, sqlframe
out = {"prefix": sqlframe.ENGINE_TO_PREFIX, "override": sqlframe.NAME_TO_FILE_OVERRIDE, "engines": {}}
for e, pre in sqlframe.ENGINE_TO_PREFIX.items():
    try:
        m = importlib.import_module("sqlframe." + e)
    except BaseException as ex:
        out["engines"][e] = {"error": type(ex).__name__}
        continue
    sel = [k for k in m.__dict__ if k.startswith(pre) or k in ["Column", "Window", "WindowSpec", "functions", "types"]]
    out["engines"][e] = {"selected": sel, "has_functions": "functions" in m.__dict__}
# the session classes: constants of the builder, whether the DuckDB builder caches, whether __new__ stores the object
try:
    import functools
    from sqlframe.base.session import _BaseSession
    from sqlframe.duckdb.session import DuckDBSession
    B = _BaseSession.Builder
    o = DuckDBSession.__new__(DuckDBSession)
    out["session"] = {"connKey": B.SQLFRAME_CONN_KEY, "dialectKey": B.SQLFRAME_INPUT_DIALECT_KEY, "defaultDialect": B.DEFAULT_INPUT_DIALECT,
                      "duckBuilderCaches": isinstance(DuckDBSession.Builder.__dict__.get("session"), functools.cached_property),
                      "singletonInNew": _BaseSession._instance is o and not hasattr(o, "_connection"),
                      "builders_are_class_attributes": isinstance(DuckDBSession.__dict__.get("builder"), DuckDBSession.Builder) and isinstance(_BaseSession.__dict__.get("builder"), B)}
except BaseException as ex:
    out["session"] = {"error": type(ex).__name__ + ": " + str(ex)[:100]}
print(json.dumps(out))
"""


def exercise_tables(ctx: Ctx) -> t.Dict[str, t.Any]:
    """Gen.Activate as the Lean model reads it  vs  the live module objects"""
    notes: t.Dict[str, t.Any] = {}
    tables = vlib.run_driver("C20", [{"tables": True}])[0]
    _TABLES.update(tables)
    p = subprocess.run([PY, "-c", LIVE_SRC, vlib.REPO, ",".join(STUBS)], capture_output=True, text=True, timeout=120, cwd="/tmp")
    if p.returncode != 0:
        ctx.broken.append("exercise: cannot import sqlframe from the repo: " + p.stderr[-300:])
        return notes
    live = json.loads(p.stdout.strip().split("\n")[-1])
    import gen_c20

    try:
        ext = gen_c20.extract(vlib.REPO)
    except Exception as e:  # the translator has already reported this
        notes["extract"] = str(e)
        return notes
    if dict(ext["prefixes"]) != live["prefix"] or [k for k, _ in ext["prefixes"]] != list(live["prefix"]):
        ctx.broken.append("exercise: Gen.Act.engineToPrefix differs from the live ENGINE_TO_PREFIX")
    if dict(ext["overrides"]) != live["override"]:
        ctx.broken.append("exercise: Gen.Act.nameToFile differs from the live NAME_TO_FILE_OVERRIDE")
    sel_model = {e: [row[0] for row in rows] for e, rows in tables["selected"]}
    order_notes = []
    for e, info in live["engines"].items():
        if "error" in info:
            order_notes.append(f"{e}: not importable here ({info['error']})")
            continue
        if sorted(info["selected"]) != sorted(sel_model.get(e, [])):
            ctx.broken.append(f"exercise: selected names of sqlframe.{e} differ: live {info['selected']} vs generated {sel_model.get(e)}")
        elif info["selected"] != sel_model.get(e):
            order_notes.append(f"{e}: same selected names, different dict order (only matters when activate raises midway)")
    # Gen.ActSession's constants against the live classes
    ls, ms = live.get("session", {}), tables.get("session", {})
    if "error" in ls:
        ctx.broken.append("exercise: the session classes cannot be inspected: " + ls["error"])
    else:
        for k in ("connKey", "dialectKey", "defaultDialect", "duckBuilderCaches", "singletonInNew"):
            if ls.get(k) != ms.get(k):
                ctx.broken.append(f"exercise: Gen.ActS.{k} = {ms.get(k)!r} but the live classes say {ls.get(k)!r}")
        if not ls.get("builders_are_class_attributes"):
            ctx.broken.append("exercise: the builders are no longer class attributes (the model keeps them across deactivate())")
    notes["session_tables"] = ms
    notes["selected_order_notes"] = order_notes
    notes["engines_exercised"] = [e for e, i in live["engines"].items() if "error" not in i]
    return notes


# ------------------------------------------------------------------------------------------------
# the check
# ------------------------------------------------------------------------------------------------


def local_known() -> t.List[dict]:
    path = os.path.join(HERE, "c20.known.json")
    if not os.path.exists(path):
        return []
    data = json.load(open(path))
    items = data.get("findings", data) if isinstance(data, dict) else data
    return [e for e in items if e.get("property") == ID and e.get("status") == "open"]


def setup(ctx: Ctx) -> t.Tuple[t.List[str], t.List[str]]:
    import c20_spec

    try:
        notes = exercise_tables(ctx)
        _MODEL["ok"] = True
    except Exception as e:
        # Gen untranslatable / build broken: the model cannot be run; keep searching with the specification port
        _MODEL["ok"] = False
        notes = {"driver_unavailable": str(e)[:300]}
        ctx.broken.append(f"the Lean driver is unavailable (implementation judged against the specification port only): {str(e)[:200]}")
        tb = spec_tables()
        _TABLES.update({"engines": tb.engines(), "documented": tb.documented, "docKeys": c20_spec.doc_keys()})
    ctx.cov["table_exercise"] = notes
    engines = list(_TABLES["engines"])
    _DOC_SQL_KEYS[:] = [k for k in _TABLES["docKeys"] if k.startswith("pyspark.sql")]
    start_pool()
    broken = broken_pkgs(engines)
    _BAD[:] = probe_bad_conns()
    _ENVS["hidden"] = {"real": [], "brokenPkgs": broken, "badConns": list(_BAD)}
    real = probe_env()
    real["brokenPkgs"] = broken
    real["badConns"] = list(_BAD)
    _ENVS["real"] = real
    ctx.cov["fault_connections"] = {str(n): CONN_KINDS[n] + (" (session creation raises)" if n in _BAD else " (session creation does not raise on this tree: not used as a fault)") for n in CONN_KINDS}
    ctx.cov["interpreters"] = dict(_POOL_NOTES)
    return engines, broken


def run(ctx: Ctx) -> None:
    idx = vlib.props_index()[ID]
    # the interpreters are warmed up while Lean builds
    import threading

    th = threading.Thread(target=start_pool, daemon=True)
    th.start()
    vlib.prove(ctx, MODULES, GEN, idx["theorems"], SOURCES)
    th.join()
    known = {e["id"]: e for e in vlib.known_findings(ID)}
    for e in local_known():
        known.setdefault(e["id"], e)

    engines, broken = setup(ctx)

    cases = cases_for(ctx, engines, broken)
    log(f"C20: {len(cases)} cases")
    res = evaluate(cases)

    # the forked interpreters against brand-new ones: a sample of the cases is run once more, one process per case
    if _POOL:
        k = 24 if ctx.thorough else 10
        sample = [r for r in res[:: max(1, len(res) // k)] if r.get("impl")][:k]
        fresh = pool_map(lambda r: run_child(impl_job(r["case"])), sample, workers=n_workers())
        # (canonical forms: exception texts carry object addresses, sys.modules order is not compared anywhere)
        differ = [r for r, f in zip(sample, fresh) if "trace" in f and [canon_step(x, True) for x in f["trace"]] != r["impl_c"]]
        ctx.cov["interpreters"]["revalidated_in_new_interpreters"] = sum(1 for f in fresh if "trace" in f)
        ctx.cov["interpreters"]["fallbacks"] = _POOL[0].fallbacks if _POOL else None
        if differ:
            ctx.broken.append(f"harness: {len(differ)} of {len(sample)} cases behave differently in a forked interpreter and in a new one, e.g. {show_case(differ[0]['case'])}")

    corr_bad = [r for r in res if r["corr_ok"] is False]
    if _MODEL["spec_port_mismatch"]:
        ctx.broken.append(f"the specification port (tools/props/c20_spec.py) disagrees with Impl/C20Spec.lean on {_MODEL['spec_port_mismatch']} cases")
    spec_bad = [r for r in res if not r["spec_ok"]]
    new_viol = []
    for r in spec_bad:
        if is_known(r, known):
            for h in r["scope"]:
                vlib.report_known(ctx, known[h], known[h]["summary"])
        else:
            new_viol.append(r)
    # a case the model says violates the specification although every named hypothesis holds contradicts C20_*_partial
    unexplained = [r for r in res if r["corr_ok"] is True and not r.get("model_spec_ok", True) and not r["scope"]]

    # replay the recorded witnesses of the open known findings on the real code
    wit = [(h, e) for h, e in known.items() if e.get("witness")]
    if wit:
        wres = evaluate([{"env": e["witness"]["env"], "events": e["witness"]["events"]} for _, e in wit])
        for (h, e), r in zip(wit, wres):
            if not r["spec_ok"]:
                vlib.report_known(ctx, e, e["summary"])
            else:
                log(f"C20: the witness of {h} no longer fails on the real code (entry may be stale)")

    if corr_bad:
        ctx.broken.append(f"correspondence (implementation vs Impl/C20Activate.lean): {len(corr_bad)} of {len(res)} cases differ")

    reported = 0
    seen_shapes = set()
    new_viol.sort(key=lambda r: len(r["case"]["events"]))
    for r in new_viol:
        if reported >= 3:
            break
        c = shrink(r["case"], known, (r["spec_fail"] or {}).get("event"))
        key = json.dumps(c["events"], sort_keys=True) + c["env"]
        if key in seen_shapes:
            continue
        seen_shapes.add(key)
        rr = evaluate([c])[0]
        vlib.report_violation(
            ctx,
            {
                "kind": "implementation differs from the C20 specification",
                "program": show_case(c),
                "case": {"env": c["env"], "events": c["events"]},
                "failing_step": rr["spec_fail"],
                "violated_scope_hypotheses": rr["scope"],
                "model_agrees_with_implementation": rr["corr_ok"],
                "implementation_trace": [canon_step(s, True)["outcome"] for s in (rr["impl"] or [])],
                "broken": ctx.broken,
            },
        )
        reported += 1
    if ctx.broken and not reported:
        first = corr_bad[0] if corr_bad else None
        vlib.report_violation(
            ctx,
            {
                "kind": "proof obligation or correspondence no longer checks; no failing input found",
                "broken": ctx.broken,
                "searched": {"cases": len(res)},
                "first_model_mismatch": (
                    {
                        "program": show_case(first["case"]),
                        "case": {"env": first["case"]["env"], "events": first["case"]["events"]},
                        "event": first["first_diff"],
                        "implementation": (first.get("impl_c") or [None])[first["first_diff"]] if first.get("first_diff") is not None else first.get("impl_error"),
                        "model": (first.get("model_c") or [None])[first["first_diff"]] if first.get("first_diff") is not None else None,
                    }
                    if first
                    else None
                ),
            },
            no_input=True,
        )
    if unexplained and not reported and not ctx.broken:
        r = unexplained[0]
        vlib.report_violation(ctx, {"kind": "the model violates the specification with every scope hypothesis holding (contradicts C20 partial theorems)", "program": show_case(r["case"]), "case": {"env": r["case"]["env"], "events": r["case"]["events"]}})

    # coverage
    ev_hist: t.Dict[str, int] = {}
    lens: t.Dict[str, int] = {}
    envs: t.Dict[str, int] = {}
    origins: t.Dict[str, int] = {}
    outcomes: t.Dict[str, int] = {}
    nontrivial = set()
    for r in res:
        c = r["case"]
        envs[c["env"]] = envs.get(c["env"], 0) + 1
        origins[c["origin"].split(":")[0]] = origins.get(c["origin"].split(":")[0], 0) + 1
        lens[str(len(c["events"]))] = lens.get(str(len(c["events"])), 0) + 1
        for ev in c["events"]:
            k = ev if isinstance(ev, str) else next(iter(ev))
            ev_hist[k] = ev_hist.get(k, 0) + 1
        if r.get("impl"):
            objs = 0
            acts = 0
            for ev, s in zip(c["events"], r["impl"]):
                o = s["outcome"]
                ok = o if isinstance(o, str) else next(iter(o))
                outcomes[ok] = outcomes.get(ok, 0) + 1
                if isinstance(o, dict) and "obj" in o and owner(o["obj"]["o"]):
                    objs += 1
                if isinstance(ev, dict) and ("activate" in ev or "ctxEnter" in ev) and o == "ok":
                    acts += 1
            if objs and acts:
                nontrivial.add(vlib.digest([c["env"], c["events"]]))
    ctx.cov.update(
        {
            "evaluations": len(res),
            "distinct_nontrivial": len(nontrivial),
            "rule": "corpus; for every engine of ENGINE_TO_PREFIX x both environments: activate, every documented import statement, deactivate; "
            "two activations with every pair of argument shapes (no argument / a connection / a settings dict / both; equal settings = the SAME dict object) separated by deactivate(), by nothing, or as two context blocks, then a session; "
            "session creation that fails (each kind of unusable connection found to fail here, an unknown dialect) inside a plain activation / a context block left by the exception, followed by further activations and sessions; "
            "every well-formed sequence over the 9-symbol core alphabet up to the tier's depth (+ observation battery); random sequences of length 3..5 over the wide alphabet; "
            "each case runs in an interpreter in which sqlframe and pyspark have never been imported (forked from a process holding only third-party libraries; a sample is re-run in brand-new interpreters and compared); non-trivial = distinct (environment, events) with a successful engine activation and at least one import that yielded a sqlframe object",
            "exhaustive": False,
            "traces_validated_against_impl": sum(1 for r in res if r["corr_ok"] is True),
            "model_available": _MODEL["ok"],
            "impl_vs_spec_agree": sum(r["spec_ok"] for r in res),
            "out_of_scope_cases": sum(1 for r in res if r["scope"]),
            "environments": envs,
            "origins": origins,
            "event_histogram": ev_hist,
            "length_histogram": lens,
            "impl_outcome_histogram": outcomes,
            "real_env": {"modules": [{"name": m["name"], "raises": m["raises"]} for m in _ENVS["real"]["real"]], "brokenPkgs": broken},
            "samples": [{"program": show_case(r["case"]), "outcomes": [canon_outcome(s["outcome"]) for s in (r["impl"] or [])][:8]} for r in res[:: max(1, len(res) // 4)][:4]],
        }
    )
    ctx.assumptions += [
        "CPython 3.12 import rules as transcribed in Impl/C20Activate.lean (sys.modules first, parent __path__, child bound on the parent, IMPORT_FROM) — validated by the correspondence stream on every case",
        "the real pyspark of this sandbox behaves as probed at the start of the run (which tracked modules import, which raise, what they load); C20_deactivate_importable assumes every re-import succeeds",
        "only sys.modules keys of the documented pyspark modules are compared; other pyspark.* modules of a real installation are outside the model",
        "session creation is modelled for the duckdb and standalone engines only; other engines' drivers are stubbed for the import-redirection part",
        "which connections cannot be used is probed per run (the first session creation of a process on a closed connection / a connection with a clashing user function / an object every use of which raises); the specification demands that such a creation raises and leaves nothing behind",
        "activate()'s `conn` / `config` are the harness's own objects: one connection per label, one settings dict per settings value for the whole case; `if conn:` is taken to be true for a connection object",
        "startswith('pyspark') is applied to whole keys; no other top-level module whose name starts with 'pyspark' is loaded",
    ]


def replay(ctx: Ctx, rp: dict) -> None:
    c = rp.get("case")
    if not c:
        print("replay names a broken obligation, not an input:", rp.get("broken"))
        return
    setup(ctx)
    r = evaluate([{"env": c["env"], "events": c["events"], "origin": "replay"}])[0]
    print(
        json.dumps(
            {
                "program": show_case(c),
                "implementation": [canon_outcome(s["outcome"]) for s in (r["impl"] or [])],
                "spec_fail": r["spec_fail"],
                "scope": r["scope"],
                "model_agrees": r["corr_ok"],
            },
            indent=1,
        )
    )
    if not r["spec_ok"]:
        vlib.report_violation(ctx, dict(rp, failing_step=r["spec_fail"]))
