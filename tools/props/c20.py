"""
C20 — activate() redirects every pyspark.sql import and is fully reversible.

proof      : lean/SqlframeModel/Props/C20.lean over the regenerated Gen/Activate.lean
tie        : (a) Gen.Activate regenerated from /repo's sqlframe/__init__.py + every engine package on each run and
             exercised against the live objects; (b) correspondence: event sequences run on the REAL code, each in a
             fresh interpreter (tools/props/c20_child.py), in two environments (real pyspark hidden by a meta-path
             blocker / as installed) vs the Lean model's trace (Driver/C20.lean)
search     : the same runs are judged against the Lean *specification* machine (what each event must yield)
"""
from __future__ import annotations

import itertools
import json
import os
import random
import subprocess
import sys
import typing as t
from concurrent.futures import ThreadPoolExecutor

import vlib
from vlib import Ctx, log

ID = "C20"
LEVEL = "proof"
MODULES = ["SqlframeModel.Codec.C20", "SqlframeModel.Props.C20"]
GEN = ["Activate"]
SOURCES = [
    "SqlframeModel/Props/C20.lean",
    "SqlframeModel/Lemmas/C20.lean",
    "SqlframeModel/Impl/C20Activate.lean",
    "SqlframeModel/Impl/C20Spec.lean",
]
HERE = os.path.dirname(os.path.abspath(__file__))
CHILD = os.path.join(HERE, "c20_child.py")
PY = "/venv/bin/python"
STUBS = ["databricks.sql", "databricks.sql.client", "databricks.sql.exc"]
ENGINE_FILES = ["catalog", "column", "dataframe", "functions", "group", "readwriter", "session", "table", "types", "udf", "window"]
TRACKED = ["pyspark", "pyspark.testing", "pyspark.sql"] + ["pyspark.sql." + f for f in ENGINE_FILES]

# ------------------------------------------------------------------------------------------------
# events (JSON exactly as the Lean codec reads it)
# ------------------------------------------------------------------------------------------------


def A(e=None, conn=None, dialect=None):
    return {"activate": {"eng": e, "conn": conn, "dialect": dialect}}


def CE(e=None, conn=None, dialect=None):
    return {"ctxEnter": {"eng": e, "conn": conn, "dialect": dialect}}


def CX(k):
    return {"ctxExit": {"k": k}}


def FI(path, name):
    return {"userImport": {"f": {"fromImport": {"path": path.split("."), "name": name}}}}


def IA(path):
    return {"userImport": {"f": {"importAs": {"path": path.split(".")}}}}


def IM(path):
    return {"userImport": {"f": {"importModule": {"path": path.split(".")}}}}


D = "deactivate"
S = "sessionCreate"


def show_event(ev: t.Any) -> str:
    if ev == D:
        return "deactivate()"
    if ev == S:
        return "SparkSession.builder.getOrCreate()"
    if "activate" in ev or "ctxEnter" in ev:
        k = "activate" if "activate" in ev else "ctxEnter"
        a = ev[k]
        args = [repr(a["eng"])] if a["eng"] is not None else []
        if a["conn"] is not None:
            args.append(f"conn=c{a['conn']}")
        if a["dialect"] is not None:
            args.append("config={'sqlframe.input.dialect': %r}" % a["dialect"])
        return ("activate(" if k == "activate" else "with activate_context(") + ", ".join(args) + (")" if k == "activate" else "): # enter")
    if "ctxExit" in ev:
        return {"normal": "# leave the block normally", "exn": "raise RuntimeError  # inside the block", "base": "raise KeyboardInterrupt-like BaseException  # inside the block"}[ev["ctxExit"]["k"]]
    f = ev["userImport"]["f"]
    if "fromImport" in f:
        return f"from {'.'.join(f['fromImport']['path'])} import {f['fromImport']['name']}"
    if "importAs" in f:
        return f"import {'.'.join(f['importAs']['path'])} as X"
    return f"importlib.import_module('{'.'.join(f['importModule']['path'])}')"


def show_case(c: dict) -> str:
    return f"[{c['env']}] " + "; ".join(show_event(e) for e in c["events"])


BATTERY = [
    FI("pyspark.sql", "SparkSession"),
    FI("pyspark.sql.session", "SparkSession"),
    FI("pyspark.sql.dataframe", "DataFrame"),
    IA("pyspark.sql.types"),
    FI("pyspark.testing", "assertDataFrameEqual"),
    IM("pyspark.sql.functions"),
    FI("pyspark.sql", "functions"),
    IA("pyspark.sql.functions"),
]

CORE = [A("duckdb"), A("standalone"), D, CE("duckdb"), CX("normal"), CX("exn"), CX("base"), IA("pyspark.sql.functions"), S]
WIDE = CORE + [
    A("duckdb", conn=1),
    A("duckdb", conn=2),
    A("duckdb", dialect="duckdb"),
    A("duckdb", dialect="nope"),
    A("postgres"),
    A("DuckDB"),
    A("nosuchengine"),
    A(None),
    CE("standalone"),
    CE("duckdb", conn=2),
    CE("duckdb", dialect="nope"),
    CE(None),
    FI("pyspark.sql", "functions"),
    IM("pyspark.sql.functions"),
    FI("pyspark.sql", "SparkSession"),
    FI("pyspark.sql.session", "SparkSession"),
    FI("pyspark.sql", "types"),
    IA("pyspark.sql"),
    IA("pyspark.sql.window"),
    FI("pyspark.sql.readwriter", "DataFrameWriter"),
    FI("pyspark", "testing"),
    IA("pyspark.testing"),
    IM("pyspark.sql.table"),
]


SESSION_ENGINES = ("duckdb", "standalone")


def well_formed(evs: t.List[t.Any]) -> bool:
    """a ctxExit needs an open block; a bare activate() is only generated while nothing is active; session
    creation is only generated when every activated engine has a modelled session (duckdb, standalone)"""
    depth = 0
    active = False
    has_session = any(ev == S for ev in evs)
    for ev in evs:
        if isinstance(ev, dict) and ("ctxEnter" in ev or "activate" in ev):
            a = ev.get("ctxEnter") or ev.get("activate")
            if a["eng"] is None and active:
                return False
            if has_session and a["eng"] is not None and a["eng"].lower() not in SESSION_ENGINES + ("nosuchengine",):
                return False
            if "ctxEnter" in ev:
                depth += 1
            active = True
        elif isinstance(ev, dict) and "ctxExit" in ev:
            if depth == 0:
                return False
            depth -= 1
        elif ev == D:
            active = False
    return True


# ------------------------------------------------------------------------------------------------
# running the real implementation (fresh interpreter per case)
# ------------------------------------------------------------------------------------------------


def run_child(job: dict, timeout: int = 120) -> dict:
    env = dict(os.environ)
    env.pop("PYTHONPATH", None)
    env["PYTHONDONTWRITEBYTECODE"] = "1"
    p = subprocess.run([PY, CHILD], input=json.dumps(job), capture_output=True, text=True, timeout=timeout, env=env, cwd="/tmp")
    lines = [l for l in p.stdout.split("\n") if l.startswith("{")]
    if p.returncode != 0 or not lines:
        return {"error": (p.stderr or p.stdout)[-600:]}
    return json.loads(lines[-1])


def pool_map(fn, items, workers: int = 0):
    if workers == 0:
        workers = max(2, min(int(os.environ.get("VERIF_WORKERS", "12")), (os.cpu_count() or 2)))
    with ThreadPoolExecutor(max_workers=workers) as ex:
        return list(ex.map(fn, items))


def impl_job(c: dict) -> dict:
    return {"repo": vlib.REPO, "hide": c["env"] == "hidden", "stubs": STUBS, "tracked": TRACKED, "events": c["events"]}


def probe_env() -> dict:
    """what a real `import <tracked module>` does in this sandbox (fresh interpreter each).  A failing import can
    leave modules behind whose re-import fails too (deactivate() would hit them): those keys become tracked."""
    res = pool_map(lambda k: run_child({"probe": k, "tracked": TRACKED, "find_poison": True}), list(TRACKED))
    extra = []
    for k, r in zip(list(TRACKED), res):
        if "probe" not in r:
            raise RuntimeError(f"probe of {k} failed: {r}")
        for pk, _ in r["probe"].get("poison", []):
            if pk not in TRACKED and pk not in extra:
                extra.append(pk)
    if extra:
        TRACKED.extend(extra)
        res = pool_map(lambda k: run_child({"probe": k, "tracked": TRACKED}), list(TRACKED))
    real = []
    for k, r in zip(list(TRACKED), res):
        if "probe" not in r:
            raise RuntimeError(f"probe of {k} failed: {r}")
        pr = r["probe"]
        if pr["raises"] == "moduleNotFound" and not pr["closure"]:
            continue  # not a real module at all
        real.append({"name": k, "raises": pr["raises"], "closure": pr["closure"]})
    return {"real": real, "brokenPkgs": []}


def broken_pkgs(engines: t.List[str]) -> t.List[str]:
    """engine packages that cannot be imported here even with the driver stubs (`import sqlframe.<e>` raises)"""

    def one(e):
        r = run_child({"repo": vlib.REPO, "hide": True, "stubs": STUBS, "import_pkg": e})
        return r.get("import_pkg", "error") is not None

    return [e for e, bad in zip(engines, pool_map(one, engines)) if bad]


# ------------------------------------------------------------------------------------------------
# canonical forms and comparison
# ------------------------------------------------------------------------------------------------


def canon_obj(o: t.Any) -> t.Any:
    if isinstance(o, dict) and ("real" in o or "realAttr" in o):
        return "REAL"
    return o


def canon_outcome(o: t.Any) -> t.Any:
    if isinstance(o, dict) and "obj" in o:
        return {"obj": canon_obj(o["obj"]["o"])}
    if isinstance(o, dict) and "raised" in o:
        return {"raised": o["raised"]["x"]}
    return o


def canon_step(s: dict, ordered: bool) -> dict:
    # key order is not compared: it depends on the engines' internal import graph / the real package and
    # only decides *which* re-import raises first in deactivate(), which the outcomes already show
    mods = sorted([[k, canon_obj(v)] for k, v in s["mods"]], key=lambda kv: kv[0])
    fn = [[e, [canon_obj(a[0]) if a[0] is not None else None, a[1]]] for e, a in s["fn"]]
    return {"outcome": canon_outcome(s["outcome"]), "mods": mods, "config": s["config"], "fn": fn}


def owner(o: t.Any) -> t.Optional[str]:
    if isinstance(o, dict):
        for k in ("pkg", "file", "dup", "cls"):
            if k in o:
                return o[k]["e"]
    return None


def obj_canon_dup(o: t.Any) -> t.Any:
    if isinstance(o, dict) and "dup" in o:
        return {"file": o["dup"]}
    return o


def meets(want: t.Any, out: t.Any) -> bool:
    """Want.meets of Impl/C20Spec.lean, evaluated on the implementation's outcome"""
    raised = isinstance(out, dict) and "raised" in out
    if want == "any":
        return True
    if want == "noRaise":
        return not raised
    if want == "raises":
        return raised
    if want == "real":
        return isinstance(out, dict) and "obj" in out and canon_obj(out["obj"]["o"]) == "REAL"
    if isinstance(want, dict) and "obj" in want:
        return isinstance(out, dict) and "obj" in out and obj_canon_dup(out["obj"]["o"]) == want["obj"]["o"]
    if isinstance(want, dict) and "session" in want:
        return isinstance(out, dict) and "session" in out and out["session"] == want["session"]
    return False


def state_meets(spec: dict, s: dict, doc_sql_keys: t.List[str]) -> bool:
    """stateMeets of Impl/C20Spec.lean on the implementation's state"""
    mods = {k: v for k, v in s["mods"]}
    for k in doc_sql_keys:
        if k in mods:
            if spec["active"] is not None:
                if owner(mods[k]) != spec["active"]:
                    return False
            elif canon_obj(mods[k]) != "REAL":
                return False
    for k, mocked_obj in (("pyspark", "mock"), ("pyspark.testing", "testing")):
        if k in mods:
            if mods[k] == mocked_obj:
                if not spec["mocked"]:
                    return False
            elif spec["mocked"] or canon_obj(mods[k]) != "REAL":
                return False
        elif spec["mocked"]:
            return False
    return s["config"] == spec["config"]


# ------------------------------------------------------------------------------------------------
# evaluation of a batch of cases
# ------------------------------------------------------------------------------------------------

_ENVS: t.Dict[str, dict] = {}
_DOC_SQL_KEYS: t.List[str] = []


def lean_env(kind: str) -> dict:
    return _ENVS[kind]


_MODEL = {"ok": True, "spec_port_mismatch": 0}
_SPEC_TB: t.List[t.Any] = []


def spec_tables() -> t.Any:
    import c20_spec

    if not _SPEC_TB:
        _SPEC_TB.append(c20_spec.Tables(vlib.REPO))
    return _SPEC_TB[0]


def evaluate(cases: t.List[dict]) -> t.List[dict]:
    import c20_spec

    impls = pool_map(lambda c: run_child(impl_job(c)), cases)
    outs: t.List[t.Optional[dict]] = [None] * len(cases)
    if _MODEL["ok"]:
        outs = vlib.run_driver("C20", [{"case": i, "env": lean_env(c["env"]), "events": c["events"]} for i, c in enumerate(cases)])
    tb = spec_tables()
    res = []
    for c, impl, o in zip(cases, impls, outs):
        if o is not None and "err" in o:
            raise RuntimeError(f"driver rejected a case: {o} {c}")
        py_spec = c20_spec.spec_trace(tb, lean_env(c["env"]), c["events"])
        if o is None:
            # the Lean model is unavailable: judge the implementation against the specification port alone
            o = {"spec": py_spec, "scope": c20_spec.violated(tb, lean_env(c["env"]), c["events"]), "trace": None}
        elif [{k: sp[k] for k in ("want", "active", "mocked", "config")} for sp in o["spec"]] != py_spec:
            _MODEL["spec_port_mismatch"] += 1
        if "trace" not in impl:
            res.append({"case": c, "impl_error": impl.get("error", "?"), "corr_ok": False, "spec_ok": True, "scope": o["scope"], "first_diff": None, "spec_fail": None, "impl": None, "model": o["trace"], "spec": o["spec"]})
            continue
        ordered = c["env"] == "hidden"
        it = [canon_step(s, ordered) for s in impl["trace"]]
        mt = [canon_step(s, ordered) for s in o["trace"]] if o["trace"] is not None else None
        first_diff = next((i for i, (a, b) in enumerate(zip(it, mt)) if a != b), None) if mt is not None else None
        spec_fail = None
        for i, (s, sp) in enumerate(zip(impl["trace"], o["spec"])):
            if not meets(sp["want"], s["outcome"]):
                spec_fail = {"event": i, "what": "outcome", "want": sp["want"], "got": s["outcome"]}
                break
            if not state_meets(sp, s, _DOC_SQL_KEYS):
                spec_fail = {"event": i, "what": "state", "spec_state": {k: sp[k] for k in ("active", "mocked", "config")}, "got": {"mods": s["mods"], "config": s["config"]}}
                break
        model_spec_ok = all(sp.get("meets", True) and sp.get("stateMeets", True) for sp in o["spec"])
        res.append(
            {
                "case": c,
                "corr_ok": (first_diff is None) if mt is not None else None,
                "first_diff": first_diff,
                "spec_ok": spec_fail is None,
                "spec_fail": spec_fail,
                "model_spec_ok": model_spec_ok,
                "scope": o["scope"],
                "impl": impl["trace"],
                "impl_c": it,
                "model_c": mt,
                "spec": o["spec"],
            }
        )
    return res


def is_known(r: dict, known: t.Dict[str, dict]) -> bool:
    # (with the model unavailable, corr_ok is None: the hypotheses decidable on the events alone classify)
    return bool(r["scope"]) and all(h in known for h in r["scope"]) and r["corr_ok"] is not False


def shrink(c: dict, known: t.Dict[str, dict], fail_at: t.Optional[int] = None, budget_s: float = 40.0) -> dict:
    """cut the events after the failing step, then remove chunks of events (halves, quarters, …, single events;
    each size tried as one batch) while the case still fails the specification and is not a known finding"""
    import time

    t_end = time.time() + budget_s

    def bad(r: dict) -> bool:
        return (not r["spec_ok"]) and not is_known(r, known)

    def cut(best: dict, at: t.Optional[int]) -> dict:
        if at is not None and at + 1 < len(best["events"]):
            cand = dict(best, events=best["events"][: at + 1])
            if well_formed(cand["events"]):
                r = evaluate([cand])[0]
                if bad(r):
                    return cand
        return best

    best = cut(c, fail_at)
    size = max(1, len(best["events"]) // 2)
    while time.time() < t_end and len(best["events"]) > 1:
        n = len(best["events"])
        cands = [dict(best, events=best["events"][:i] + best["events"][i + size :]) for i in range(0, n, size)]
        cands = [x for x in cands if x["events"] and well_formed(x["events"])][:32]
        nxt = None
        if cands:
            rs = evaluate(cands)
            nxt = next((r for r in rs if bad(r)), None)
        if nxt is not None:
            best = cut(nxt["case"], (nxt["spec_fail"] or {}).get("event"))
            size = max(1, min(size, len(best["events"]) // 2))
        elif size == 1:
            break
        else:
            size = max(1, size // 2)
    return best


# ------------------------------------------------------------------------------------------------
# case generation
# ------------------------------------------------------------------------------------------------


def cases_for(ctx: Ctx, engines: t.List[str], broken: t.List[str]) -> t.List[dict]:
    cases: t.List[dict] = []
    corpus_dir = os.path.join(vlib.VERIF, "corpus", ID)
    if os.path.isdir(corpus_dir):
        for fn in sorted(os.listdir(corpus_dir)):
            if fn.endswith(".json"):
                c = json.load(open(os.path.join(corpus_dir, fn)))
                cases.append({"env": c["env"], "events": c["events"], "origin": "corpus:" + fn})
    # every engine of the generated table, every documented import path, both environments
    documented = _TABLES["documented"]
    for e in engines:
        for env in ("hidden", "real"):
            evs = [A(e)] + [{"userImport": {"f": f}} for f in documented] + [D] + [{"userImport": {"f": f}} for f in documented[:3]]
            cases.append({"env": env, "events": evs, "origin": "redirect-all-paths"})
    rng = ctx.rng
    depth_h, depth_r = (4, 3) if ctx.thorough else (2, 1)
    for env, depth in (("hidden", depth_h), ("real", depth_r)):
        for L in range(1, depth + 1):
            for seq in itertools.product(CORE, repeat=L):
                if well_formed(list(seq)):
                    cases.append({"env": env, "events": list(seq) + BATTERY, "origin": f"exhaustive-core-L{L}"})
    n_h, n_r = (2500, 600) if ctx.thorough else (260, 70)
    for env, n in (("hidden", n_h), ("real", n_r)):
        made = 0
        while made < n:
            L = rng.randint(3, 5)
            pool = WIDE if rng.random() < 0.6 else CORE
            seq = [rng.choice(pool) for _ in range(L)]
            if not well_formed(seq):
                continue
            tail = BATTERY if rng.random() < 0.7 else []
            cases.append({"env": env, "events": seq + tail, "origin": "random"})
            made += 1
    return cases


# ------------------------------------------------------------------------------------------------
# exercising the generated tables against the live objects
# ------------------------------------------------------------------------------------------------

_TABLES: t.Dict[str, t.Any] = {}

LIVE_SRC = r"""
import sys, json, types
sys.path.insert(0, sys.argv[1])
class Stub(types.ModuleType):
    def __getattr__(self, n):
        if n.startswith("__"): raise AttributeError(n)
        return type(n, (Exception,), {})
for nm in sys.argv[2].split(","):
    parts = nm.split(".")
    for i in range(1, len(parts) + 1):
        k = ".".join(parts[:i])
        if k not in sys.modules:
            m = Stub(k); m.__path__ = []; sys.modules[k] = m
import importlib, sqlframe
out = {"prefix": sqlframe.ENGINE_TO_PREFIX, "override": sqlframe.NAME_TO_FILE_OVERRIDE, "engines": {}}
for e, pre in sqlframe.ENGINE_TO_PREFIX.items():
    try:
        m = importlib.import_module("sqlframe." + e)
    except BaseException as ex:
        out["engines"][e] = {"error": type(ex).__name__}
        continue
    sel = [k for k in m.__dict__ if k.startswith(pre) or k in ["Column", "Window", "WindowSpec", "functions", "types"]]
    out["engines"][e] = {"selected": sel, "has_functions": "functions" in m.__dict__}
print(json.dumps(out))
"""


def exercise_tables(ctx: Ctx) -> t.Dict[str, t.Any]:
    """Gen.Activate as the Lean model reads it  vs  the live module objects"""
    notes: t.Dict[str, t.Any] = {}
    tables = vlib.run_driver("C20", [{"tables": True}])[0]
    _TABLES.update(tables)
    p = subprocess.run([PY, "-c", LIVE_SRC, vlib.REPO, ",".join(STUBS)], capture_output=True, text=True, timeout=120, cwd="/tmp")
    if p.returncode != 0:
        ctx.broken.append("exercise: cannot import sqlframe from the repo: " + p.stderr[-300:])
        return notes
    live = json.loads(p.stdout.strip().split("\n")[-1])
    import gen_c20

    try:
        ext = gen_c20.extract(vlib.REPO)
    except Exception as e:  # the translator has already reported this
        notes["extract"] = str(e)
        return notes
    if dict(ext["prefixes"]) != live["prefix"] or [k for k, _ in ext["prefixes"]] != list(live["prefix"]):
        ctx.broken.append("exercise: Gen.Act.engineToPrefix differs from the live ENGINE_TO_PREFIX")
    if dict(ext["overrides"]) != live["override"]:
        ctx.broken.append("exercise: Gen.Act.nameToFile differs from the live NAME_TO_FILE_OVERRIDE")
    sel_model = {e: [row[0] for row in rows] for e, rows in tables["selected"]}
    order_notes = []
    for e, info in live["engines"].items():
        if "error" in info:
            order_notes.append(f"{e}: not importable here ({info['error']})")
            continue
        if sorted(info["selected"]) != sorted(sel_model.get(e, [])):
            ctx.broken.append(f"exercise: selected names of sqlframe.{e} differ: live {info['selected']} vs generated {sel_model.get(e)}")
        elif info["selected"] != sel_model.get(e):
            order_notes.append(f"{e}: same selected names, different dict order (only matters when activate raises midway)")
    notes["selected_order_notes"] = order_notes
    notes["engines_exercised"] = [e for e, i in live["engines"].items() if "error" not in i]
    return notes


# ------------------------------------------------------------------------------------------------
# the check
# ------------------------------------------------------------------------------------------------


def local_known() -> t.List[dict]:
    path = os.path.join(HERE, "c20.known.json")
    if not os.path.exists(path):
        return []
    data = json.load(open(path))
    items = data.get("findings", data) if isinstance(data, dict) else data
    return [e for e in items if e.get("property") == ID and e.get("status") == "open"]


def setup(ctx: Ctx) -> t.Tuple[t.List[str], t.List[str]]:
    import c20_spec

    try:
        notes = exercise_tables(ctx)
        _MODEL["ok"] = True
    except Exception as e:
        # Gen untranslatable / build broken: the model cannot be run; keep searching with the specification port
        _MODEL["ok"] = False
        notes = {"driver_unavailable": str(e)[:300]}
        ctx.broken.append(f"the Lean driver is unavailable (implementation judged against the specification port only): {str(e)[:200]}")
        tb = spec_tables()
        _TABLES.update({"engines": tb.engines(), "documented": tb.documented, "docKeys": c20_spec.doc_keys()})
    ctx.cov["table_exercise"] = notes
    engines = list(_TABLES["engines"])
    _DOC_SQL_KEYS[:] = [k for k in _TABLES["docKeys"] if k.startswith("pyspark.sql")]
    broken = broken_pkgs(engines)
    _ENVS["hidden"] = {"real": [], "brokenPkgs": broken}
    real = probe_env()
    real["brokenPkgs"] = broken
    _ENVS["real"] = real
    return engines, broken


def run(ctx: Ctx) -> None:
    idx = vlib.props_index()[ID]
    vlib.prove(ctx, MODULES, GEN, idx["theorems"], SOURCES)
    known = {e["id"]: e for e in vlib.known_findings(ID)}
    for e in local_known():
        known.setdefault(e["id"], e)

    engines, broken = setup(ctx)

    cases = cases_for(ctx, engines, broken)
    log(f"C20: {len(cases)} cases")
    res = evaluate(cases)

    corr_bad = [r for r in res if r["corr_ok"] is False]
    if _MODEL["spec_port_mismatch"]:
        ctx.broken.append(f"the specification port (tools/props/c20_spec.py) disagrees with Impl/C20Spec.lean on {_MODEL['spec_port_mismatch']} cases")
    spec_bad = [r for r in res if not r["spec_ok"]]
    new_viol = []
    for r in spec_bad:
        if is_known(r, known):
            for h in r["scope"]:
                vlib.report_known(ctx, known[h], known[h]["summary"])
        else:
            new_viol.append(r)
    # a case the model says violates the specification although every named hypothesis holds contradicts C20_*_partial
    unexplained = [r for r in res if r["corr_ok"] is True and not r.get("model_spec_ok", True) and not r["scope"]]

    # replay the recorded witnesses of the open known findings on the real code
    wit = [(h, e) for h, e in known.items() if e.get("witness")]
    if wit:
        wres = evaluate([{"env": e["witness"]["env"], "events": e["witness"]["events"]} for _, e in wit])
        for (h, e), r in zip(wit, wres):
            if not r["spec_ok"]:
                vlib.report_known(ctx, e, e["summary"])
            else:
                log(f"C20: the witness of {h} no longer fails on the real code (entry may be stale)")

    if corr_bad:
        ctx.broken.append(f"correspondence (implementation vs Impl/C20Activate.lean): {len(corr_bad)} of {len(res)} cases differ")

    reported = 0
    seen_shapes = set()
    new_viol.sort(key=lambda r: len(r["case"]["events"]))
    for r in new_viol:
        if reported >= 3:
            break
        c = shrink(r["case"], known, (r["spec_fail"] or {}).get("event"))
        key = json.dumps(c["events"], sort_keys=True) + c["env"]
        if key in seen_shapes:
            continue
        seen_shapes.add(key)
        rr = evaluate([c])[0]
        vlib.report_violation(
            ctx,
            {
                "kind": "implementation differs from the C20 specification",
                "program": show_case(c),
                "case": {"env": c["env"], "events": c["events"]},
                "failing_step": rr["spec_fail"],
                "violated_scope_hypotheses": rr["scope"],
                "model_agrees_with_implementation": rr["corr_ok"],
                "implementation_trace": [canon_step(s, True)["outcome"] for s in (rr["impl"] or [])],
                "broken": ctx.broken,
            },
        )
        reported += 1
    if ctx.broken and not reported:
        first = corr_bad[0] if corr_bad else None
        vlib.report_violation(
            ctx,
            {
                "kind": "proof obligation or correspondence no longer checks; no failing input found",
                "broken": ctx.broken,
                "searched": {"cases": len(res)},
                "first_model_mismatch": (
                    {
                        "program": show_case(first["case"]),
                        "case": {"env": first["case"]["env"], "events": first["case"]["events"]},
                        "event": first["first_diff"],
                        "implementation": (first.get("impl_c") or [None])[first["first_diff"]] if first.get("first_diff") is not None else first.get("impl_error"),
                        "model": (first.get("model_c") or [None])[first["first_diff"]] if first.get("first_diff") is not None else None,
                    }
                    if first
                    else None
                ),
            },
            no_input=True,
        )
    if unexplained and not reported and not ctx.broken:
        r = unexplained[0]
        vlib.report_violation(ctx, {"kind": "the model violates the specification with every scope hypothesis holding (contradicts C20 partial theorems)", "program": show_case(r["case"]), "case": {"env": r["case"]["env"], "events": r["case"]["events"]}})

    # coverage
    ev_hist: t.Dict[str, int] = {}
    lens: t.Dict[str, int] = {}
    envs: t.Dict[str, int] = {}
    origins: t.Dict[str, int] = {}
    outcomes: t.Dict[str, int] = {}
    nontrivial = set()
    for r in res:
        c = r["case"]
        envs[c["env"]] = envs.get(c["env"], 0) + 1
        origins[c["origin"].split(":")[0]] = origins.get(c["origin"].split(":")[0], 0) + 1
        lens[str(len(c["events"]))] = lens.get(str(len(c["events"])), 0) + 1
        for ev in c["events"]:
            k = ev if isinstance(ev, str) else next(iter(ev))
            ev_hist[k] = ev_hist.get(k, 0) + 1
        if r.get("impl"):
            objs = 0
            acts = 0
            for ev, s in zip(c["events"], r["impl"]):
                o = s["outcome"]
                ok = o if isinstance(o, str) else next(iter(o))
                outcomes[ok] = outcomes.get(ok, 0) + 1
                if isinstance(o, dict) and "obj" in o and owner(o["obj"]["o"]):
                    objs += 1
                if isinstance(ev, dict) and ("activate" in ev or "ctxEnter" in ev) and o == "ok":
                    acts += 1
            if objs and acts:
                nontrivial.add(vlib.digest([c["env"], c["events"]]))
    ctx.cov.update(
        {
            "evaluations": len(res),
            "distinct_nontrivial": len(nontrivial),
            "rule": "corpus; for every engine of ENGINE_TO_PREFIX x both environments: activate, every documented import statement, deactivate; "
            "every well-formed sequence over the 9-symbol core alphabet up to the tier's depth (+ observation battery); random sequences of length 3..5 over the wide alphabet; "
            "each case runs in a fresh interpreter; non-trivial = distinct (environment, events) with a successful engine activation and at least one import that yielded a sqlframe object",
            "exhaustive": False,
            "traces_validated_against_impl": sum(1 for r in res if r["corr_ok"] is True),
            "model_available": _MODEL["ok"],
            "impl_vs_spec_agree": sum(r["spec_ok"] for r in res),
            "out_of_scope_cases": sum(1 for r in res if r["scope"]),
            "environments": envs,
            "origins": origins,
            "event_histogram": ev_hist,
            "length_histogram": lens,
            "impl_outcome_histogram": outcomes,
            "real_env": {"modules": [{"name": m["name"], "raises": m["raises"]} for m in _ENVS["real"]["real"]], "brokenPkgs": broken},
            "samples": [{"program": show_case(r["case"]), "outcomes": [canon_outcome(s["outcome"]) for s in (r["impl"] or [])][:8]} for r in res[:: max(1, len(res) // 4)][:4]],
        }
    )
    ctx.assumptions += [
        "CPython 3.12 import rules as transcribed in Impl/C20Activate.lean (sys.modules first, parent __path__, child bound on the parent, IMPORT_FROM) — validated by the correspondence stream on every case",
        "the real pyspark of this sandbox behaves as probed at the start of the run (which tracked modules import, which raise, what they load); C20_deactivate_importable assumes every re-import succeeds",
        "only sys.modules keys of the documented pyspark modules are compared; other pyspark.* modules of a real installation are outside the model",
        "session creation is modelled for the duckdb and standalone engines only; other engines' drivers are stubbed for the import-redirection part",
        "startswith('pyspark') is applied to whole keys; no other top-level module whose name starts with 'pyspark' is loaded",
    ]


def replay(ctx: Ctx, rp: dict) -> None:
    c = rp.get("case")
    if not c:
        print("replay names a broken obligation, not an input:", rp.get("broken"))
        return
    setup(ctx)
    r = evaluate([{"env": c["env"], "events": c["events"], "origin": "replay"}])[0]
    print(
        json.dumps(
            {
                "program": show_case(c),
                "implementation": [canon_outcome(s["outcome"]) for s in (r["impl"] or [])],
                "spec_fail": r["spec_fail"],
                "scope": r["scope"],
                "model_agrees": r["corr_ok"],
            },
            indent=1,
        )
    )
    if not r["spec_ok"]:
        vlib.report_violation(ctx, dict(rp, failing_step=r["spec_fail"]))
