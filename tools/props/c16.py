"""
C16 — functions accept a column name wherever PySpark does, with the same meaning.

proof      : lean/SqlframeModel/Props/C16.lean — C16_lift (every name, every context) + C16_table_check
             (`decide +kernel` over the regenerated table Gen.cells) => C16_table_partial / C16_partial;
             names and collections: C16_struct_names, C16_nameSites_forms, C16_unpack_listForm, C16_cols_listForm,
             C16_struct_call, C16_sites_check, C16_autoAlias, C16_named_partial
tie        : Gen/Functions.lean = static decisions (tools/gen_c16.py, ast: coercion routes, struct's field-name source,
             every naming site, every varargs-or-one-list unpacking site, the automatic alias) + the cell table traced on
             every run from the real functions of every engine (tools/props/c16_trace.py, a DYNAMIC translator);
             the hand-written naming / unpacking model is compared with the running code through the driver
search     : the direct comparison  f(..,'name',..)  vs  f(..,col('name'),..)  for the WHOLE table on every engine
             (exhaustive over the finite part; doubles as the check of the tracer): SQL text, the result's name, the whole
             tree (quoting flags, display names); names that need quoting (qualified, dot / space inside backquotes,
             upper case, leading digit, reserved word, operator characters); argument variants (other arguments as typed
             values / by name / as Columns / as Python numbers, each optional parameter left out); ONE list argument
             against the varargs call; each engine's second half in a process used by another engine before;
             and EXECUTED on a DuckDB session (tools/props/c16_exec.py): output column names, nested field names, values
oracle     : the table of PySpark ColumnOrName positions is PySpark 3.5.9's own
             (tools/oracle/pyspark_colname_positions.json: ast of pyspark/sql/functions.py, each position
             confirmed on a live JVM; positions where PySpark itself makes a literal are excluded);
             names of struct fields and the list forms: tools/oracle/c16_pyspark_naming.json (live JVM; thorough: again)
"""
from __future__ import annotations

import collections
import json
import os
import sys
import typing as t
import warnings

import vlib
from vlib import Ctx, log

HERE = os.path.dirname(os.path.abspath(__file__))
sys.path.insert(0, HERE)

import c16_trace as T  # noqa: E402
import c16_exec as X  # noqa: E402

ID = "C16"
LEVEL = "proof"
MODULES = ["SqlframeModel.Props.C16"]
GEN = ["Functions"]
SOURCES = ["SqlframeModel/Props/C16.lean", "SqlframeModel/Impl/C16.lean"]

# names every run uses.  The first three are also run with EVERY argument variant (other arguments as names / Columns /
# Python numbers, one optional parameter left out); the others with the two basic variants (required arguments only / all).
#   c        one character, plain            a-b     not an identifier: reads as an expression if it is ever parsed as SQL
#   s.x      qualified (struct field / alias-qualified column): the column's own name is the LAST part
#   Col_1    upper-case letters (the session's dialect folds unquoted names)
#   `a.b`    quoted by the caller, a dot inside the name       select   a reserved word       1x   leading digit
FIXED_NAMES = ["c", "a-b", "s.x", "Col_1", "`a.b`", "select", "1x"]
ALL_VARIANT_NAMES = FIXED_NAMES[:3]
RESERVED = ["select", "from", "order", "group", "table", "case", "end", "null", "true", "in", "as", "by"]


def names_for(ctx: Ctx) -> t.List[str]:
    rng = ctx.rng
    letters = "abcdefghijklmnopqrstuvwxyz"
    out = list(FIXED_NAMES)

    def ident() -> str:
        s = rng.choice(letters) + "".join(rng.choice(letters + "ABCXYZ0123456789_") for _ in range(rng.randint(1, 7)))
        return "n_" + s  # never a keyword

    def odd() -> str:
        return "n" + rng.choice(letters) + rng.choice([" ", "-", "+", "/", " - ", "%"]) + rng.choice(letters) + rng.choice(letters)

    def part() -> str:
        k = rng.randint(0, 5)
        w = rng.choice(letters) + "".join(rng.choice(letters) for _ in range(rng.randint(0, 3)))
        if k == 0:
            return w
        if k == 1:
            return w.capitalize()
        if k == 2:
            return "`" + w + rng.choice([" ", ".", "-", "$"]) + rng.choice(letters) + "`"
        if k == 3:
            return "`" + w.upper() + "`"
        if k == 4:
            return rng.choice("123456789") + w
        return "`" + rng.choice(RESERVED) + "`"

    def qualified() -> str:
        return ".".join(part() for _ in range(rng.choice([1, 2, 2, 2, 3])))

    n_id, n_odd, n_q = (4, 4, 6) if ctx.thorough else (1, 1, 1)
    for _ in range(n_id):
        out.append(ident())
    for _ in range(n_odd):
        out.append(odd())
    for _ in range(n_q):
        out.append(qualified())
    if ctx.thorough:
        out += ["`my col`", "t.Ab", "`T`.`a b`", "a.b.c", "order", "x"]
    seen = set()
    return [n for n in out if not (n in seen or seen.add(n))]


# ------------------------------------------------------------------------------------------------
# the real implementation: direct comparison of the two argument forms
# ------------------------------------------------------------------------------------------------


def _sql_of(res: t.Any) -> str:
    from sqlframe.base.column import Column

    items = res if isinstance(res, (list, tuple)) else [res]
    parts = []
    for r in items:
        parts.append(r.sql() if isinstance(r, Column) else repr(r))
    return " ; ".join(parts)


def _dump(e: t.Any) -> t.Any:
    """the expression tree with every argument that the SQL text may not show (quoting flags, `_meta` display names)"""
    from sqlglot import exp

    if isinstance(e, exp.Expression):
        args = {k: _dump(v) for k, v in sorted(e.args.items()) if v is not None and v is not False and v != []}
        meta = getattr(e, "_meta", None)
        if meta:
            args["_meta"] = {str(k): repr(v) for k, v in sorted(meta.items())}
        return [type(e).__name__, args]
    if isinstance(e, (list, tuple)):
        return [_dump(x) for x in e]
    return repr(e)


def _observe(res: t.Any) -> t.Dict[str, str]:
    """what the check compares for one call: the SQL text, the whole tree, and the NAME the result goes by
    (its alias or column name, which a DataFrame takes as the name of the output column)"""
    from sqlframe.base.column import Column

    items = res if isinstance(res, (list, tuple)) else [res]
    trees, names = [], []
    for r in items:
        if isinstance(r, Column):
            trees.append(_dump(r.expression))
            try:
                names.append(r.alias_or_name)
            except Exception as e:  # noqa
                names.append(f"<{type(e).__name__}>")
        else:
            trees.append(repr(r))
            names.append(None)
    return {"sql": _sql_of(res), "tree": json.dumps(trees, sort_keys=True, default=str), "name": json.dumps(names)}


OBSERVABLES = ("sql", "name", "tree")


def compare_cell(F: t.Any, cell: dict, name: str, every_variant: bool = True) -> dict:
    """both forms under every distinct argument variant; `equal` = every usable variant gives the same SQL text, the
    same result name and the same tree; for a list form (`sub` 2 / 3) the reference is PySpark's meaning of it, the
    varargs call with col(name), and the list holding col(name) is compared as well;
    `meets` (informational only: format translation can hide the text) = equal, and the col(name) form's
    tree does not carry the name as a string literal"""
    out: dict = {"usable": 0, "equal": True, "meets": True, "variants": []}
    if cell.get("tgt") is None:
        return {"usable": 0, "equal": False, "meets": False, "variants": [{"variant": "-", "str_error": "no such parameter in sqlframe's signature"}]}
    ref = T.reference_cell(cell)
    for variant in T.variants_for(F, cell):
        if not every_variant and variant not in T.VARIANTS_BASE:
            continue
        with warnings.catch_warnings():
            warnings.simplefilter("ignore")
            try:
                col_res = T.call_cell(F, ref, F.col(name), variant)
                col_obs = _observe(col_res)
                col_outcome = T.tree_outcome(col_res, name)
            except Exception as e:  # noqa
                out["variants"].append({"variant": variant, "skipped": f"Column form fails: {type(e).__name__}: {str(e)[:80]}"})
                continue
            out["usable"] += 1
            v: dict = {"variant": variant, "col_sql": col_obs["sql"], "col_name": col_obs["name"], "col_form_mentions_name_as": col_outcome}
            forms = [("str", name)] + ([("listcol", F.col(name))] if ref is not cell else [])
            v["equal"] = True
            for label, value in forms:
                try:
                    obs = _observe(T.call_cell(F, cell, value, variant))
                    v[f"{label}_sql"] = obs["sql"]
                    v[f"{label}_name"] = obs["name"]
                    diff = [o for o in OBSERVABLES if obs[o] != col_obs[o]]
                    if diff:
                        v["equal"] = False
                        v.setdefault("differs_in", {})[label] = diff
                        if diff == ["tree"]:
                            v[f"{label}_tree"], v["col_tree"] = obs["tree"], col_obs["tree"]
                except Exception as e:  # noqa
                    v[f"{label}_error"] = f"{type(e).__name__}: {str(e)[:160]}"
                    v["equal"] = False
            if not v["equal"]:
                out["equal"] = False
            if not v["equal"] or col_outcome in ("literal", "both"):
                out["meets"] = False
            out["variants"].append(v)
    return out


def _cmp_job(segments: t.List[t.Tuple[str, t.List[str]]]) -> t.List[dict]:
    """one process, several (engine, names) segments one after the other: the second segment runs under another
    engine's session in a process that has already made the same name-only calls under the first engine (state that a
    function keeps from one call to the next - a memo, a cached helper - shows up as a difference)"""
    import logging

    logging.disable(logging.WARNING)
    rows = []
    for seg, (engine, names) in enumerate(segments):
        T.make_session(engine)
        F = T.functions_module(engine)
        for cell in T.cells_for(engine):
            for n in names:
                r = compare_cell(F, cell, n, every_variant=n in ALL_VARIANT_NAMES)
                rows.append({"f": cell["f"], "e": engine, "pos": cell["pos"], "sub": cell["sub"], "pname": cell["pname"], "name": n, "segment": seg, **r})
    return rows


def _trace_job(engine: str) -> t.List[dict]:
    import logging

    logging.disable(logging.WARNING)
    return T.trace_engine(engine)


def _job(job: t.Tuple) -> t.Tuple[str, t.Any]:
    kind = job[0]
    try:
        if kind == "cmp":
            return kind, _cmp_job(job[1])
        if kind == "trace":
            return kind, _trace_job(job[1])
        if kind == "exec":
            return kind, X.exec_job(job[1])
    except Exception as e:  # noqa
        import traceback

        return "error", f"{kind} {job[1] if kind != 'cmp' else [s[0] for s in job[1]]}: {type(e).__name__}: {e}\n{traceback.format_exc()[-800:]}"
    return "error", f"unknown job {kind}"


# engines ordered so that neighbours differ in size (a job = one engine's first half of the names, then the NEXT
# engine's second half)
ENGINE_RING = ["standalone", "duckdb", "spark", "postgres", "databricks", "bigquery", "redshift", "snowflake"]


def plan_jobs(names: t.List[str], exec_refs: t.List[str], exec_shards: int, exec_full: bool) -> t.List[t.Tuple]:
    assert sorted(ENGINE_RING) == sorted(T.ENGINES)
    half = (len(names) + 1) // 2
    first, second = names[:half], names[half:]
    # the second segment repeats the first name: the identical name-only call, now under another engine in a used process
    second = [names[0]] + [n for n in second if n != names[0]]
    jobs: t.List[t.Tuple] = []
    for i, e in enumerate(ENGINE_RING):
        jobs.append(("cmp", [(e, first), (ENGINE_RING[(i + 1) % len(ENGINE_RING)], second)]))
    for k in range(exec_shards):
        jobs.append(("exec", (k, exec_shards, exec_refs, exec_full)))
    for e in T.ENGINES:
        jobs.append(("trace", e))
    return jobs


def run_jobs(jobs: t.List[t.Tuple]) -> t.Tuple[t.List[dict], t.List[dict], t.List[dict], t.List[str]]:
    """(comparison rows, traced rows, exec results, errors); every job in a process of its own (the tracer patches classes)"""
    import multiprocessing as mp

    for e in T.ENGINES:  # import before forking (no connection is opened here)
        T.functions_module(e)
    workers = min(int(os.environ.get("VERIF_WORKERS", "8")), os.cpu_count() or 1, len(jobs))
    if workers <= 1:
        res = [_job(j) for j in jobs]
    else:
        with mp.get_context("fork").Pool(workers, maxtasksperchild=1) as pool:
            res = pool.map(_job, jobs, chunksize=1)
    rows: t.List[dict] = []
    traced: t.List[dict] = []
    execs: t.List[dict] = []
    errors: t.List[str] = []
    for kind, r in res:
        if kind == "cmp":
            rows.extend(r)
        elif kind == "trace":
            traced.extend(r)
        elif kind == "exec":
            execs.append(r)
        else:
            errors.append(str(r))
    return rows, traced, execs, errors


def one_cell(function: str, engine: str, position: int, sub: int, name: str, history: t.Optional[t.List] = None) -> t.Optional[dict]:
    """one cell, every argument variant; `history` = [[engine, names], …] the same cell is run under first (same process)"""
    for h_engine, h_names in history or []:
        T.make_session(h_engine)
        Fh = T.functions_module(h_engine)
        for cell in T.cells_for(h_engine):
            if cell["f"] == function and cell["pos"] == position and cell["sub"] == sub:
                for n in h_names:
                    compare_cell(Fh, cell, n)
    T.make_session(engine)
    F = T.functions_module(engine)
    for cell in T.cells_for(engine):
        if cell["f"] == function and cell["pos"] == position and cell["sub"] == sub:
            return {"f": function, "e": engine, "pos": position, "sub": sub, "name": name, **compare_cell(F, cell, name)}
    return None


# ------------------------------------------------------------------------------------------------


def local_known() -> t.Dict[str, dict]:
    known = {e["id"]: e for e in vlib.known_findings(ID)}
    path = os.path.join(HERE, "c16.known.json")
    if os.path.exists(path):
        for e in json.load(open(path)).get("findings", []):
            if e.get("property") == ID and e.get("status") == "open":
                known.setdefault(e["id"], e)
    return known


def first_diff(r: dict) -> dict:
    for v in r["variants"]:
        if v.get("equal") is False:
            return v
    for v in r["variants"]:
        if v.get("col_form_mentions_name_as") in ("literal", "both"):
            return v
    return r["variants"][0] if r["variants"] else {}


SUB_TEXT = {0: "first element of *cols", 1: "a later element of *cols", 2: "first element of ONE list argument", 3: "a later element of ONE list argument"}


def replay_dict(r: dict, model: t.Optional[dict], broken: t.List[str], history: t.Optional[t.List] = None) -> dict:
    v = first_diff(r)
    di = v.get("differs_in") or {}
    label = "listcol" if ("str_error" not in v and "str" not in di and ("listcol_error" in v or "listcol" in di)) else "str"
    d = {
        "kind": "a column name passed as a string does not give the expression col(name) gives (or neither form refers to the column)",
        "function": r["f"],
        "engine": r["e"],
        "position": r["pos"],
        "vararg_element": r["sub"],
        "element": SUB_TEXT.get(r["sub"]),
        "name": r["name"],
        "call": f"sqlframe.{r['e']}.functions.{r['f']}(… position {r['pos']} = {r['name']!r} …)  vs  … = col({r['name']!r})",
        "argument_variant": v.get("variant"),
        "differs_in": (v.get("differs_in") or {}).get(label) or ("the call with the string raises" if f"{label}_error" in v else None),
        "compared_form": "the name as a string" if label == "str" else "col(name) inside the list argument (PySpark: f([a, b]) is f(a, b))",
        "sql_with_string": v.get(f"{label}_sql", v.get(f"{label}_error")),
        "sql_with_col": v.get("col_sql"),
        "result_name_with_string": v.get(f"{label}_name"),
        "result_name_with_col": v.get("col_name"),
        "col_form_mentions_name_as": v.get("col_form_mentions_name_as"),
        "traced_coercion": model.get("coercion") if model else None,
        "model_predicts_equal": model.get("equal") if model else None,
        "violated_scope_hypotheses": model.get("scope") if model else None,
        "broken": broken,
    }
    if f"{label}_tree" in v:
        d["tree_with_string"], d["tree_with_col"] = v[f"{label}_tree"], v.get("col_tree")
    if history:
        d["process_history"] = history
    return d


def exec_replay_dict(x: dict, model: t.Optional[dict], broken: t.List[str]) -> dict:
    label = "str" if ("str_error" in x or "str" in (x.get("differs_in") or {})) else "listcol"
    return {
        "kind": "executed on DuckDB: select f(.., 'name', ..) and select f(.., col('name'), ..) differ in output column names or values",
        "stream": "exec",
        "function": x["f"],
        "engine": "duckdb",
        "position": x["pos"],
        "vararg_element": x["sub"],
        "element": SUB_TEXT.get(x["sub"]),
        "name": x["name"],
        "argument_variant": x["variant"],
        "typing": x["typing"],
        "table": "tools/props/c16_exec.py: Bench.frame(typing[0], typing[1]) read as session.sql('select * from …').alias('tq')",
        "differs_in": (x.get("differs_in") or {}).get(label) or "the select with the string raises",
        "columns_with_string": x.get(f"{label}_columns", x.get(f"{label}_error")),
        "columns_with_col": x.get("col_columns"),
        "rows_with_string": x.get(f"{label}_rows"),
        "rows_with_col": x.get("col_rows"),
        "statement_with_string": x.get(f"{label}_statement"),
        "statement_with_col": x.get("statement_with_col"),
        "violated_scope_hypotheses": model.get("scope") if model else None,
        "broken": broken,
    }


def _symbolic_struct(F: t.Any, session: t.Any, res: t.Any, args: t.List[str]) -> str:
    """the real result of struct(...) written the way the Lean model writes it, sqlglot's readings kept symbolic"""
    from sqlglot import exp

    e = res.column_expression
    if not isinstance(e, exp.Struct) or len(e.expressions) != len(args):
        return f"?not a struct of {len(args)} fields: {res.sql()}"
    parts = []
    for peq, nm in zip(e.expressions, args):
        if not isinstance(peq, exp.PropertyEQ):
            return f"?field is {type(peq).__name__}"
        resolved = F.col(nm)
        cand_res = exp.parse_identifier(resolved.alias_or_name, dialect=session.input_dialect)
        cand_raw = exp.parse_identifier(nm, dialect=session.input_dialect)
        got = peq.this.sql(dialect=session.input_dialect)
        if got == cand_res.sql(dialect=session.input_dialect):
            ident = f"identOf(aliasOf(col[{nm}]))"
        elif got == cand_raw.sql(dialect=session.input_dialect):
            ident = f"identOf({nm})"
        else:
            ident = f"?{got}"
        value = f"col[{nm}]" if peq.expression == resolved.column_expression and peq.expression.sql() == resolved.column_expression.sql() else f"?{peq.expression.sql()}"
        parts.append(f"PropertyEQ(Identifier('{ident}'), {value})")
    return "STRUCT(" + ", ".join(parts) + ")"


def exercise_model(ctx: Ctx, outs: t.List[dict]) -> dict:
    """the hand-written naming / unpacking model (through the driver) and the generated decisions behind it
    (Gen.structFieldName, Gen.unpackSites, Gen.autoAliasFromResultOnly, Gen.noAutoAlias) against the running code"""
    import re

    from sqlglot import exp

    stats = {"struct_forms": 0, "site_forms": 0, "aliases": 0}
    bad: t.List[str] = []
    if not outs:
        return stats
    sites = outs[0]["sites"]
    alias_info = outs[0]["auto_alias"]
    for engine in T.ENGINES:
        session = T.make_session(engine)
        F = T.functions_module(engine)
        with warnings.catch_warnings():
            warnings.simplefilter("ignore")
            # struct: model vs real tree
            if hasattr(F, "struct"):
                for o in outs:
                    n, m = o["name"], o["struct"]
                    forms = {
                        "varargs_str": lambda: F.struct(n, "c"), "list_str": lambda: F.struct([n, "c"]),
                        "varargs_col": lambda: F.struct(F.col(n), F.col("c")), "list_col": lambda: F.struct([F.col(n), F.col("c")]),
                    }
                    for form, call in forms.items():
                        try:
                            real = _symbolic_struct(F, session, call(), [n, "c"])
                        except Exception as e:  # noqa
                            real = None if type(e).__name__ in ("TypeError", "NameError", "ParseError", "ValueError", "AttributeError") else f"?{type(e).__name__}"
                        stats["struct_forms"] += 1
                        if real != m[form]:
                            bad.append(f"struct on {engine}, {form}, name {n!r}: real {real} / model {m[form]}")
            # unpacking sites: does the list form / the varargs form work
            for site in sites:
                if engine not in site["engines"] or not hasattr(F, site["api"]):
                    continue
                f = getattr(F, site["api"])
                for o in outs[:3]:
                    n = o["name"]
                    try:
                        ref = f(F.col(n), F.col("c")).sql()
                    except Exception:  # noqa
                        continue
                    forms = {"varargs_str": lambda: f(n, "c"), "list_str": lambda: f([n, "c"]), "list_col": lambda: f([F.col(n), F.col("c")])}
                    for form, call in forms.items():
                        try:
                            works = call().sql() == ref
                        except Exception:  # noqa
                            works = False
                        stats["site_forms"] += 1
                        if works != site[form]:
                            bad.append(f"unpacking site {site['impl']} ({site['api']} on {engine}), {form}, name {n!r}: real {'gives the varargs-with-col expression' if works else 'raises or differs'} / model {'unpacks' if site[form] else 'raises'}")
            # the automatic alias: where one is added it is <function>__<first identifier of the RESULT>__, never for the listed functions
            for cell in T.cells_for(engine):
                if cell["tgt"] is None or cell["sub"] != 0:
                    continue
                for n in ("c", "s.x"):
                    try:
                        res = T.call_cell(F, cell, n, "min")
                    except Exception:  # noqa
                        continue
                    from sqlframe.base.column import Column

                    if not isinstance(res, Column):
                        continue
                    stats["aliases"] += 1
                    if isinstance(res.expression, exp.Alias):
                        inner = res.column_expression
                        first = inner.find(exp.Identifier)
                        txt = first.name if first is not None else (inner.find(exp.Literal).this if inner.find(exp.Literal) is not None else "")
                        want = re.sub(r"\W", "_", f"{cell['f']}__{txt}__")
                        got = res.expression.args["alias"].name
                        by_wrapper = got.startswith(cell["f"] + "__")
                        if cell["f"] in alias_info["not_for"] and by_wrapper:
                            bad.append(f"automatic alias on {engine}: {cell['f']} is listed in noAutoAlias but its result is named {got!r}")
                        elif by_wrapper and got != want:
                            bad.append(f"automatic alias on {engine}: {cell['f']}({n!r}) is named {got!r}, the model (function name + first identifier of the result) says {want!r}")
    for b in bad[:6]:
        ctx.broken.append("correspondence (naming / unpacking model vs the running code): " + b)
    if len(bad) > 6:
        ctx.broken.append(f"… and {len(bad) - 6} more disagreements of the naming / unpacking model")
    stats["disagreements"] = len(bad)
    return stats


NAMING_ORACLE = os.path.join(os.path.dirname(HERE), "oracle", "c16_pyspark_naming.json")


def check_pyspark_naming(ctx: Ctx, exec_records: t.List[dict]) -> dict:
    """comparison C (PySpark <-> specification): the specification's field name of struct(<name>) — `identOf(aliasOf(col
    name))` with the real sqlglot readings — and the field name the executed col(name) form really produces on DuckDB,
    against what live PySpark 3.5.9 recorded for the same references (tools/oracle/c16_pyspark_naming.json; the
    thorough tier records again on a live JVM and compares).  Spelling is compared case-insensitively (C10's matter)."""
    from sqlglot import exp

    stats: dict = {"source": "recorded", "spec_vs_pyspark": 0, "executed_vs_pyspark": 0}
    oracle = json.load(open(NAMING_ORACLE))
    if ctx.thorough:
        import subprocess

        try:
            p = subprocess.run(
                ["/venv/bin/python", os.path.join(os.path.dirname(HERE), "oracle", "mk_c16_pyspark_naming.py"), "--check"],
                capture_output=True, text=True, timeout=600, env=dict(os.environ, PYSPARK_PYTHON="/venv/bin/python"),
            )
            if p.returncode == 0 and "same" in p.stdout:
                stats["source"] = "recorded, and recorded again on a live JVM in this run: same"
            elif "DIFFERENT" in p.stdout:
                ctx.broken.append("oracle: live PySpark no longer gives the recorded naming expectations (tools/oracle/c16_pyspark_naming.json)")
            else:
                stats["source"] = "recorded (the JVM did not start in this run)"
        except Exception as e:  # noqa
            stats["source"] = f"recorded (the JVM did not start in this run: {type(e).__name__})"
    bad = [k for k, v in oracle["refs"].items() if not (v["struct_forms_agree"] and v["array_forms_agree"] and v["array_result_name_agrees"] and v["create_map_forms_agree"])]
    m = oracle["map_concat_list_form"]
    if bad or not (m["list_str"] == m["varargs_str"] == m["list_col"]):
        ctx.broken.append(f"oracle: PySpark itself does not treat the forms alike for {bad} / map_concat — the specification is wrong")
    session = T.make_session("duckdb")
    F = T.functions_module("duckdb")
    for ref, v in oracle["refs"].items():
        want = [x.casefold() for x in v["struct_single_field"]]
        spec = exp.parse_identifier(F.col(ref).alias_or_name, dialect=session.input_dialect).name
        stats["spec_vs_pyspark"] += 1
        if [spec.casefold()] != want:
            ctx.broken.append(f"specification vs PySpark: struct({ref!r}) names its field {want} in PySpark 3.5.9, the specification (identifier of the reference's last part) says {spec!r}")
    for x in exec_records:
        if x["f"] == "struct" and x["sub"] == 0 and x["variant"] == "min" and "col_rows" in x and x["name"] in oracle["refs"]:
            try:
                first = json.loads(x["col_rows"])[0]["Row"][0][1]["Row"]
                got = [kv[0].casefold() for kv in first]
            except Exception:  # noqa
                continue
            stats["executed_vs_pyspark"] += 1
            want = [y.casefold() for y in oracle["refs"][x["name"]]["struct_single_field"]]
            if got != want:
                ctx.broken.append(f"executed col(name) form vs PySpark: struct(col({x['name']!r})) on DuckDB has fields {got}, PySpark 3.5.9 {want}")
    return stats


def exec_refs_for(ctx: Ctx) -> t.List[str]:
    refs = [u[1] for u in X.UNUSUAL]
    return refs if ctx.thorough else refs[:6]


def run(ctx: Ctx) -> None:
    T.install_stubs(vlib.REPO)
    idx = vlib.props_index()[ID]
    known = local_known()
    names = names_for(ctx)
    positions = json.load(open(T.ORACLE))
    exec_refs = exec_refs_for(ctx)

    # (A) the direct comparison (text, result name, tree) for every engine, (B) the tracer (the dynamic translator),
    # (C) the executed comparison on DuckDB - all on the unpatched code, every job in a process of its own
    jobs = plan_jobs(names, exec_refs, 4, ctx.thorough)
    rows, traced_rows, execs, errors = run_jobs(jobs)
    for e in errors:
        ctx.broken.append(f"a worker of the correspondence stream failed: {e[:600]}")
    history_of = {i: job[1] for i, job in enumerate(jobs) if job[0] == "cmp"}
    second_segment_history = {seg[1][0]: [list(seg[0])] for seg in history_of.values()}
    log(f"C16: direct comparison: {len(rows)} (cell, name) pairs, traced {len(traced_rows)}, executed {sum(len(x['records']) for x in execs)}, {ctx.elapsed():.1f}s")

    # (Gen) write Gen/Functions.lean from this run's trace; only the atomic replacement of the file is done under the
    # Lean lock (vlib.prove takes the lock itself for translate + lake build)
    traced: t.List[dict] = []
    try:
        if len({r["e"] for r in traced_rows}) != len(T.ENGINES):
            raise RuntimeError("not every engine was traced")
        text, traced = T.generate(vlib.REPO, None, traced_rows=traced_rows)
        path = os.path.join(vlib.GEN_DIR, "Functions.lean")
        with vlib.lean_lock():
            os.makedirs(vlib.GEN_DIR, exist_ok=True)
            old_text = open(path, encoding="utf-8").read() if os.path.exists(path) else None
            if old_text != text:
                tmp = path + f".{os.getpid()}.tmp"
                with open(tmp, "w", encoding="utf-8") as f:
                    f.write(text)
                os.replace(tmp, path)
    except Exception as e:  # noqa
        ctx.broken.append(f"Gen.Functions: the tracer failed: {type(e).__name__}: {str(e)[:300]}")
    unevaluable = list(T.UNEVALUABLE)
    log(f"C16: traced {len(traced)} cells, {ctx.elapsed():.1f}s")

    vlib.prove(ctx, MODULES, GEN, idx["theorems"], SOURCES)
    log(f"C16: proved, {ctx.elapsed():.1f}s; broken={ctx.broken}")

    # the model's prediction for the same cells and names
    model: t.Dict[t.Tuple, dict] = {}
    origin = None
    outs: t.List[dict] = []
    try:
        outs = vlib.run_driver(ID, [{"case": i, "name": n} for i, n in enumerate(names)])
        for o in outs:
            if "err" in o:
                raise RuntimeError(str(o))
            origin = o["origin"]
            for c in o["cells"]:
                model[(c["fn"], c["engine"], c["pos"], c["sub"], o["name"])] = c
    except Exception as e:  # noqa
        ctx.broken.append(f"driver C16 failed: {str(e)[:300]}")
    if origin is not None and origin != "traced":
        ctx.broken.append(f"Gen.Functions.cells is not this run's trace (origin={origin})")

    # the naming / unpacking model and the generated decisions behind it, exercised against the running code
    model_stats: dict = {}
    try:
        model_stats = exercise_model(ctx, outs if model else [])
    except Exception as e:  # noqa
        ctx.broken.append(f"exercising the naming / unpacking model failed: {type(e).__name__}: {str(e)[:300]}")

    traced_keys = {(r["f"], r["e"], r["pos"], r["sub"]) for r in traced}
    model_keys = {k[:4] for k in model}
    if model and traced_keys != model_keys:
        ctx.broken.append(f"the table the Lean side sees differs from this run's trace ({len(traced_keys ^ model_keys)} cells)")

    # classify
    mismatch_model = []
    failing = []
    unusable = []
    n_eval = 0
    nontrivial = set()
    variant_hist: t.Counter = collections.Counter()
    text_hidden = 0
    for r in rows:
        key = (r["f"], r["e"], r["pos"], r["sub"], r["name"])
        if r["usable"] == 0 and r["variants"] and all("skipped" in v for v in r["variants"]):
            unusable.append(r)
            continue
        n_eval += sum(1 for v in r["variants"] if "skipped" not in v)
        for v in r["variants"]:
            if "skipped" not in v:
                variant_hist[v["variant"].split(":")[0]] += 1
        m = model.get(key)
        v0 = next((v for v in r["variants"] if "col_sql" in v), None)
        if v0 and r["name"].strip("`").split("-")[0].split(" ")[0].split(".")[-1].strip("`").lower() in v0["col_sql"].lower():
            nontrivial.add(key)
        if m is not None and m["equal"] != r["equal"]:
            if m["coercion"] == "text" and r["equal"] and not m["equal"]:
                # a parameter read as a time FORMAT: the model's two string literals differ (C16_text_literal), but the
                # session's format translation, applied afterwards, is not injective (`hY` and `hy` both become `%I%Y`)
                text_hidden += 1
            else:
                mismatch_model.append((r, m))
        if not r["equal"]:
            failing.append((r, m))
    if mismatch_model:
        ctx.broken.append(
            f"correspondence (direct comparison vs traced table / Impl/C16.lean): {len(mismatch_model)} of {len(rows)} (cell, name) pairs differ; first: "
            + json.dumps({k: mismatch_model[0][0][k] for k in ("f", "e", "pos", "sub", "name")})
            + f" real equal/meets={mismatch_model[0][0]['equal']}/{mismatch_model[0][0]['meets']} model equal/meets={mismatch_model[0][1]['equal']}/{mismatch_model[0][1]['meets']} ({mismatch_model[0][1]['coercion']})"
        )

    new_viol = []
    known_cells: t.Dict[str, set] = collections.defaultdict(set)
    for r, m in failing:
        if m is not None and m["equal"] is False and m["scope"] and all(h in known for h in m["scope"]):
            for h in m["scope"]:
                known_cells[h].add((r["f"], r["e"], r["pos"]))
        else:
            new_viol.append((r, m))

    # the executed comparison
    exec_records = [x for res in execs for x in res["records"]]
    exec_failing = []
    exec_ok = 0
    exec_cells = set()
    for x in exec_records:
        if "skipped" in x:
            continue
        exec_cells.add((x["f"], x["pos"], x["sub"]))
        if x.get("equal"):
            exec_ok += 1
            continue
        m = model.get((x["f"], "duckdb", x["pos"], x["sub"], names[0]))
        if m is not None and m["scope"] and all(h in known for h in m["scope"]):
            for h in m["scope"]:
                known_cells[h].add((x["f"], "duckdb", x["pos"]))
        else:
            exec_failing.append((x, m))
    typing_found: t.Dict[str, t.Any] = {}
    for res in execs:
        typing_found.update(res["typing"])

    naming_stats: dict = {}
    try:
        naming_stats = check_pyspark_naming(ctx, exec_records)
    except Exception as e:  # noqa
        ctx.broken.append(f"the PySpark naming oracle could not be applied: {type(e).__name__}: {str(e)[:300]}")

    for h in sorted(known_cells):
        vlib.report_known(ctx, known[h], f"{known[h]['summary']} [{len(known_cells[h])} cells fail in this run]")

    # replay the recorded witnesses of open known findings on the real code
    for h, e in known.items():
        w = e.get("witness") or {}
        if {"function", "engine", "position", "name"} <= set(w):
            r = one_cell(w["function"], w["engine"], w["position"], w.get("vararg_element", 0), w["name"])
            if r is not None and not r["equal"]:
                vlib.report_known(ctx, e, f"{e['summary']} [{len(known_cells.get(h, ()))} cells fail in this run]")

    # new violations: report the simplest failing (cell, name) per cell, a few of them
    by_cell: t.Dict[t.Tuple, t.List] = collections.defaultdict(list)
    for r, m in new_viol:
        by_cell[(r["f"], r["e"], r["pos"], r["sub"])].append((r, m))
    reported = 0
    for cell_key in sorted(by_cell)[:5]:
        cands = sorted(by_cell[cell_key], key=lambda rm: (rm[0].get("segment", 0), names.index(rm[0]["name"])))
        r, m = cands[0]
        history = second_segment_history.get(r["e"]) if r.get("segment") == 1 else None
        vlib.report_violation(ctx, replay_dict(r, m, ctx.broken, history))
        reported += 1
    exec_by_cell: t.Dict[t.Tuple, t.List] = collections.defaultdict(list)
    for x, m in exec_failing:
        exec_by_cell[(x["f"], x["pos"], x["sub"])].append((x, m))
    for cell_key in sorted(exec_by_cell)[:3]:
        x, m = sorted(exec_by_cell[cell_key], key=lambda xm: (exec_refs.index(xm[0]["name"]), xm[0]["variant"]))[0]
        vlib.report_violation(ctx, exec_replay_dict(x, m, ctx.broken))
        reported += 1
    if ctx.broken and not reported:
        vlib.report_violation(
            ctx,
            {
                "kind": "proof obligation or correspondence no longer checks; no failing input found",
                "broken": ctx.broken,
                "searched": {"cells": len(traced_keys), "names": names, "pairs": len(rows), "executed": len(exec_records)},
            },
            no_input=True,
        )

    hist = collections.Counter(r["coercion"] for r in traced)
    per_engine = collections.Counter(r["e"] for r in traced)
    pos_all = [(f, p) for f, v in positions["functions"].items() for p in v["params"] if p["colname"]]
    in_scope = sum(1 for k in model_keys if not model[(*k, names[0])]["scope"]) if model else 0
    samples = []
    for r in rows[:: max(1, len(rows) // 5)][:5]:
        v = next((v for v in r["variants"] if "col_sql" in v), {})
        samples.append({"function": r["f"], "engine": r["e"], "position": r["pos"], "element": r["sub"], "name": r["name"], "variant": v.get("variant"), "sql_with_string": v.get("str_sql", v.get("str_error")), "sql_with_col": v.get("col_sql"), "result_name": v.get("col_name"), "equal": r["equal"], "meets": r["meets"]})
    for r, m in failing[:2]:
        v = first_diff(r)
        samples.append({"function": r["f"], "engine": r["e"], "position": r["pos"], "element": r["sub"], "name": r["name"], "variant": v.get("variant"), "sql_with_string": v.get("str_sql", v.get("str_error")), "sql_with_col": v.get("col_sql"), "equal": False, "scope": m["scope"] if m else None})
    exec_samples = [{k: x.get(k) for k in ("f", "pos", "sub", "variant", "name", "typing", "col_columns", "col_rows", "equal")} for x in [y for y in exec_records if "skipped" not in y][:: max(1, len(exec_records) // 4)][:4]]
    ctx.cov.update(
        {
            "evaluations": n_eval + 2 * (exec_ok + len(exec_failing)),
            "distinct_nontrivial": len(nontrivial),
            "rule": "every (function, engine, PySpark ColumnOrName position[, first/later element of *cols, also inside ONE list argument where PySpark documents the list form]) cell of every engine module x the names below x the argument variants "
            "(required arguments only / every parameter; for the first three names also: every other ColumnOrName argument by name / as a Column / as a Python number where PySpark documents it, each optional parameter left out), typed dummy values elsewhere; "
            "compared: SQL text, the result's name (alias_or_name), the whole tree incl. quoting flags and display names; "
            "non-trivial = distinct (cell, name) whose col(name) form is callable and whose SQL text mentions the name's last part",
            "exhaustive": True,
            "names": names,
            "names_run_with_every_argument_variant": ALL_VARIANT_NAMES,
            "variant_histogram": dict(variant_hist),
            "cells": len(traced_keys),
            "list_form_cells": sum(1 for k in traced_keys if k[3] >= 2),
            "in_scope_cells": in_scope,
            "cells_per_engine": dict(per_engine),
            "coercion_histogram": dict(hist),
            "pairs_compared": len(rows) - len(unusable),
            "pairs_failing": len(failing),
            "pairs_failing_listed": len(failing) - len(new_viol),
            "naming_and_unpacking_model_vs_code": model_stats,
            "pyspark_naming_oracle": naming_stats,
            "second_segments": "each engine's second half of the names (and the first name again) runs in a process that made the same calls under another engine before",
            "traces_validated_against_impl": len(rows) - len(unusable) - len(mismatch_model),
            "format_cells_where_translation_hides_the_difference": text_hidden,
            "executed_on_duckdb": {
                "references": exec_refs,
                "what_is_unusual": {u[1]: u[2] for u in X.UNUSUAL if u[1] in exec_refs},
                "cells_executed": len(exec_cells),
                "cell_variants_with_a_typing": sum(1 for v in typing_found.values() if v != "none"),
                "cell_variants_without": sorted(k for k, v in typing_found.items() if v == "none"),
                "records_equal": exec_ok,
                "records_failing": len(exec_failing),
                "records_skipped_column_form_does_not_run": sum(1 for x in exec_records if "skipped" in x),
                "compared": "df.columns, nested Row field names, all row values (bag of 3 rows incl. a NULL row)",
                "samples": exec_samples,
            },
            "pyspark_positions": {
                "source": positions["source"],
                "pyspark_version": positions["pyspark_version"],
                "functions": len(positions["functions"]),
                "colname_positions": len(pos_all),
                "jvm_confirmation": positions.get("jvm_confirmation"),
                "excluded_because_pyspark_makes_a_literal": [[f, p["index"], p["name"]] for f, p in pos_all if p.get("jvm") == "literal"],
            },
            "unevaluable_cells": [{"function": r["f"], "engine": r["e"], "position": r["pos"], "element": r["sub"], "why": r["detail"]} for r in unevaluable],
            "known_cells": {h: sorted(map(list, v)) for h, v in known_cells.items()},
            "samples": samples,
        }
    )
    ctx.assumptions += [
        "PySpark's ColumnOrName positions are those whose annotation in pyspark/sql/functions.py (3.5.9) mentions ColumnOrName and for which a live JVM built an UnresolvedAttribute from a string (recorded once in tools/oracle/pyspark_colname_positions.json); the list form f([a, b]) is claimed where that annotation names List[...]",
        "sqlglot's parser is abstract in the theorems (`parse`, `aliasOf`, `identOf`); the driver's stand-in (identifier-like text = a column reference) is validated by the direct comparison on every `parsed` / `text` cell",
        "engine sessions are the real session classes over stub driver modules and a fake DB-API connection; function bodies only read the session's dialects and `_is_<engine>` flags",
        "other arguments are typed dummy values (argument variants as listed); a cell whose col(name) form cannot be called with them is listed under unevaluable_cells and not claimed",
        "executed comparison: only cells for which some typing of the table makes the Column form run (found by search, hints in tools/oracle/c16_exec_typing.json) are executed; the others are covered by the text/name/tree comparison only",
    ]


def replay(ctx: Ctx, rp: dict) -> None:
    T.install_stubs(vlib.REPO)
    if "function" not in rp:
        print("replay names a broken obligation, not an input:", rp.get("broken"))
        return
    if rp.get("stream") == "exec":
        x = X.one(rp["function"], rp["position"], rp.get("vararg_element", 0), rp["argument_variant"], rp["name"], rp["typing"])
        print(json.dumps(x, indent=1))
        if x is None:
            print("the cell no longer exists")
        elif x.get("equal") is False:
            vlib.report_violation(ctx, dict(rp, **{k: v for k, v in exec_replay_dict(x, None, []).items() if k.startswith(("columns_", "rows_"))}))
        return
    r = one_cell(rp["function"], rp["engine"], rp["position"], rp.get("vararg_element", 0), rp["name"], rp.get("process_history"))
    print(json.dumps(r, indent=1))
    if r is None:
        print("the cell no longer exists")
        return
    if not r["equal"]:
        vlib.report_violation(ctx, dict(rp, **{k: v for k, v in replay_dict(r, None, []).items() if k.startswith(("sql_", "result_name_"))}))
