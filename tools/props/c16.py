"""
C16 — functions accept a column name wherever PySpark does, with the same meaning.

proof      : lean/SqlframeModel/Props/C16.lean — C16_lift (every name, every context) + C16_table_check
             (`decide +kernel` over the regenerated table Gen.cells) => C16_table_partial / C16_partial
tie        : Gen/Functions.lean = static decisions (tools/gen_c16.py, ast) + the cell table traced on every
             run from the real functions of every engine (tools/props/c16_trace.py, a DYNAMIC translator)
search     : the direct comparison  sql(f(..,'name',..)) == sql(f(..,col('name'),..))  for the WHOLE table on
             every engine (exhaustive over the finite part; doubles as the check of the tracer), for
             several names, against the Lean driver's prediction for the same cells
oracle     : the table of PySpark ColumnOrName positions is PySpark 3.5.9's own
             (tools/oracle/pyspark_colname_positions.json: ast of pyspark/sql/functions.py, each position
             confirmed on a live JVM; positions where PySpark itself makes a literal are excluded)
"""
from __future__ import annotations

import collections
import json
import os
import sys
import typing as t
import warnings

import vlib
from vlib import Ctx, log

HERE = os.path.dirname(os.path.abspath(__file__))
sys.path.insert(0, HERE)

import c16_trace as T  # noqa: E402

ID = "C16"
LEVEL = "proof"
MODULES = ["SqlframeModel.Props.C16"]
GEN = ["Functions"]
SOURCES = ["SqlframeModel/Props/C16.lean", "SqlframeModel/Impl/C16.lean"]

FIXED_NAMES = ["c", "a-b", "Col_1"]


def names_for(ctx: Ctx) -> t.List[str]:
    rng = ctx.rng
    letters = "abcdefghijklmnopqrstuvwxyz"
    out = list(FIXED_NAMES)

    def ident() -> str:
        s = rng.choice(letters) + "".join(rng.choice(letters + "ABCXYZ0123456789_") for _ in range(rng.randint(1, 7)))
        return "n_" + s  # never a keyword

    def odd() -> str:
        return "n" + rng.choice(letters) + rng.choice([" ", "-", "+", "/", " - ", "%"]) + rng.choice(letters) + rng.choice(letters)

    n_id, n_odd = (4, 4) if ctx.thorough else (1, 1)
    for _ in range(n_id):
        out.append(ident())
    for _ in range(n_odd):
        out.append(odd())
    seen = set()
    return [n for n in out if not (n in seen or seen.add(n))]


# ------------------------------------------------------------------------------------------------
# the real implementation: direct comparison of the two argument forms
# ------------------------------------------------------------------------------------------------


def _sql_of(res: t.Any) -> str:
    from sqlframe.base.column import Column

    items = res if isinstance(res, (list, tuple)) else [res]
    parts = []
    for r in items:
        parts.append(r.sql() if isinstance(r, Column) else repr(r))
    return " ; ".join(parts)


def compare_cell(F: t.Any, cell: dict, name: str) -> dict:
    """both forms, both argument variants; `equal` = every usable variant gives the same SQL text;
    `meets` (informational only: format translation can hide the text) = equal, and the col(name) form's
    tree does not carry the name as a string literal"""
    out: dict = {"usable": 0, "equal": True, "meets": True, "variants": []}
    if cell.get("tgt") is None:
        return {"usable": 0, "equal": False, "meets": False, "variants": [{"variant": "-", "str_error": "no such parameter in sqlframe's signature"}]}
    for variant in ("min", "full"):
        with warnings.catch_warnings():
            warnings.simplefilter("ignore")
            try:
                col_res = T.call_cell(F, cell, F.col(name), variant)
                col_sql = _sql_of(col_res)
                col_outcome = T.tree_outcome(col_res, name)
            except Exception as e:  # noqa
                out["variants"].append({"variant": variant, "skipped": f"Column form fails: {type(e).__name__}: {str(e)[:80]}"})
                continue
            out["usable"] += 1
            v: dict = {"variant": variant, "col_sql": col_sql, "col_form_mentions_name_as": col_outcome}
            try:
                v["str_sql"] = _sql_of(T.call_cell(F, cell, name, variant))
                v["equal"] = v["str_sql"] == col_sql
            except Exception as e:  # noqa
                v["str_error"] = f"{type(e).__name__}: {str(e)[:160]}"
                v["equal"] = False
            if not v["equal"]:
                out["equal"] = False
            if not v["equal"] or col_outcome in ("literal", "both"):
                out["meets"] = False
            out["variants"].append(v)
    return out


def _engine_job(arg: t.Tuple[str, t.List[str]]) -> t.List[dict]:
    engine, names = arg
    import logging

    logging.disable(logging.WARNING)
    T.make_session(engine)
    F = T.functions_module(engine)
    rows = []
    for cell in T.cells_for(engine):
        for n in names:
            r = compare_cell(F, cell, n)
            rows.append({"f": cell["f"], "e": engine, "pos": cell["pos"], "sub": cell["sub"], "pname": cell["pname"], "name": n, **r})
    return rows


def direct_comparison(names: t.List[str]) -> t.List[dict]:
    import multiprocessing as mp

    jobs = [(e, names) for e in T.ENGINES]
    workers = min(int(os.environ.get("VERIF_WORKERS", "8")), os.cpu_count() or 1, len(jobs))
    if workers <= 1:
        res = [_engine_job(j) for j in jobs]
    else:
        with mp.get_context("fork").Pool(workers) as pool:
            res = pool.map(_engine_job, jobs, chunksize=1)
    return [r for rows in res for r in rows]


def one_cell(function: str, engine: str, position: int, sub: int, name: str) -> t.Optional[dict]:
    T.make_session(engine)
    F = T.functions_module(engine)
    for cell in T.cells_for(engine):
        if cell["f"] == function and cell["pos"] == position and cell["sub"] == sub:
            return {"f": function, "e": engine, "pos": position, "sub": sub, "name": name, **compare_cell(F, cell, name)}
    return None


# ------------------------------------------------------------------------------------------------


def local_known() -> t.Dict[str, dict]:
    known = {e["id"]: e for e in vlib.known_findings(ID)}
    path = os.path.join(HERE, "c16.known.json")
    if os.path.exists(path):
        for e in json.load(open(path)).get("findings", []):
            if e.get("property") == ID and e.get("status") == "open":
                known.setdefault(e["id"], e)
    return known


def first_diff(r: dict) -> dict:
    for v in r["variants"]:
        if v.get("equal") is False:
            return v
    for v in r["variants"]:
        if v.get("col_form_mentions_name_as") in ("literal", "both"):
            return v
    return r["variants"][0] if r["variants"] else {}


def replay_dict(r: dict, model: t.Optional[dict], broken: t.List[str]) -> dict:
    v = first_diff(r)
    return {
        "kind": "a column name passed as a string does not give the expression col(name) gives (or neither form refers to the column)",
        "function": r["f"],
        "engine": r["e"],
        "position": r["pos"],
        "vararg_element": r["sub"],
        "name": r["name"],
        "call": f"sqlframe.{r['e']}.functions.{r['f']}(… position {r['pos']} = {r['name']!r} …)  vs  … = col({r['name']!r})",
        "argument_variant": v.get("variant"),
        "sql_with_string": v.get("str_sql", v.get("str_error")),
        "sql_with_col": v.get("col_sql"),
        "col_form_mentions_name_as": v.get("col_form_mentions_name_as"),
        "traced_coercion": model.get("coercion") if model else None,
        "model_predicts_equal": model.get("equal") if model else None,
        "violated_scope_hypotheses": model.get("scope") if model else None,
        "broken": broken,
    }


def run(ctx: Ctx) -> None:
    T.install_stubs(vlib.REPO)
    idx = vlib.props_index()[ID]
    known = local_known()
    names = names_for(ctx)
    positions = json.load(open(T.ORACLE))

    # (A) the direct comparison on the unpatched code, every engine in its own process
    rows = direct_comparison(names)
    log(f"C16: direct comparison: {len(rows)} (cell, name) pairs, {ctx.elapsed():.1f}s")

    # (Gen) dynamic translator: trace the real functions, write Gen/Functions.lean
    # the tracer itself (seconds of pure Python) runs OUTSIDE the Lean lock; only the atomic replacement of
    # Gen/Functions.lean is done under it (vlib.prove takes the lock itself for translate + lake build)
    traced: t.List[dict] = []
    try:
        text, traced = T.generate(vlib.REPO, None)
        path = os.path.join(vlib.GEN_DIR, "Functions.lean")
        with vlib.lean_lock():
            os.makedirs(vlib.GEN_DIR, exist_ok=True)
            old_text = open(path, encoding="utf-8").read() if os.path.exists(path) else None
            if old_text != text:
                tmp = path + f".{os.getpid()}.tmp"
                with open(tmp, "w", encoding="utf-8") as f:
                    f.write(text)
                os.replace(tmp, path)
    except Exception as e:  # noqa
        ctx.broken.append(f"Gen.Functions: the tracer failed: {type(e).__name__}: {str(e)[:300]}")
    unevaluable = list(T.UNEVALUABLE)
    log(f"C16: traced {len(traced)} cells, {ctx.elapsed():.1f}s")

    vlib.prove(ctx, MODULES, GEN, idx["theorems"], SOURCES)
    log(f"C16: proved, {ctx.elapsed():.1f}s; broken={ctx.broken}")

    # the model's prediction for the same cells and names
    model: t.Dict[t.Tuple, dict] = {}
    origin = None
    try:
        outs = vlib.run_driver(ID, [{"case": i, "name": n} for i, n in enumerate(names)])
        for o in outs:
            if "err" in o:
                raise RuntimeError(str(o))
            origin = o["origin"]
            for c in o["cells"]:
                model[(c["fn"], c["engine"], c["pos"], c["sub"], o["name"])] = c
    except Exception as e:  # noqa
        ctx.broken.append(f"driver C16 failed: {str(e)[:300]}")
    if origin is not None and origin != "traced":
        ctx.broken.append(f"Gen.Functions.cells is not this run's trace (origin={origin})")

    traced_keys = {(r["f"], r["e"], r["pos"], r["sub"]) for r in traced}
    model_keys = {k[:4] for k in model}
    if model and traced_keys != model_keys:
        ctx.broken.append(f"the table the Lean side sees differs from this run's trace ({len(traced_keys ^ model_keys)} cells)")

    # classify
    mismatch_model = []
    failing = []
    unusable = []
    n_eval = 0
    nontrivial = set()
    for r in rows:
        key = (r["f"], r["e"], r["pos"], r["sub"], r["name"])
        if r["usable"] == 0 and r["variants"] and all("skipped" in v for v in r["variants"]):
            unusable.append(r)
            continue
        n_eval += sum(1 for v in r["variants"] if "skipped" not in v)
        m = model.get(key)
        v0 = next((v for v in r["variants"] if "col_sql" in v), None)
        if v0 and r["name"].split("-")[0].split(" ")[0].lower() in v0["col_sql"].lower():
            nontrivial.add(key)
        if m is not None and m["equal"] != r["equal"]:
            mismatch_model.append((r, m))
        if not r["equal"]:
            failing.append((r, m))
    if mismatch_model:
        ctx.broken.append(
            f"correspondence (direct comparison vs traced table / Impl/C16.lean): {len(mismatch_model)} of {len(rows)} (cell, name) pairs differ; first: "
            + json.dumps({k: mismatch_model[0][0][k] for k in ("f", "e", "pos", "sub", "name")})
            + f" real equal/meets={mismatch_model[0][0]['equal']}/{mismatch_model[0][0]['meets']} model equal/meets={mismatch_model[0][1]['equal']}/{mismatch_model[0][1]['meets']} ({mismatch_model[0][1]['coercion']})"
        )

    new_viol = []
    known_cells: t.Dict[str, set] = collections.defaultdict(set)
    for r, m in failing:
        if m is not None and m["equal"] is False and m["scope"] and all(h in known for h in m["scope"]):
            for h in m["scope"]:
                known_cells[h].add((r["f"], r["e"], r["pos"]))
        else:
            new_viol.append((r, m))
    for h in sorted(known_cells):
        vlib.report_known(ctx, known[h], f"{known[h]['summary']} [{len(known_cells[h])} cells fail in this run]")

    # replay the recorded witnesses of open known findings on the real code
    for h, e in known.items():
        w = e.get("witness") or {}
        if {"function", "engine", "position", "name"} <= set(w):
            r = one_cell(w["function"], w["engine"], w["position"], w.get("vararg_element", 0), w["name"])
            if r is not None and not r["equal"]:
                vlib.report_known(ctx, e, f"{e['summary']} [{len(known_cells.get(h, ()))} cells fail in this run]")

    # new violations: report the simplest failing (cell, name) per cell, a few of them
    by_cell: t.Dict[t.Tuple, t.List] = collections.defaultdict(list)
    for r, m in new_viol:
        by_cell[(r["f"], r["e"], r["pos"], r["sub"])].append((r, m))
    reported = 0
    for cell_key in sorted(by_cell)[:5]:
        cands = sorted(by_cell[cell_key], key=lambda rm: (names.index(rm[0]["name"])))
        r, m = cands[0]
        vlib.report_violation(ctx, replay_dict(r, m, ctx.broken))
        reported += 1
    if ctx.broken and not reported:
        vlib.report_violation(
            ctx,
            {
                "kind": "proof obligation or correspondence no longer checks; no failing input found",
                "broken": ctx.broken,
                "searched": {"cells": len(traced_keys), "names": names, "pairs": len(rows)},
            },
            no_input=True,
        )

    hist = collections.Counter(r["coercion"] for r in traced)
    per_engine = collections.Counter(r["e"] for r in traced)
    pos_all = [(f, p) for f, v in positions["functions"].items() for p in v["params"] if p["colname"]]
    in_scope = sum(1 for k in model_keys if not model[(*k, names[0])]["scope"]) if model else 0
    samples = []
    for r in rows[:: max(1, len(rows) // 5)][:5]:
        v = next((v for v in r["variants"] if "col_sql" in v), {})
        samples.append({"function": r["f"], "engine": r["e"], "position": r["pos"], "name": r["name"], "sql_with_string": v.get("str_sql", v.get("str_error")), "sql_with_col": v.get("col_sql"), "equal": r["equal"], "meets": r["meets"]})
    for r, m in failing[:2]:
        v = first_diff(r)
        samples.append({"function": r["f"], "engine": r["e"], "position": r["pos"], "name": r["name"], "sql_with_string": v.get("str_sql", v.get("str_error")), "sql_with_col": v.get("col_sql"), "equal": False, "scope": m["scope"] if m else None})
    ctx.cov.update(
        {
            "evaluations": n_eval,
            "distinct_nontrivial": len(nontrivial),
            "rule": "every (function, engine, PySpark ColumnOrName position[, first/later element of *cols]) cell of every engine module x the names below x two argument variants (required arguments only / every parameter), typed dummy values elsewhere; "
            "non-trivial = distinct (cell, name) whose col(name) form is callable and whose SQL text mentions the name",
            "exhaustive": True,
            "names": names,
            "cells": len(traced_keys),
            "in_scope_cells": in_scope,
            "cells_per_engine": dict(per_engine),
            "coercion_histogram": dict(hist),
            "pairs_compared": len(rows) - len(unusable),
            "pairs_failing": len(failing),
            "pairs_failing_listed": len(failing) - len(new_viol),
            "traces_validated_against_impl": len(rows) - len(unusable) - len(mismatch_model),
            "pyspark_positions": {
                "source": positions["source"],
                "pyspark_version": positions["pyspark_version"],
                "functions": len(positions["functions"]),
                "colname_positions": len(pos_all),
                "jvm_confirmation": positions.get("jvm_confirmation"),
                "excluded_because_pyspark_makes_a_literal": [[f, p["index"], p["name"]] for f, p in pos_all if p.get("jvm") == "literal"],
            },
            "unevaluable_cells": [{"function": r["f"], "engine": r["e"], "position": r["pos"], "element": r["sub"], "why": r["detail"]} for r in unevaluable],
            "known_cells": {h: sorted(map(list, v)) for h, v in known_cells.items()},
            "samples": samples,
        }
    )
    ctx.assumptions += [
        "PySpark's ColumnOrName positions are those whose annotation in pyspark/sql/functions.py (3.5.9) mentions ColumnOrName and for which a live JVM built an UnresolvedAttribute from a string (recorded once in tools/oracle/pyspark_colname_positions.json)",
        "sqlglot's parser is abstract in the theorems (`parse`); the driver's stand-in (identifier-like text = a column reference) is validated by the direct comparison on every `parsed` cell",
        "engine sessions are the real session classes over stub driver modules and a fake DB-API connection; function bodies only read the session's dialects and `_is_<engine>` flags",
        "other arguments are typed dummy values (two variants); a cell whose col(name) form cannot be called with them is listed under unevaluable_cells and not claimed",
    ]


def replay(ctx: Ctx, rp: dict) -> None:
    T.install_stubs(vlib.REPO)
    if "function" not in rp:
        print("replay names a broken obligation, not an input:", rp.get("broken"))
        return
    r = one_cell(rp["function"], rp["engine"], rp["position"], rp.get("vararg_element", 0), rp["name"])
    print(json.dumps(r, indent=1))
    if r is None:
        print("the cell no longer exists")
        return
    if not r["equal"]:
        vlib.report_violation(ctx, dict(rp, **{k: v for k, v in replay_dict(r, None, []).items() if k.startswith("sql_")}))
