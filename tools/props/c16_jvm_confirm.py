"""
c16_jvm_confirm.py — one-time oracle recording for C16 (used by tools/oracle/mk_pyspark_colname_positions.py --jvm).

For every position of pyspark.sql.functions whose annotation mentions ColumnOrName, call the REAL PySpark
3.5.9 function on a live JVM with a unique string there (typed dummies elsewhere) and read the unresolved
Catalyst expression: `'zq_tracer` (UnresolvedAttribute) means PySpark took the string as a column NAME,
a bare `zq_tracer` means PySpark itself turned it into a literal (e.g. from_utc_timestamp's tz,
schema_of_json's json).  Positions where PySpark makes a literal are not C16 positions.
"""
from __future__ import annotations

import inspect
import os
import re
import sys
import typing as t

HERE = os.path.dirname(os.path.abspath(__file__))
sys.path.insert(0, HERE)

TR = "zq_tracer"


def confirm(out: t.Dict[str, t.Any]) -> None:
    os.environ.setdefault("PYSPARK_PYTHON", "/venv/bin/python")
    from pyspark.sql import SparkSession
    from pyspark.sql import functions as F

    import c16_trace as T

    spark = SparkSession.builder.master("local[1]").config("spark.ui.enabled", "false").getOrCreate()
    spark.sparkContext.setLogLevel("ERROR")
    n = {"attribute": 0, "literal": 0, "error": 0, "absent": 0}
    for fname, entry in sorted(out["functions"].items()):
        f = getattr(F, fname, None)
        if f is None:
            continue
        try:
            sig = inspect.signature(f)
        except (TypeError, ValueError):
            continue
        for pp in entry["params"]:
            if not pp["colname"]:
                continue
            tgt = T.target_param(sig, pp)
            if tgt is None:
                pp["jvm"] = "error:no-parameter"
                continue
            verdicts = []
            for sub in ([0, 1] if tgt.kind is inspect.Parameter.VAR_POSITIONAL else [0]):
                for variant in ("min", "full"):
                    try:
                        args, kwargs = T.build_call(F, fname, sig, tgt, sub, TR, variant)
                        res = f(*args, **kwargs)
                        s = res._jc.expr().toString()
                        if re.search(r"'" + TR + r"\b", s):
                            verdicts.append("attribute")
                        elif TR in s:
                            verdicts.append("literal")
                        else:
                            verdicts.append("absent")
                    except Exception as e:  # noqa
                        verdicts.append("error:" + type(e).__name__)
            good = [v for v in verdicts if not v.startswith("error")]
            if good and all(v == "attribute" for v in good):
                pp["jvm"] = "attribute"
            elif "literal" in good:
                pp["jvm"] = "literal"
            elif good:
                pp["jvm"] = "absent"
            else:
                pp["jvm"] = verdicts[0]
            pp["jvm_runs"] = verdicts
            n["attribute" if pp["jvm"] == "attribute" else "literal" if pp["jvm"] == "literal" else "absent" if pp["jvm"] == "absent" else "error"] += 1
    out["jvm_confirmation"] = {"counts": n, "how": "res._jc.expr().toString() searched for 'zq_tracer (UnresolvedAttribute) vs zq_tracer (Literal)"}
    spark.stop()
