"""
C18 — a pipeline's meaning does not depend on session history; its SQL is reproducible.

proof      : lean/SqlframeModel/Props/C18.lean (C18_alias_scope, C18_history by induction over interleavings,
             C18_failed_action_no_state, C18_readonly_no_objects, C18_text + counterexample theorems) over the
             regenerated Gen.SessionIds / Gen.Views
tie        : the correspondence stream runs programs P interleaved with other work H on real sqlframe + DuckDB with
             `normalize`'s two lookups instrumented, and replays the same events on the Lean model
             (Impl/C18Session.lean): registry contents after every statement, every identifier after normalisation,
             the catalog columns every SQL statement is qualified against
search     : the same stream compares P's rows / columns / errors (and lookup outcomes) after H with P alone, the SQL
             text of P in two fresh interpreters, and catalog.listTables() around read-only actions
state that travels from H to P, and how each kind is explored:
  session registries          ids, alias map, counter, temp views, catalog column cache (snapshots after every statement)
  objects the user holds      DataFrames (shared frame s1) and *Column objects* (a pool created before H and P: alias-qualified
                              references, predicates, join conditions, df['c'] handles) that both H and P hand to
                              where / withColumn / select / orderBy / groupBy / join — their identifiers are observed after
                              every statement and replayed on the heap model (Impl/C18Columns.lean)
  what session.sql reads      the statement is qualified against the catalog's column lists with an `infer_schema` argument:
                              P's statements over permanent tables / own views with unqualified columns, while H registers
                              unrelated views, looks tables up, calls the catalog API (qualify's inputs and outcome are observed
                              and replayed on `resolveSql`)
"""
from __future__ import annotations

import copy
import json
import os
import random
import re
import subprocess
import sys
import typing as t

import exprs as X
import vlib
from vlib import Ctx, bag, log, plain

ID = "C18"
LEVEL = "proof"
MODULES = ["SqlframeModel.Codec.C18", "SqlframeModel.Props.C18"]
GEN = ["SessionIds", "Views"]
SOURCES = [
    "SqlframeModel/Props/C18.lean",
    "SqlframeModel/Lemmas/C18.lean",
    "SqlframeModel/Lemmas/C18Columns.lean",
    "SqlframeModel/Impl/C18Session.lean",
    "SqlframeModel/Impl/C18Columns.lean",
]

TABLES = {
    "T1": {"schema": {"k": "int", "s": "str"}},
    "T2": {"schema": {"k": "int", "w": "int"}},
}
ALIASES = ["x", "y"]
COLUMN_LIKE_ALIASES = ["k", "s", "w"]  # other work may alias a DataFrame with a name that is a column name of P
VIEWS = ["va", "vb"]
REAL_TABLES = {  # permanent tables of the engine
    "items": {"schema": {"k": "int", "z": "int"}, "rows": [[1, 100], [2, 200]]},
    "other": {"schema": {"k": "int", "q": "int"}, "rows": [[1, 7], [2, 8], [3, 9]]},
}
DEFECT_HYPS = {"H_ctesHaveIds", "H_viewColumnsStable", "H_tableLookupsOwn"}
TAG = "c18_obj"  # meta key that marks the root of a Column object the user holds (survives Expression.copy())


def _tuple(e: t.Any) -> t.Any:
    if isinstance(e, (list, tuple)):
        return tuple(_tuple(x) if isinstance(x, (list, tuple)) else x for x in e)
    return e


# ------------------------------------------------------------------------------------------------
# programs: straight-line scripts over named variables
# ------------------------------------------------------------------------------------------------


class PGen:
    """generates one program; `pre` prefixes its variables; `shared` are frames both programs may read"""

    def __init__(self, rng: random.Random, pre: str, shared: t.Dict[str, dict], role: str, pool: t.Optional[t.List[dict]] = None):
        self.rng = rng
        self.pre = pre
        self.vars: t.Dict[str, dict] = dict(shared)  # var -> {"schema": {...}, "alias": name|None}
        self.steps: t.List[dict] = []
        self.n = 0
        self.role = role
        self.use_real = False
        self.views: t.Dict[str, dict] = {}  # view name -> schema (own registrations)
        self.pool: t.List[dict] = list(pool or [])  # Column objects created before both programs (the user holds them)
        self.avoid_views: t.Set[str] = set()  # names this program must not register (the other program reads them as tables)
        self.sql_tables_ok = False
        self.files: t.Dict[str, dict] = {}

    def fresh(self) -> str:
        self.n += 1
        return f"{self.pre}{self.n}"

    def frames(self, pred: t.Callable[[dict], bool] = lambda v: True) -> t.List[str]:
        return [k for k, v in self.vars.items() if pred(v)]

    def add(self, step: dict, schema: t.Optional[dict] = None, **info: t.Any) -> t.Optional[str]:
        self.steps.append(step)
        if "out" in step and schema is not None:
            self.vars[step["out"]] = dict(schema=schema, **info)
            return step["out"]
        return None

    def create(self) -> str:
        tb = self.rng.choice(list(TABLES))
        return self.add({"op": "create", "out": self.fresh(), "tbl": tb}, dict(TABLES[tb]["schema"]), alias=None, kind="df")

    # ---- Column objects the user holds -------------------------------------------------------
    def use(self, obj: t.Optional[dict] = None, how: t.Optional[str] = None) -> t.Optional[str]:
        """hand a held Column object to a DataFrame method (after aliasing the frame with the names the object mentions)"""
        r = self.rng
        if not self.pool:
            return None
        obj = obj or r.choice(self.pool)
        if obj["kind"] == "jcond":
            return self.join_alias(on_obj=obj)
        if obj.get("root"):
            # a df['c'] handle: only frames that descend from that DataFrame (and were not rebuilt by SQL / joins)
            fs = self.frames(lambda v: v.get("root") == obj["root"] and "k" in v["schema"] and v.get("kind") == "df")
        else:
            fs = self.frames(lambda v: "k" in v["schema"] and v.get("kind") == "df")
        if not fs:
            return None
        u = r.choice(fs)
        for n in obj["needs"]:
            u = self.alias(u, n)
        sch = dict(self.vars[u]["schema"])
        hows = USE_HOWS[obj["ty"]]
        how = how if how in hows else r.choice(hows)
        st = {"op": "use", "out": self.fresh(), "in": u, "c": obj["out"], "how": how}
        if how in ("where_and", "where_cmp"):
            st["lit"] = r.choice([0, 1, 2])
        if how == "withColumn":
            sch["j"] = obj["ty"]
        elif how == "select_as":
            sch = {"j": obj["ty"]}
        elif how == "groupBy":
            sch = {"g": obj["ty"], "n": "int"}
        info = dict(alias=None, kind="df" if how not in ("select_as", "groupBy") else "derived", root=self.vars[u].get("root") if how not in ("select_as", "groupBy") else None)
        return self.add(st, sch, **info)

    # ---- siblings of a DataFrame that is kept --------------------------------------------------------
    def sibling(self, u: t.Optional[str] = None, how: t.Optional[str] = None) -> t.Optional[str]:
        """derive another DataFrame from a frame that stays in use (the receiver must come out of it unchanged)"""
        r = self.rng
        fs = self.frames(lambda v: v.get("held"))
        if u is None and not fs:
            return None
        u = u or r.choice(fs)
        sch = dict(self.vars[u]["schema"])
        cols = list(sch)
        how = how or r.choice(SIBLING_HOWS)
        if how in ("fillna",) and sch[cols[0]] != "int" and all(v != "int" for v in sch.values()):
            how = "distinct"
        if how == "drop" and len(cols) < 2:
            how = "distinct"
        out_s = dict(sch)
        if how == "groupBy":
            out_s = {cols[0]: sch[cols[0]], "n": "int"}
        elif how == "drop":
            out_s.pop(cols[-1])
        elif how == "withColumnRenamed":
            out_s = {(("renamed") if c == cols[-1] else c): ty for c, ty in sch.items()}
        elif how == "select":
            out_s = {cols[0]: sch[cols[0]]}
        elif how == "rename_case":
            out_s = {(c.upper() if c == cols[-1] else c): ty for c, ty in sch.items()}
        elif how in ("select_upper", "toDF_upper"):
            out_s = {c.upper(): ty for c, ty in sch.items()}
        elif how == "withColumn_upper":
            out_s = {(c.upper() if c == cols[-1] else c): ty for c, ty in sch.items()}
        elif how == "join_self":
            out_s = dict(sch)
        # limit without a total order returns an arbitrary row: such a sibling is built (and may be counted) but is never P's result
        return self.add({"op": "sibling", "out": self.fresh(), "in": u, "how": how}, out_s, alias=None, kind="derived", nondet=(how == "limit"))

    def read_file(self, files: t.Dict[str, dict], chain: t.Optional[list] = None, call: t.Optional[str] = None, kwargs: t.Optional[dict] = None) -> t.Optional[str]:
        r = self.rng
        if not files:
            return None
        f = r.choice(list(files))
        if chain is None:
            chain, call, kwargs = r.choice(READ_CHAINS_H if self.role == "H" else READ_CHAINS_P)
        return self.add({"op": "read", "out": self.fresh(), "file": f, "chain": copy.deepcopy(chain), "call": call, "kwargs": dict(kwargs or {})}, {c: "any" for c in files[f]["header"]}, alias=None, kind="file")

    # ---- session.sql over permanent tables / own views with unqualified columns ----------------
    def sql_tables(self, shape: t.Optional[int] = None) -> t.Optional[str]:
        r = self.rng
        perm = [n for n in REAL_TABLES if n not in self.views]
        own = [n for n, sch in self.views.items() if "k" in sch and len(sch) > 1]
        shapes = []
        if "items" in perm:
            shapes += [0, 3]
        if "items" in perm and "other" in perm:
            shapes += [1, 4]
        if own and "items" in perm:
            shapes += [2]
        if own:
            shapes += [5]
        if not shapes:
            return None
        shape = shape if shape in shapes else r.choice(shapes)
        lit = r.choice([0, 1, 2])
        if shape == 0:
            text, srcs, out_s = f"SELECT z FROM items WHERE k > {lit}", [["items", "items"]], {"z": "int"}
        elif shape == 1:
            text, srcs, out_s = "SELECT z, q FROM items JOIN other ON items.k = other.k", [["items", "items"], ["other", "other"]], {"z": "int", "q": "int"}
        elif shape == 2:
            v = r.choice(own)
            c = [x for x in self.views[v] if x != "k"][0]
            text, srcs, out_s = f"SELECT {c}, z FROM {v} JOIN items ON {v}.k = items.k", [[v, v], ["items", "items"]], {c: self.views[v][c], "z": "int"}
        elif shape == 3:
            text, srcs, out_s = f"SELECT i.z AS z FROM items AS i WHERE i.k > {lit}", [["i", "items"]], {"z": "int"}
        elif shape == 4:
            text, srcs, out_s = f"SELECT i.z AS z FROM items AS i JOIN other AS o ON i.k = o.k WHERE q > {lit}", [["i", "items"], ["o", "other"]], {"z": "int"}
        else:
            v = r.choice(own)
            c = [x for x in self.views[v] if x != "k"][0]
            text, srcs, out_s = f"SELECT {c} FROM {v} WHERE k > {lit}", [[v, v]], {c: self.views[v][c]}
        views = [cat for _, cat in srcs if cat in self.views]
        return self.add({"op": "sql", "out": self.fresh(), "text": text, "views": views, "srcs": srcs}, out_s, alias=None, kind="sql")

    def catalog_lookup(self) -> None:
        r = self.rng
        what = r.choice(["listColumns", "listTables", "tableExists", "getTable"])
        name = r.choice(list(REAL_TABLES)) if self.use_real else "no_such_table"
        self.add({"op": "catalog", "what": what, "name": name})

    def chain_op(self, u: str) -> str:
        r = self.rng
        sch = self.vars[u]["schema"]
        g = X.Gen(r, sch)
        c = r.random()
        info = dict(alias=None, kind=self.vars[u].get("kind", "df"), root=self.vars[u].get("root"))
        if c < 0.4:
            return self.add({"op": "where", "out": self.fresh(), "in": u, "p": g.bool_expr(r.choice([1, 2]))}, dict(sch), **info)
        if c < 0.7:
            items = []
            names = []
            if "k" in sch:
                items.append(["k", ("col", "k")])
                names.append("k")
            e, ty = g.any_expr(2)
            n_ = r.choice([x for x in ["j", "m", "w", "s"] if x not in names])
            items.append([n_, e])
            out_s = {"k": "int"} if "k" in sch else {}
            out_s[n_] = ty
            return self.add({"op": "select", "out": self.fresh(), "in": u, "items": items}, out_s, **dict(info, root=None))
        if c < 0.85:
            e, ty = g.any_expr(2)
            n_ = r.choice(["j", "m"])
            out_s = dict(sch)
            out_s[n_] = ty
            return self.add({"op": "withColumn", "out": self.fresh(), "in": u, "n": n_, "e": e}, out_s, **info)
        return self.add({"op": "distinct", "out": self.fresh(), "in": u}, dict(sch), **info)

    def alias(self, u: str, name: str, kind: str = "df") -> str:
        return self.add({"op": "alias", "out": self.fresh(), "in": u, "name": name}, dict(self.vars[u]["schema"]), alias=name, kind=kind, root=self.vars[u].get("root"))

    def join_alias(self, on_obj: t.Optional[dict] = None) -> t.Optional[str]:
        r = self.rng
        ks = self.frames(lambda v: "k" in v["schema"] and v.get("kind") == "df")
        if len(ks) < 1:
            return None
        u1, u2 = r.choice(ks), r.choice(ks)
        n1, n2 = r.sample(["x", "y"], 2)
        if on_obj is not None:
            n1, n2 = on_obj["needs"]
        a1 = self.alias(u1, n1)
        a2 = self.alias(u2, n2)
        c1 = [c for c in self.vars[u1]["schema"] if c != "k"]
        c2 = [c for c in self.vars[u2]["schema"] if c != "k"]
        sel = [[f"{n1}.k", "k"]]
        out_s = {"k": "int"}
        if c1:
            sel.append([f"{n1}.{c1[0]}", "a1"])
            out_s["a1"] = self.vars[u1]["schema"][c1[0]]
        if c2:
            sel.append([f"{n2}.{c2[0]}", "a2"])
            out_s["a2"] = self.vars[u2]["schema"][c2[0]]
        st = {"op": "join_alias", "out": self.fresh(), "l": a1, "r": a2, "on": [f"{n1}.k", f"{n2}.k"], "sel": sel}
        if on_obj is not None:
            st["on_obj"] = on_obj["out"]
        return self.add(st, out_s, alias=None, kind="join")

    def alias_select(self) -> t.Optional[str]:
        """df.alias(n).select(col('n.c'))"""
        r = self.rng
        fs = self.frames(lambda v: v.get("kind") == "df")
        if not fs:
            return None
        u = r.choice(fs)
        n = r.choice(ALIASES)
        a = self.alias(u, n)
        cols = list(self.vars[u]["schema"])
        c = r.choice(cols)
        return self.add({"op": "select_qualified", "out": self.fresh(), "in": a, "refs": [[f"{n}.{c}", c]]}, {c: self.vars[u]["schema"][c]}, alias=None, kind="df")

    def alias_only(self) -> t.Optional[str]:
        """df.alias(n) with n a column name somewhere else (never used for qualified references here:
        `df.alias('k').select(col('k.k'))` rewrites the column identifier too — a C02/C10 matter, not history)"""
        fs = self.frames(lambda v: v.get("kind") == "df")
        if not fs:
            return None
        return self.alias(self.rng.choice(fs), self.rng.choice(COLUMN_LIKE_ALIASES), kind="aliased-only")  # not used further

    def handle(self) -> t.Optional[str]:
        """c = df['k']; df.select(c) (discarded); df.distinct().where(c > 0)   — the Column handle is reused"""
        fs = self.frames(lambda v: "k" in v["schema"] and v.get("kind") == "df")
        if not fs:
            return None
        u = self.rng.choice(fs)
        return self.add({"op": "handle_reuse", "out": self.fresh(), "in": u, "col": "k", "lit": self.rng.choice([0, 1, 2])}, dict(self.vars[u]["schema"]), alias=None, kind="df")

    def view_sql(self, foreign_views: t.Dict[str, dict]) -> t.Optional[str]:
        r = self.rng
        fs = self.frames(lambda v: v.get("kind") == "df")
        if not fs:
            return None
        u = r.choice(fs)
        name = r.choice([n for n in VIEWS + (list(REAL_TABLES) if self.use_real else []) if n not in self.avoid_views])  # a temp view may shadow a permanent table
        sch = self.vars[u]["schema"]
        self.add({"op": "register", "in": u, "name": name, "cols": list(sch)})
        self.views[name] = sch
        cols = list(sch)
        c = r.choice(cols)
        shape = r.random()
        if shape < 0.35:
            text, out_s = f"SELECT * FROM {name}", dict(sch)
        elif shape < 0.7:
            text, out_s = f"SELECT x.{c} AS {c} FROM {name} AS x", {c: sch[c]}
        else:
            text, out_s = f"WITH c AS (SELECT x.{c} AS {c} FROM {name} AS x) SELECT c.{c} AS {c} FROM c", {c: sch[c]}
        v = self.add({"op": "sql", "out": self.fresh(), "text": text, "views": [name]}, out_s, alias=None, kind="sqlcte" if text.startswith("WITH") else "sql")
        if r.random() < 0.6:
            # transform the result further, by a plain column name (the C18 alias-named-like-a-column case)
            g = X.Gen(r, out_s)
            v = self.add({"op": "where", "out": self.fresh(), "in": v, "p": g.bool_expr(1)}, dict(out_s), alias=None, kind=self.vars[v]["kind"])
        return v

    def table_real(self) -> str:
        """session.table(<permanent table>): the session catalog caches the table's columns"""
        name = self.rng.choice(list(REAL_TABLES))
        return self.add({"op": "table_real", "out": self.fresh(), "name": name}, dict(REAL_TABLES[name]["schema"]), alias=None, kind="df", root=None)

    def table_read(self) -> t.Optional[str]:
        if not self.views:
            return None
        name = self.rng.choice(list(self.views))
        return self.add({"op": "table", "out": self.fresh(), "name": name, "views": [name]}, dict(self.views[name]), alias=None, kind="view")

    def action(self) -> None:
        r = self.rng
        fs = self.frames()
        if not fs:
            return
        u = r.choice(fs)
        c = r.random()
        if c < 0.3:
            self.add({"op": "collect", "in": u})
        elif c < 0.45:
            self.add({"op": "count", "in": u})
        elif c < 0.6:
            self.add({"op": "show", "in": u})
        elif c < 0.8:
            self.add({"op": "schema", "in": u})
        elif c < 0.87:
            self.add({"op": "bad_collect", "in": u})
        elif c < 0.93:
            self.catalog_lookup()
        else:
            self.add({"op": "bad_sql"})

    def build(self, n_steps: int, with_actions: bool) -> t.Tuple[t.List[dict], t.Optional[str]]:
        r = self.rng
        last = None
        if not self.frames(lambda v: v.get("kind") == "df") or r.random() < 0.7:
            last = self.create()
        if self.role == "H" and r.random() < 0.35:
            self.alias_only()
        for _ in range(n_steps):
            c = r.random()
            v = None
            if self.pool and r.random() < 0.4:
                v = self.use()
                c = 2.0
            elif self.frames(lambda v_: v_.get("held")) and r.random() < 0.4:
                v = self.sibling()
                c = 2.0
            elif self.files and r.random() < 0.4:
                v = self.read_file(self.files)
                c = 2.0
            elif self.sql_tables_ok and r.random() < 0.3:
                v = self.sql_tables()
                c = 2.0
            if c < 0.3:
                fs = self.frames(lambda v_: v_.get("kind") in ("df", "sql", "sqlcte", "view"))
                if fs:
                    v = self.chain_op(r.choice(fs))
            elif c < 0.45:
                v = self.alias_select()
            elif c < 0.6:
                v = self.join_alias()
            elif c < 0.7:
                v = self.handle()
            elif c < 0.85:
                v = self.view_sql({})
            elif c < 0.9:
                v = self.table_read()
            elif c < 0.95:
                v = self.create()
                if self.role == "H" and r.random() < 0.6:
                    self.alias_only()
                if (self.role == "H" or self.sql_tables_ok) and self.use_real and r.random() < 0.7:
                    self.table_real()
            elif with_actions and c < 1.5:
                self.action()
            if v and self.vars[v].get("nondet"):
                v = None
            if v:
                last = v
            if with_actions and r.random() < 0.25:
                self.action()
        return self.steps, last


SIBLING_HOWS = ["rename_case", "select_upper", "toDF_upper", "withColumn_upper", "distinct", "dropDuplicates", "orderBy", "limit", "groupBy", "drop", "withColumnRenamed", "union_self", "intersect_self", "where", "select", "alias", "join_self", "fillna", "dropna", "count"]
HELD_SHAPES = ["leaf", "where", "alias", "union", "join", "select", "withColumn", "where_where", "distinct"]
# (builder calls on the reader, the loading call, its keyword arguments)
READ_CHAINS_H = [
    ([["format", "csv"], ["option", "skip", 1], ["option", "header", True]], "load", {}),
    ([["option", "header", False]], "csv", {}),
    ([["options", {"skip": 1}]], "csv", {"header": True}),
    ([["format", "csv"], ["option", "all_varchar", True]], "load", {}),
    ([["option", "delim", ";"]], "csv", {"header": True}),
    ([], "csv", {"header": True}),
]
READ_CHAINS_P = [
    ([], "csv", {"header": True}),
    ([["option", "header", True]], "csv", {}),
    ([["format", "csv"]], "load", {"header": True}),
    ([], "load", {"format": "csv"}),
    ([], "csv", {}),
]
FILES = {"f1": {"header": ["k", "s"], "rows": [[1, "a"], [2, "b"], [3, "c"]]}, "f2": {"header": ["k", "w"], "rows": [[1, 10], [1, 10], [5, 50]]}}


def held_frame_prelude(rng: random.Random, shape: str) -> t.Tuple[t.List[dict], t.Dict[str, dict]]:
    """a DataFrame the user builds once and keeps: `shape` is the operation it is the result of (what the @operation
    wrapper does to it at the next call depends on that)"""
    tb = rng.choice(list(TABLES))
    sch = dict(TABLES[tb]["schema"])
    pre: t.List[dict] = [{"op": "create", "out": "s1", "tbl": tb}]
    shared: t.Dict[str, dict] = {"s1": {"schema": sch, "alias": None, "kind": "df", "root": "s1"}}
    true_pred = ("bin", "or", ("bin", "ge", ("col", "k"), ("lit", 0)), ("isNull", ("col", "k")))
    if shape == "leaf":
        pre[0]["held"] = True
        shared["s1"]["held"] = True
        return pre, shared
    if shape == "where":
        st = {"op": "where", "out": "s2", "in": "s1", "p": true_pred}
    elif shape == "where_where":
        pre.append({"op": "where", "out": "s0", "in": "s1", "p": true_pred})
        st = {"op": "where", "out": "s2", "in": "s0", "p": ("bin", "ne", ("col", "k"), ("lit", -7))}
    elif shape == "alias":
        st = {"op": "alias", "out": "s2", "in": "s1", "name": "y"}
    elif shape == "union":
        st = {"op": "union", "out": "s2", "in": "s1", "other": "s1"}
    elif shape == "join":
        pre += [{"op": "alias", "out": "sa", "in": "s1", "name": "x"}, {"op": "alias", "out": "sb", "in": "s1", "name": "y"}]
        st = {"op": "join_alias", "out": "s2", "l": "sa", "r": "sb", "on": ["x.k", "y.k"], "sel": [["x.k", "k"]]}
        sch = {"k": "int"}
    elif shape == "select":
        st = {"op": "select", "out": "s2", "in": "s1", "items": [["k", ("col", "k")]]}
        sch = {"k": "int"}
    elif shape == "withColumn":
        st = {"op": "withColumn", "out": "s2", "in": "s1", "n": "j", "e": ("bin", "add", ("col", "k"), ("lit", 1))}
        sch = dict(sch, j="int")
    elif shape == "distinct":
        st = {"op": "distinct", "out": "s2", "in": "s1"}
    else:
        raise ValueError(shape)
    st["held"] = True
    pre.append(st)
    shared["s2"] = {"schema": sch, "alias": None, "kind": "df" if shape not in ("join", "select") else "derived", "root": None, "held": True}
    return pre, shared


def family_held_frames(rng: random.Random, shape: str, how: str, p_kind: str) -> t.Optional[dict]:
    """a DataFrame is built once and kept; other work (or P itself) derives a sibling from it; P then uses the kept
    DataFrame.  The data contains duplicate rows and NULLs so that an edit of the receiver shows in its rows."""
    data = base_data(rng)
    data["T1"] = [[1, "a"], [1, "a"], [2, "b"], [2, "b"], [3, None], [None, "a"]] + data["T1"][:2]
    data["T2"] = [[1, 10], [1, 10], [2, 20], [2, 20], [5, None], [None, 50]] + data["T2"][:2]
    prelude, shared = held_frame_prelude(rng, shape)
    held = "s2" if "s2" in shared else "s1"
    hg = PGen(rng, "h", shared, "H")
    pg = PGen(rng, "p", shared, "P")
    who = pg if p_kind == "own_sibling" else hg
    sib = who.sibling(held, how)
    if sib is None:
        return None
    if rng.random() < 0.5:
        who.add({"op": rng.choice(["count", "collect"]), "in": sib})
    if p_kind in ("collect", "own_sibling"):
        pg.add({"op": "collect", "in": held})
        res = held
    elif p_kind == "count":
        pg.add({"op": "count", "in": held})
        res = held
    else:
        res = pg.chain_op(held) if shared[held].get("kind") == "df" else pg.sibling(held, "where")
    inter = [["H", i] for i in range(len(hg.steps))] + [["P", i] for i in range(len(pg.steps))]
    return {"data": data, "tables": [], "prelude": prelude, "P": pg.steps, "H": hg.steps, "inter": inter, "result": res}


def family_readers(rng: random.Random, h_chain: tuple, p_chain: tuple) -> dict:
    """other work reads a file through a chain of builder calls on session.read; P then reads a file its own way"""
    data = base_data(rng)
    hg = PGen(rng, "h", {}, "H")
    pg = PGen(rng, "p", {}, "P")
    u = hg.read_file(FILES, *h_chain)
    if rng.random() < 0.5:
        hg.add({"op": rng.choice(["count", "collect"]), "in": u})
    res = pg.read_file(FILES, *p_chain)
    inter = [["H", i] for i in range(len(hg.steps))] + [["P", i] for i in range(len(pg.steps))]
    if rng.random() < 0.25:  # the other work's chain comes between two reads of P
        pg.read_file(FILES, *p_chain)
        inter = [["P", 0]] + [["H", i] for i in range(len(hg.steps))] + [["P", 1]]
        res = pg.steps[1]["out"]
    return {"data": data, "tables": [], "files": copy.deepcopy(FILES), "prelude": [], "P": pg.steps, "H": hg.steps, "inter": inter, "result": res}


USE_HOWS = {
    "bool": ["where", "where_and", "withColumn", "select_as", "orderBy"],
    "int": ["where_cmp", "withColumn", "select_as", "orderBy", "groupBy"],
}
POOL_KINDS = ["qref", "qpred", "qexpr", "pred", "jcond", "handle", "hpred"]


def mk_pool_obj(rng: random.Random, kind: str, name: str, shared: t.Dict[str, dict]) -> t.Optional[dict]:
    """one Column object the user holds: a prelude step plus what a program needs to know to use it"""
    lit = rng.choice([0, 1, 2])
    a = rng.choice(ALIASES)
    if kind == "qref":
        return {"op": "mkcol", "out": name, "e": ("col", f"{a}.k"), "kind": kind, "ty": "int", "needs": [a]}
    if kind == "qpred":
        return {"op": "mkcol", "out": name, "e": ("bin", rng.choice(["gt", "ge", "lt", "ne"]), ("col", f"{a}.k"), ("lit", lit)), "kind": kind, "ty": "bool", "needs": [a]}
    if kind == "qexpr":
        return {"op": "mkcol", "out": name, "e": ("bin", rng.choice(ARITH_OPS), ("col", f"{a}.k"), ("lit", lit)), "kind": kind, "ty": "int", "needs": [a]}
    if kind == "pred":
        return {"op": "mkcol", "out": name, "e": ("bin", rng.choice(["gt", "ge", "lt", "ne"]), ("col", "k"), ("lit", lit)), "kind": kind, "ty": "bool", "needs": []}
    if kind == "jcond":
        n1, n2 = rng.sample(ALIASES, 2)
        return {"op": "mkcol", "out": name, "e": ("bin", "eq", ("col", f"{n1}.k"), ("col", f"{n2}.k")), "kind": kind, "ty": "bool", "needs": [n1, n2]}
    if kind in ("handle", "hpred"):
        roots = [v for v, inf in shared.items() if "k" in inf["schema"]]
        if not roots:
            return None
        root = rng.choice(roots)
        return {"op": "mkhandle", "out": name, "in": root, "col": "k", "lit": (lit if kind == "hpred" else None), "kind": kind, "ty": ("bool" if kind == "hpred" else "int"), "needs": [], "root": root}
    raise ValueError(kind)


ARITH_OPS = ["add", "sub", "mul"]


def make_pool(rng: random.Random, shared: t.Dict[str, dict], n: int) -> t.List[dict]:
    out: t.List[dict] = []
    for i in range(n):
        o = mk_pool_obj(rng, rng.choice(POOL_KINDS), f"c{i}", shared)
        if o:
            out.append(o)
    return out


def base_data(rng: random.Random) -> dict:
    return {tb: X.gen_table(rng, TABLES[tb]["schema"], 4) or [[1, "a"] if tb == "T1" else [1, 10]] for tb in TABLES}


def family_held_columns(rng: random.Random, kind: str, how_h: t.Optional[str], how_p: t.Optional[str], share_frame: bool) -> t.Optional[dict]:
    """a Column object is created once; other work hands it to a DataFrame method, then P hands the same object to a
    DataFrame method of its own pipeline (same alias names, own frames or the shared frame)"""
    data = base_data(rng)
    # data under which the predicates are not vacuous
    data["T1"] = data["T1"] + [[1, "a"], [2, "b"], [3, None]]
    data["T2"] = data["T2"] + [[1, 10], [2, 20], [5, 50]]
    shared: t.Dict[str, dict] = {}
    prelude: t.List[dict] = []
    if share_frame or kind in ("handle", "hpred"):
        tb = rng.choice(list(TABLES))
        prelude.append({"op": "create", "out": "s1", "tbl": tb})
        shared["s1"] = {"schema": dict(TABLES[tb]["schema"]), "alias": None, "kind": "df", "root": "s1"}
    obj = mk_pool_obj(rng, kind, "c0", shared)
    if obj is None:
        return None
    prelude.append(obj)
    hg = PGen(rng, "h", shared, "H", [obj])
    if not shared or rng.random() < 0.5:
        hg.create()
    if hg.use(obj, how_h) is None:
        return None
    if rng.random() < 0.3:
        hg.action()
    pg = PGen(rng, "p", shared, "P", [obj])
    if not shared or rng.random() < 0.5:
        pg.create()
    res = pg.use(obj, how_p)
    if res is None:
        return None
    if rng.random() < 0.4:
        res = pg.chain_op(res) if pg.vars[res].get("kind") == "df" else res
    inter = [["H", i] for i in range(len(hg.steps))] + [["P", i] for i in range(len(pg.steps))]
    if rng.random() < 0.3:
        inter = interleave(rng, pg.steps, hg.steps)
    return {"data": data, "tables": [], "prelude": prelude, "P": pg.steps, "H": hg.steps, "inter": inter, "result": res}


def family_sql_tables(rng: random.Random, shape: int, hist: str) -> t.Optional[dict]:
    """P: a session.sql statement over permanent tables (and an own view) with unqualified columns;
    H: work that changes what the session knows — an unrelated temp view, table lookups, catalog calls, schema lookups"""
    data = base_data(rng)
    data["T1"] = data["T1"] + [[1, "a"], [2, "b"]]
    data["T2"] = data["T2"] + [[1, 10], [2, 20]]
    pg = PGen(rng, "p", {}, "P")
    pg.use_real = True
    if shape in (2, 5):
        tb = rng.choice(list(TABLES))
        u = pg.add({"op": "create", "out": pg.fresh(), "tbl": tb}, dict(TABLES[tb]["schema"]), alias=None, kind="df")
        v = rng.choice(VIEWS)
        pg.add({"op": "register", "in": u, "name": v, "cols": list(TABLES[tb]["schema"])})
        pg.views[v] = dict(TABLES[tb]["schema"])
    if shape in (0, 1, 2, 3, 4) and rng.random() < 0.35:
        # P looks a table of its statement up itself first (then the statement is qualified against the cached columns)
        name = "items" if shape != 1 or rng.random() < 0.5 else "other"
        pg.add({"op": "table_real", "out": pg.fresh(), "name": name}, dict(REAL_TABLES[name]["schema"]), alias=None, kind="df")
    res = pg.sql_tables(shape)
    if res is None:
        return None
    if rng.random() < 0.4:
        g = X.Gen(rng, pg.vars[res]["schema"])
        res = pg.add({"op": "where", "out": pg.fresh(), "in": res, "p": g.bool_expr(1)}, dict(pg.vars[res]["schema"]), alias=None, kind="sql")
    hg = PGen(rng, "h", {}, "H")
    hg.use_real = True
    hg.avoid_views = set(REAL_TABLES) | set(pg.views)
    for what in hist.split("+"):
        if what == "view":
            hg.create()
            hg.view_sql({})
        elif what == "items":
            hg.add({"op": "table_real", "out": hg.fresh(), "name": "items"}, dict(REAL_TABLES["items"]["schema"]), alias=None, kind="df")
        elif what == "other":
            hg.add({"op": "table_real", "out": hg.fresh(), "name": "other"}, dict(REAL_TABLES["other"]["schema"]), alias=None, kind="df")
        elif what == "catalog":
            hg.catalog_lookup()
        elif what == "schema":
            u = hg.create()
            hg.add({"op": "schema", "in": u})
        elif what == "fail":
            hg.add({"op": "bad_sql"})
    inter = [["H", i] for i in range(len(hg.steps))] + [["P", i] for i in range(len(pg.steps))]
    if rng.random() < 0.3:
        inter = interleave(rng, pg.steps, hg.steps)
    return {"data": data, "tables": list(REAL_TABLES), "prelude": [], "P": pg.steps, "H": hg.steps, "inter": inter, "result": res}


SQL_HISTORIES = ["view", "items", "other", "view+items", "items+other", "catalog", "schema+view", "fail+view", "view+other+catalog"]


def gen_case(rng: random.Random) -> dict:
    data = {tb: X.gen_table(rng, TABLES[tb]["schema"], 4) or [[1, "a"] if tb == "T1" else [1, 10]] for tb in TABLES}
    shared: t.Dict[str, dict] = {}
    prelude: t.List[dict] = []
    mode = rng.random()
    if mode < 0.2:
        # a DataFrame that is the result of some operation, built once and kept by both programs
        prelude, shared = held_frame_prelude(rng, rng.choice(HELD_SHAPES))
        for tb in data:
            if data[tb]:
                data[tb] = data[tb] + [list(data[tb][0])]  # a duplicate row
    elif mode < 0.6:
        # a DataFrame handle both programs use (other DataFrames over the same data *and* the same object)
        tb = rng.choice(list(TABLES))
        prelude.append({"op": "create", "out": "s1", "tbl": tb})
        shared["s1"] = {"schema": dict(TABLES[tb]["schema"]), "alias": None, "kind": "df", "root": "s1"}
    pool: t.List[dict] = []
    if rng.random() < 0.4:
        pool = make_pool(rng, shared, rng.randint(1, 3))
        prelude += pool
    use_real = rng.random() < 0.35
    pg = PGen(rng, "p", shared, "P", pool)
    files = FILES if rng.random() < 0.15 else {}
    pg.files = files
    pg.use_real = use_real
    pg.sql_tables_ok = use_real and rng.random() < 0.6
    psteps, pres = pg.build(rng.randint(2, 4), with_actions=False)
    if pres is None:
        pres = pg.create()
        psteps = pg.steps
    hg = PGen(rng, "h", shared, "H", pool)
    hg.files = files
    hg.use_real = use_real
    # P reads these names as permanent tables: a temp view of that name registered by H would shadow them (the
    # namespace is shared by design) — H does not register them
    hg.avoid_views = {cat for st in psteps for _, cat in st.get("srcs", []) if cat in REAL_TABLES}
    if use_real and rng.random() < 0.7:
        hg.table_real()
    hsteps, _ = hg.build(rng.randint(2, 5), with_actions=True)
    inter = interleave(rng, psteps, hsteps)
    c = {"data": data, "tables": (list(REAL_TABLES) if use_real else []), "prelude": prelude, "P": psteps, "H": hsteps, "inter": inter, "result": pres}
    if pg.files:
        c["files"] = copy.deepcopy(FILES)
    return c


def family_shadow_table(rng: random.Random) -> dict:
    """other work reads a permanent table through the session; P then registers a temp view of the same name
    (legal: a temp view shadows a table) with other columns and queries it"""
    data = {tb: X.gen_table(rng, TABLES[tb]["schema"], 4) or [[1, "a"] if tb == "T1" else [1, 10]] for tb in TABLES}
    tb = rng.choice(list(TABLES))
    cols = list(TABLES[tb]["schema"])
    c = rng.choice(cols)
    text = rng.choice(["SELECT * FROM items", f"SELECT x.{c} AS {c} FROM items AS x", f"WITH c AS (SELECT * FROM items) SELECT c.{c} AS {c} FROM c"])
    P = [
        {"op": "create", "out": "p1", "tbl": tb},
        {"op": "register", "in": "p1", "name": "items", "cols": cols},
        {"op": "sql", "out": "p2", "text": text, "views": ["items"]},
    ]
    H: t.List[dict] = [{"op": "table_real", "out": "h1", "name": "items"}]
    if rng.random() < 0.5:
        H.append({"op": rng.choice(["collect", "count", "schema"]), "in": "h1"})
    if rng.random() < 0.4:
        H.append({"op": "where", "out": "h2", "in": "h1", "p": ("bin", "gt", ("col", "z"), ("lit", 0))})
    inter = [["H", i] for i in range(len(H))] + [["P", i] for i in range(len(P))]
    if rng.random() < 0.4 and len(H) > 1:  # part of the other work comes after P's registration
        inter = [["H", 0], ["P", 0], ["P", 1]] + [["H", i] for i in range(1, len(H))] + [["P", 2]]
    return {"data": data, "tables": list(REAL_TABLES), "prelude": [], "P": P, "H": H, "inter": inter, "result": "p2"}


def interleave(rng: random.Random, ps: t.List[dict], hs: t.List[dict]) -> t.List[t.List[t.Any]]:
    """random merge; a step of H that registers a view name is not placed between P's registration of that name
    and P's last read of it (that dependence is the shared registry working as designed)"""
    mode = rng.random()
    if mode < 0.25:
        order = ["H"] * len(hs) + ["P"] * len(ps)
    else:
        order = ["H"] * len(hs) + ["P"] * len(ps)
        rng.shuffle(order)
    pi = hi = 0
    out: t.List[t.List[t.Any]] = []
    open_views: t.Set[str] = set()

    def p_reads_later(name: str, from_i: int) -> bool:
        return any(name in s.get("views", []) for s in ps[from_i:])

    pending_h: t.List[int] = []
    for tag in order:
        if tag == "P":
            s = ps[pi]
            out.append(["P", pi])
            if s["op"] == "register":
                open_views.add(s["name"])
            pi += 1
            open_views = {v for v in open_views if p_reads_later(v, pi)}
        else:
            s = hs[hi]
            if s["op"] == "register" and s["name"] in open_views:
                pending_h.append(hi)  # deferred, with everything of H after it (order of H is kept)
                hi += 1
                continue
            if pending_h:
                pending_h.append(hi)
                hi += 1
                continue
            out.append(["H", hi])
            hi += 1
    # P may still have steps: flush them, then the deferred part of H
    while pi < len(ps):
        out.append(["P", pi])
        pi += 1
    for j in pending_h:
        out.append(["H", j])
    return out


# ------------------------------------------------------------------------------------------------
# the interpreter on real sqlframe, instrumented
# ------------------------------------------------------------------------------------------------

_HOOKED = False
_TRACE: t.List[dict] = []
_QTRACE: t.List[dict] = []
_STATE: t.Dict[str, t.Any] = {"path": None, "pass": 0, "refs": [], "n": 0}


def _refs_of(roots: t.List[t.Any]) -> t.List[t.Any]:
    """for every identifier `normalize` will visit (in its order): the held Column object it belongs to and its
    position among that object's identifiers, or None (an identifier of a Column built for this call)"""
    from sqlglot import exp

    refs: t.List[t.Any] = []
    held = _STATE.get("held") or {}
    for root in roots:
        owner: t.Dict[int, t.Tuple[int, int]] = {}
        for node in root.walk():
            meta = getattr(node, "_meta", None)
            if meta and TAG in meta and meta[TAG] in held:
                idns = list(node.find_all(exp.Identifier))
                # the kept object itself, or a faithful copy of it as it is now (a copy that an earlier pass of the same
                # statement already rewrote is a Column of its own)
                if [i.alias_or_name for i in idns] != [i.alias_or_name for i in held[meta[TAG]].expression.find_all(exp.Identifier)]:
                    continue
                for i, idn in enumerate(idns):
                    owner.setdefault(id(idn), (meta[TAG], i))
        for idn in root.find_all(exp.Identifier):
            refs.append(owner.get(id(idn)))
    return refs


def install_hook() -> None:
    """record, for every identifier `normalize` processes: the pass (one call of `normalize`) and the path it came
    through, the CTE chain, the identifier, the held object it belongs to, and what it became; and for every
    statement `session.sql` qualifies: the arguments and the outcome of sqlglot's `qualify`"""
    global _HOOKED
    if _HOOKED:
        return
    if vlib.REPO not in sys.path:
        sys.path.insert(0, vlib.REPO)
    from sqlglot import exp
    from sqlglot.helper import ensure_list

    from sqlframe.base import normalize as N
    from sqlframe.base import session as S
    from sqlframe.base.dataframe import BaseDataFrame
    from sqlframe.base.util import get_tables_from_expression_with_join

    orig_a = N.replace_alias_name_with_cte_name
    orig_b = N.replace_branch_and_sequence_ids_with_cte_name
    orig_n = N.normalize

    def wrap_n(session, ctx, expr):
        _STATE["pass"] += 1
        _STATE["n"] = 0
        try:
            roots = []
            for v in ensure_list(expr):
                if isinstance(v, exp.Expression):
                    roots.append(v)
                elif isinstance(v, str):
                    roots.append(N.Column.ensure_col(v).expression)  # same identifiers, in the same order, as normalize will build
                else:
                    roots.append(v.expression)
            _STATE["refs"] = _refs_of(roots)
        except Exception:  # noqa
            _STATE["refs"] = []
        return orig_n(session, ctx, expr)

    def wrap_a(session, ctx, ident):
        k = _STATE["n"]
        _STATE["n"] = k + 1
        ref = _STATE["refs"][k] if k < len(_STATE["refs"]) else None
        rec = {
            "pass": _STATE["pass"],
            "path": _STATE["path"] or "multi",
            "ref": list(ref) if ref else None,
            "ctx": [[c.alias_or_name, c.args.get("branch_id"), c.args.get("sequence_id")] for c in ctx.ctes],
            "joined": [x.alias_or_name for x in get_tables_from_expression_with_join(ctx)] if ctx.args.get("joins") else [],
            "ident": session._normalize_string(ident.alias_or_name),
            "after": None,
        }
        _TRACE.append(rec)
        try:
            return orig_a(session, ctx, ident)
        except KeyError:
            rec["after"] = {"raised": True}
            raise

    def wrap_b(session, ctx, ident):
        rec = _TRACE[-1] if _TRACE else None
        try:
            r = orig_b(session, ctx, ident)
        except KeyError:
            if rec is not None:
                rec["after"] = {"raised": True}
            raise
        if rec is not None:
            rec["after"] = {"ident": ident.alias_or_name}
        return r

    def path_wrapper(name: str, label: str) -> None:
        orig = getattr(BaseDataFrame, name)

        def wrapped(self, *a, **kw):
            prev = _STATE["path"]
            _STATE["path"] = label
            try:
                return orig(self, *a, **kw)
            finally:
                _STATE["path"] = prev

        setattr(BaseDataFrame, name, wrapped)

    orig_q = S.qualify_func

    def wrap_q(expression, **kw):
        schema = kw.get("schema")
        rec: t.Dict[str, t.Any] = {"infer": kw.get("infer_schema"), "schema_is_catalog": None, "tables": [], "ucols": [], "resolved": None, "err": None}
        cols = []
        try:
            for tb in expression.find_all(exp.Table):
                known = list(schema.column_names(tb)) if schema is not None else []
                rec["tables"].append([tb.alias_or_name, tb.name, known])
            cols = [c for c in expression.find_all(exp.Column) if not c.table]
            rec["ucols"] = [c.name for c in cols]
        except Exception as e:  # noqa
            rec["err"] = f"observer: {type(e).__name__}"
        _QTRACE.append(rec)
        try:
            out = orig_q(expression, **kw)
        except Exception as e:  # noqa
            rec["resolved"] = [(c.table or None) for c in cols]
            rec["err"] = type(e).__name__
            raise
        rec["resolved"] = [(c.table or None) for c in cols]
        return out

    from sqlframe.duckdb.readwriter import DuckDBDataFrameReader

    orig_load = DuckDBDataFrameReader.load

    def wrap_load(self, *a, **kw):
        if _STATE.get("reader_seen") is None:  # the outermost load of the statement: what the chain's reader carries
            _STATE["reader_seen"] = reader_tokens(self)
        return orig_load(self, *a, **kw)

    DuckDBDataFrameReader.load = wrap_load
    N.replace_alias_name_with_cte_name = wrap_a
    N.replace_branch_and_sequence_ids_with_cte_name = wrap_b
    N.normalize = wrap_n
    path_wrapper("_ensure_and_normalize_col", "single")
    path_wrapper("_ensure_and_normalize_cols", "multi")
    S.qualify_func = wrap_q
    _HOOKED = True


READER = "@read"  # the pool slot of "the reader object session.read hands out next"


def pool_of(c: dict) -> t.List[str]:
    """the objects that outlive a statement, in heap order: Column objects and DataFrames created before both programs
    and kept by the user, and the session's reader when a program reads files"""
    pool = [st["out"] for st in c["prelude"] if st["op"] in ("mkcol", "mkhandle") or st.get("held")]
    if any(st["op"] == "read" for st in c["P"] + c["H"]):
        pool.append(READER)
    return pool


def pool_kinds(c: dict) -> t.List[str]:
    kinds = []
    for st in c["prelude"]:
        if st["op"] in ("mkcol", "mkhandle"):
            kinds.append("column")
        elif st.get("held"):
            kinds.append("frame")
    if any(st["op"] == "read" for st in c["P"] + c["H"]):
        kinds.append("reader")
    return kinds


def reader_tokens(r: t.Any) -> t.List[str]:
    out = []
    if getattr(r, "state_format_to_read", None) is not None:
        out.append(f"format={r.state_format_to_read}")
    for k, v in (getattr(r, "state_options", None) or {}).items():
        out.append(f"{k}={v}")
    return out


def is_frame(x: t.Any) -> bool:
    from sqlframe.base.dataframe import BaseDataFrame

    return isinstance(x, BaseDataFrame)


def frame_digest(s: t.Any, df: t.Any) -> str:
    """everything a kept DataFrame carries that a later use reads: its own tree, last_op, pending hints, the display
    names recorded for its columns, the column names it reports, the uuids it knows"""
    try:
        cols = list(df.columns)
    except Exception as e:  # noqa
        cols = [type(e).__name__]
    return vlib.digest(
        [
            df.expression.sql(dialect=s.input_dialect),
            int(df.last_op),
            sorted(str(h) for h in (df.pending_hints or [])),
            sorted((str(k), str(v)) for k, v in (df.display_name_mapping or {}).items()),
            cols,
            sorted(str(u) for u in (getattr(df, "known_uuids", None) or [])),
        ]
    )


def pool_idents(s: t.Any, env: t.Dict[str, t.Any], pool: t.List[str]) -> t.List[t.List[str]]:
    """the state of every kept object, as it is now: the identifiers of a Column; a digest of a DataFrame's own
    expression and last_op; the settings on the reader `session.read` hands out"""
    from sqlglot import exp

    out: t.List[t.List[str]] = []
    for name in pool:
        if name == READER:
            out.append(reader_tokens(s.read))
        elif name not in env:
            out.append([])
        elif is_frame(env[name]):
            df = env[name]
            out.append([frame_digest(s, df)])
        else:
            out.append([s._normalize_string(i.alias_or_name) for i in env[name].expression.find_all(exp.Identifier)])
    return out


def method_op(name: str) -> t.Optional[int]:
    """the Operation a DataFrame method is tagged with (read from the decorator's closure)"""
    from sqlframe.base.dataframe import BaseDataFrame
    from sqlframe.base.operations import Operation

    w = getattr(BaseDataFrame, name, None)
    for cell in getattr(w, "__closure__", None) or []:
        try:
            if isinstance(cell.cell_contents, Operation):
                return int(cell.cell_contents)
        except ValueError:
            pass
    return None


def shielded(last_op: int, method: str) -> bool:
    """does the @operation wrapper move the receiver into a new CTE before the method body sees it?
    (INIT = -1, NO_OP = 0, SELECT = 5: the rule of operations.operation, C01's Gen.Operations)"""
    op = method_op(method)
    if op is None:
        return False
    if last_op == -1:
        return True
    new_op = op if op != 0 else last_op
    return new_op < last_op or (last_op == new_op == 5)


# the DataFrame method(s) a statement applies to its input frames
STEP_METHODS = {
    "where": ["where"], "select": ["select"], "withColumn": ["withColumn"], "distinct": ["distinct"], "alias": ["alias"],
    "select_qualified": ["select"], "join_alias": ["join"], "union": ["union"], "register": ["createOrReplaceTempView"],
    "collect": ["collect"], "count": ["count"], "show": ["show"], "schema": ["schema"], "bad_collect": ["select"],
    "handle_reuse": ["select", "distinct"],
}
USE_METHODS = {"where": "where", "where_and": "where", "where_cmp": "where", "withColumn": "withColumn", "select_as": "select", "orderBy": "orderBy", "groupBy": "groupBy"}
SIBLING_METHODS = {
    "distinct": "distinct", "dropDuplicates": "dropDuplicates", "orderBy": "orderBy", "limit": "limit", "groupBy": "groupBy",
    "drop": "drop", "withColumnRenamed": "withColumnRenamed", "union_self": "union", "where": "where", "select": "select",
    "rename_case": "withColumnRenamed", "select_upper": "select", "toDF_upper": "toDF", "withColumn_upper": "withColumn",
    "alias": "alias", "join_self": "join", "fillna": "fillna", "dropna": "dropna", "intersect_self": "intersect", "count": "count",
}


def methods_of(st: dict) -> t.List[str]:
    if st["op"] == "use":
        return [USE_METHODS[st["how"]]]
    if st["op"] == "sibling":
        return [SIBLING_METHODS[st["how"]]]
    return STEP_METHODS.get(st["op"], [])


def snapshot(s: t.Any, tables: t.Sequence[str] = ()) -> dict:
    from sqlglot import exp

    cols = {}
    for name in list(s.temp_views) + [x for x in tables if x not in s.temp_views]:
        found = s.catalog._schema.find(exp.to_table(name), raise_on_missing=False)
        cols[name] = list(found.keys()) if found else None
    return {
        "known": sorted(s.known_ids),
        "branch": sorted(s.known_branch_ids),
        "seq": sorted(s.known_sequence_ids),
        "alias": {k: list(v) for k, v in s.name_to_sequence_id_mapping.items() if v},
        "counter": s.incrementing_id,
        "views": sorted(s.temp_views.keys()),
        "cols": cols,
    }


def exec_step(s: t.Any, env: t.Dict[str, t.Any], st: dict, data: dict) -> t.Any:
    from sqlframe.duckdb import functions as F
    import contextlib
    import io

    op = st["op"]
    if op == "create":
        env[st["out"]] = X.make_df(s, TABLES[st["tbl"]]["schema"], data[st["tbl"]])
    elif op == "where":
        env[st["out"]] = env[st["in"]].where(X.to_column(_tuple(st["p"]), F))
    elif op == "select":
        env[st["out"]] = env[st["in"]].select(*[X.to_column(_tuple(e), F).alias(n) for n, e in st["items"]])
    elif op == "withColumn":
        env[st["out"]] = env[st["in"]].withColumn(st["n"], X.to_column(_tuple(st["e"]), F))
    elif op == "distinct":
        env[st["out"]] = env[st["in"]].distinct()
    elif op == "alias":
        env[st["out"]] = env[st["in"]].alias(st["name"])
    elif op == "select_qualified":
        env[st["out"]] = env[st["in"]].select(*[F.col(r).alias(n) for r, n in st["refs"]])
    elif op == "join_alias":
        l, r = env[st["l"]], env[st["r"]]
        on = env[st["on_obj"]] if st.get("on_obj") else F.col(st["on"][0]) == F.col(st["on"][1])
        env[st["out"]] = l.join(r, on).select(*[F.col(r_).alias(n) for r_, n in st["sel"]])
    elif op == "mkcol":
        c = X.to_column(_tuple(st["e"]), F)
        c.expression.meta[TAG] = st["_obj"]
        _STATE.setdefault("held", {})[st["_obj"]] = c
        env[st["out"]] = c
    elif op == "mkhandle":
        c = env[st["in"]][st["col"]]
        if st.get("lit") is not None:
            c = c > st["lit"]
        c.expression.meta[TAG] = st["_obj"]
        _STATE.setdefault("held", {})[st["_obj"]] = c
        env[st["out"]] = c
    elif op == "use":
        df, c, how = env[st["in"]], env[st["c"]], st["how"]
        if how == "where":
            out = df.where(c)
        elif how == "where_and":
            out = df.where(c & (F.col("k") > st["lit"]))
        elif how == "where_cmp":
            out = df.where(c > st["lit"])
        elif how == "withColumn":
            out = df.withColumn("j", c)
        elif how == "select_as":
            out = df.select(c.alias("j"))
        elif how == "orderBy":
            out = df.orderBy(c)
        elif how == "groupBy":
            out = df.groupBy(c.alias("g")).agg(F.count(F.lit(1)).alias("n"))
        else:
            raise ValueError(how)
        env[st["out"]] = out
    elif op == "union":
        env[st["out"]] = env[st["in"]].union(env[st["other"]])
    elif op == "sibling":
        df, how = env[st["in"]], st["how"]
        cols = list(df.columns)
        if how == "distinct":
            out = df.distinct()
        elif how == "dropDuplicates":
            out = df.dropDuplicates()
        elif how == "orderBy":
            out = df.orderBy(F.col(cols[0]).desc())
        elif how == "limit":
            out = df.limit(1)
        elif how == "groupBy":
            out = df.groupBy(cols[0]).agg(F.count(F.lit(1)).alias("n"))
        elif how == "drop":
            out = df.drop(cols[-1])
        elif how == "withColumnRenamed":
            out = df.withColumnRenamed(cols[-1], "renamed")
        elif how == "rename_case":  # only the letter case changes: the SQL alias stays, the display name is what differs
            out = df.withColumnRenamed(cols[-1], cols[-1].upper())
        elif how == "select_upper":
            out = df.select(*[F.col(c_.upper()) for c_ in cols])
        elif how == "toDF_upper":
            out = df.toDF(*[c_.upper() for c_ in cols])
        elif how == "withColumn_upper":
            out = df.withColumn(cols[-1].upper(), F.col(cols[-1]))
        elif how == "union_self":
            out = df.union(df)
        elif how == "intersect_self":
            out = df.intersect(df)
        elif how == "where":
            out = df.where(F.col(cols[0]) > 1)
        elif how == "select":
            out = df.select(F.col(cols[0]))
        elif how == "alias":
            out = df.alias("z")
        elif how == "join_self":
            out = df.join(df, on=cols[0])
        elif how == "fillna":
            out = df.fillna(0)
        elif how == "dropna":
            out = df.dropna()
        elif how == "count":
            out = df
            df.count()
        else:
            raise ValueError(how)
        env[st["out"]] = out
    elif op == "read":
        r = s.read
        for item in st["chain"]:
            if item[0] == "format":
                r = r.format(item[1])
            elif item[0] == "option":
                r = r.option(item[1], item[2])
            elif item[0] == "options":
                r = r.options(**item[1])
            else:
                raise ValueError(item)
        path = os.path.join(env["@files"], st["file"] + ".csv")
        kw = dict(st.get("kwargs") or {})
        _STATE["reader_seen"] = None
        if st["call"] == "csv":
            env[st["out"]] = r.csv(path, **kw)
        else:
            env[st["out"]] = r.load(path, **kw)
    elif op == "catalog":
        what, name = st["what"], st["name"]
        if what == "listColumns":
            s.catalog.listColumns(name)
        elif what == "listTables":
            s.catalog.listTables()
        elif what == "tableExists":
            s.catalog.tableExists(name)
        elif what == "getTable":
            s.catalog.getTable(name)
        else:
            raise ValueError(what)
    elif op == "handle_reuse":
        df = env[st["in"]]
        c = df[st["col"]]
        df.select(c)
        env[st["out"]] = df.distinct().where(c > st["lit"])
    elif op == "register":
        env[st["in"]].createOrReplaceTempView(st["name"])
    elif op == "sql":
        env[st["out"]] = s.sql(st["text"])
    elif op in ("table", "table_real"):
        env[st["out"]] = s.table(st["name"])
    elif op == "collect":
        env[st["in"]].collect()
    elif op == "count":
        env[st["in"]].count()
    elif op == "show":
        with contextlib.redirect_stdout(io.StringIO()):
            env[st["in"]].show()
    elif op == "schema":
        _ = env[st["in"]].schema
    elif op == "bad_collect":
        env[st["in"]].select(F.col("no_such_column")).collect()
    elif op == "bad_sql":
        s.sql("SELECT * FROM no_such_table_anywhere").collect()
    else:
        raise ValueError(op)
    return None


READ_ONLY = {"collect", "count", "show", "schema", "bad_collect", "bad_sql", "catalog"}
EXPECT_RAISE = {"bad_collect", "bad_sql"}


def observe(df: t.Any) -> dict:
    if df is None:
        return {"err": "not built"}
    try:
        return {"cols": list(df.columns), "rows": [[plain(v) for v in r] for r in df.collect()]}
    except Exception as e:  # noqa
        return {"err": f"{type(e).__name__}: {str(e)[:140]}"}


def run_script(c: dict, which: str) -> dict:
    """which = 'inter' (prelude + the interleaving) or 'alone' (prelude + P only).  Returns per executed step:
    tag, op, error, registry snapshot, normalisation trace, listTables before/after for read-only actions."""
    install_hook()
    _STATE["held"] = {}
    s = vlib.fresh_duckdb_session()
    for name in c.get("tables", []):
        tb = REAL_TABLES[name]
        s._conn.execute(f"create table {name} (" + ", ".join(f"{c_} {'bigint' if ty == 'int' else 'varchar'}" for c_, ty in tb["schema"].items()) + ")")
        for r_ in tb["rows"]:
            s._conn.execute(f"insert into {name} values ({', '.join('?' for _ in r_)})", list(r_))
    env: t.Dict[str, t.Any] = {}
    pool = pool_of(c)
    if c.get("files"):
        import tempfile

        d = tempfile.mkdtemp(prefix="c18_")
        env["@files"] = d
        for name, f in c["files"].items():
            with open(os.path.join(d, name + ".csv"), "w") as fh:
                fh.write("\n".join(",".join("" if v is None else str(v) for v in row) for row in [f["header"]] + f["rows"]) + "\n")
    seq: t.List[t.Tuple[str, dict]] = [("S", (dict(st, _obj=pool.index(st["out"])) if st.get("out") in pool else st)) for st in c["prelude"]]
    if which == "inter":
        seq += [(tag, (c["P"] if tag == "P" else c["H"])[i]) for tag, i in c["inter"]]
    else:
        seq += [("P", st) for st in c["P"]]
    log_: t.List[dict] = []
    heap0: t.Optional[t.List[t.List[str]]] = None
    for tag, st in seq:
        if tag != "S" and heap0 is None:
            heap0 = pool_idents(s, env, pool)
        del _TRACE[:]
        del _QTRACE[:]
        before = None
        if st["op"] in READ_ONLY:
            before = sorted(t_.name for t_ in s.catalog.listTables())
            before_star = sorted(t_.name for t_ in s.catalog.listTables(pattern="*"))
        err = None
        # the kept DataFrames this statement works on: their state and last_op as the statement finds them
        held_in = [st[k] for k in ("in", "l", "r", "other") if st.get(k) in pool and is_frame(env.get(st.get(k)))] if tag != "S" else []
        pre = {"pool": pool_idents(s, env, pool) if (held_in or st["op"] == "read") else None, "last_ops": {h: int(env[h].last_op) for h in held_in}}
        if "in" in st and st["in"] not in env and st["op"] != "create":
            err = "input frame was not built"
        else:
            try:
                exec_step(s, env, st, c["data"])
            except Exception as e:  # noqa
                err = f"{type(e).__name__}: {str(e)[:120]}"
        rec = {"tag": tag, "op": st["op"], "err": err, "snap": snapshot(s, c.get("tables", [])), "trace": copy.deepcopy(_TRACE)}
        if pool:
            rec["pool"] = pool_idents(s, env, pool)
            rec["held_in"] = [[pool.index(h), [[m, shielded(pre["last_ops"][h], m)] for m in methods_of(st)]] for h in held_in]
            rec["pre_pool"] = pre["pool"]
        if st["op"] == "read":
            rec["reader_seen"] = _STATE.get("reader_seen")
            rec["reader_obj"] = pool.index(READER)
            rec["chain_tokens"] = chain_tokens(st)
        if st["op"] == "sql" and st.get("srcs") is not None:
            rec["qualify"] = copy.deepcopy(_QTRACE)
        if before is not None:
            rec["tables_before"] = before
            rec["tables_before_star"] = before_star
            rec["tables_after"] = sorted(t_.name for t_ in s.catalog.listTables())
            rec["tables_after_star"] = sorted(t_.name for t_ in s.catalog.listTables(pattern="*"))
        if st["op"] == "register" and not err:
            rec["reg_cols"] = list(env[st["in"]].columns)  # what was really registered (a frame read by name may be a view)
        if st["op"] == "sql" and not err:
            rec["read_cols"] = {v: rec["snap"]["cols"].get(v) for v in st.get("views", [])}
        log_.append(rec)
    res = observe(env.get(c["result"]))
    if env.get("@files"):
        import shutil

        shutil.rmtree(env["@files"], ignore_errors=True)
    return {"log": log_, "result": res, "heap0": heap0 if heap0 is not None else pool_idents(s, env, pool)}


def chain_tokens(st: dict) -> t.List[str]:
    out = []
    for item in st["chain"]:
        if item[0] == "format":
            out.append(f"format={item[1]}")
        elif item[0] == "option":
            out.append(f"{item[1]}={item[2]}")
        elif item[0] == "options":
            out += [f"{k}={v}" for k, v in item[1].items()]
    return out


# ------------------------------------------------------------------------------------------------
# model events
# ------------------------------------------------------------------------------------------------


APPLY = -1000  # owner code of an apply event of log record i: APPLY - i


def _base(e: t.Any) -> t.Any:
    return {"base": {"e": e}}


def _passes(trace: t.List[dict]) -> t.List[t.List[dict]]:
    out: t.List[t.List[dict]] = []
    for q in trace:
        if out and out[-1][0].get("pass") == q.get("pass") and q.get("pass") is not None:
            out[-1].append(q)
        else:
            out.append([q])
    return out


def _ctx_json(q: dict) -> t.List[dict]:
    return [{"name": n, "ids": ([b, s_] if b is not None and s_ is not None else None)} for n, b, s_ in q["ctx"]]


def model_events(c: dict, run: dict) -> t.Tuple[t.List[t.Any], t.List[int]]:
    """the Lean events of an executed script, with the real ids; returns (events, owner code of each event:
    index of the log record for `step` events, APPLY - index for `apply` events, -1 for queries).  The *shape* of every
    step (which registries grow, by how much) is fixed by the kind of statement — the ids themselves are what uuid4
    returned.  Identifiers of Column objects the user holds are NOT taken from the run: an `apply` event names the
    object and the model reads its own heap."""
    evs: t.List[t.Any] = []
    owner: t.List[int] = []
    prev = {"known": [], "branch": [], "seq": [], "alias": {}, "counter": 1, "views": [], "cols": {}}
    for i, rec in enumerate(run["log"]):
        snap = rec["snap"]
        own = rec["tag"] != "H"
        new_b = [x for x in snap["branch"] if x not in prev["branch"]]
        new_s = [x for x in snap["seq"] if x not in prev["seq"]]
        new_k = [x for x in snap["known"] if x not in prev["known"] and x not in new_b and x not in new_s]
        op = rec["op"]
        # a statement that works on kept objects: P observes the state it finds them in; then normalisation (while the
        # statement runs, before its effect on the registries); then what the method bodies do to their receivers
        is_p = rec["tag"] == "P"
        if rec["tag"] in ("P", "H") and op == "read":
            for tok in rec["chain_tokens"]:
                evs.append({"edit": {"own": is_p, "site": {"accessor": {"a": "read"}}, "obj": rec["reader_obj"], "token": tok, "shielded": False}})
                owner.append(APPLY - i)
            evs.append({"use": {"own": is_p, "obj": rec["reader_obj"], "extra": rec["chain_tokens"]}})
            owner.append(-3)
        if is_p:
            for obj, _ms in rec.get("held_in", []):
                evs.append({"use": {"own": True, "obj": obj, "extra": []}})
                owner.append(-3)
        if rec["tag"] in ("P", "H"):
            for ps in _passes(rec["trace"]):
                held = any(q.get("ref") for q in ps)
                if held:
                    refs = [({"held": {"obj": q["ref"][0], "idx": q["ref"][1]}} if q.get("ref") else {"fresh": {"n": q["ident"]}}) for q in ps]
                    evs.append({"apply": {"own": rec["tag"] == "P", "path": ps[0].get("path", "multi"), "refs": refs, "ctx": _ctx_json(ps[0]), "joined": ps[0]["joined"]}})
                    owner.append(APPLY - i)
                elif rec["tag"] == "P":
                    for q in ps:
                        evs.append(_base({"query": {"ctx": _ctx_json(q), "joined": q["joined"], "ident": q["ident"]}}))
                        owner.append(-1)
            for obj, ms in rec.get("held_in", []):
                for m, sh in ms:
                    evs.append({"edit": {"own": is_p, "site": {"builder": {"method": m}}, "obj": obj, "token": m, "shielded": sh}})
                    owner.append(APPLY - i)
        steps: t.List[t.Any] = []
        if op == "create":
            steps = [{"create": {"b": (new_b + ["?"])[0], "s": (new_s + ["?"])[0]}}]
        elif op in ("sql", "bad_sql"):
            if new_b or new_s:
                steps = [{"derive": {"b": (new_b + ["?"])[0], "s": (new_s + ["?"])[0]}}]
            if op == "bad_sql" or rec["err"]:
                steps.append("failedAction")
        elif op == "alias" or (op == "sibling" and rec.get("_how") == "alias" and not rec["err"]):
            steps = [{"alias": {"n": find_alias_name(prev, snap), "s": (new_s + ["?"])[0]}}]
        elif op == "table_real":
            if new_b or new_s:  # a read of the permanent table (not of a temp view that shadows it)
                steps = [{"cacheCols": {"n": rec["_name"], "cols": rec["_cols"]}}, {"derive": {"b": (new_b + ["?"])[0], "s": (new_s + ["?"])[0]}}]
            else:
                steps = ["transform"]
            if rec["err"]:
                steps.append("failedAction")
        elif op == "schema":
            # the random id that names the temporary view is drawn before the view is created
            steps = [{"schemaLookup": {"v": new_k[0]}}] if new_k else []
            if rec["err"]:
                steps.append("failedAction")
        elif op == "register":
            if not rec["err"]:
                steps = [{"registerView": {"n": rec["_name"], "cols": rec["_cols"]}}]
        elif op in ("collect", "count", "show", "catalog"):
            steps = ["action"] if not rec["err"] else ["failedAction"]
        elif op == "read":
            # a file read: a frame over the file to look its schema up (a temporary view named by a random id), then the
            # frame that is returned
            steps = []
            for j in range(max(len(new_b), len(new_s))):
                steps.append({"derive": {"b": (new_b[j:] + ["?"])[0], "s": (new_s[j:] + ["?"])[0]}})
                if j == 0:
                    steps += [{"schemaLookup": {"v": v}} for v in new_k]
            if rec["err"]:
                steps.append("failedAction")
        elif op == "bad_collect":
            steps = ["failedAction"]
        else:
            steps = ["transform"]
        for st in steps:
            evs.append(_base({"step": {"own": own, "st": st}}))
            owner.append(i)
        prev = snap
    return evs, owner


def find_alias_name(prev: dict, snap: dict) -> str:
    for k, v in snap["alias"].items():
        if len(v) > len(prev["alias"].get(k, [])):
            return k
    return "?"


def annotate(c: dict, run: dict, which: str) -> None:
    """attach statement details the model events need (view name / columns of registrations, views read)"""
    seq: t.List[dict] = list(c["prelude"])
    if which == "inter":
        seq += [(c["P"] if tag == "P" else c["H"])[i] for tag, i in c["inter"]]
    else:
        seq += list(c["P"])
    for rec, st in zip(run["log"], seq):
        if st["op"] == "register":
            rec["_name"] = st["name"].lower()
            rec["_cols"] = rec.get("reg_cols", st["cols"])
        if st["op"] == "table_real":
            rec["_name"] = st["name"].lower()
            rec["_cols"] = list(REAL_TABLES[st["name"]]["schema"])
        rec["_views"] = st.get("views", [])
        rec["_srcs"] = st.get("srcs")
        rec["_how"] = st.get("how")


def sql_read(rec: dict) -> t.Optional[dict]:
    """the single-scope statement of a P `session.sql` step as qualify saw it: sources and unqualified columns"""
    qs = rec.get("qualify") or []
    if len(qs) != 1:
        return None
    return {"srcs": rec["_srcs"], "cols": qs[0]["ucols"]}


def events_with_reads(c: dict, run: dict) -> t.Tuple[t.List[t.Any], t.List[int]]:
    evs, owner = model_events(c, run)
    # insert readView / readSql events for P's sql statements: right before the statement's own step events
    out: t.List[t.Any] = []
    own_out: t.List[int] = []
    done: t.Set[int] = set()
    for e, o in zip(evs, owner):
        if o >= 0 and o not in done:
            done.add(o)
            rec = run["log"][o]
            if rec["tag"] == "P" and rec["op"] == "sql":
                for v in rec["_views"]:
                    out.append(_base({"readView": {"n": v}}))
                    own_out.append(-2)
                rd = sql_read(rec) if rec.get("_srcs") is not None else None
                if rd is not None:
                    out.append(_base({"readSql": rd}))
                    own_out.append(-2)
        out.append(e)
        own_out.append(o)
    return out, own_out


def initial_heap(run: dict) -> t.List[t.List[str]]:
    """the state of the kept objects when both programs start (observed right after the prelude)"""
    return run.get("heap0") or []


# ------------------------------------------------------------------------------------------------
# evaluation
# ------------------------------------------------------------------------------------------------


def positions(trace_obs: t.List[t.Tuple[t.List[str], t.Any]]) -> t.List[t.Any]:
    out = []
    for names, after in trace_obs:
        if isinstance(after, dict) and after.get("raised"):
            out.append("raised")
        elif isinstance(after, dict) and "ident" in after:
            a = after["ident"]
            out.append(names.index(a) if a in names else "=")
        else:
            out.append(None)
    return out


def p_trace(run: dict) -> t.List[t.Tuple[t.List[str], t.Any]]:
    out = []
    for rec in run["log"]:
        if rec["tag"] == "P":
            for q in rec["trace"]:
                out.append(([x[0] for x in q["ctx"]], q["after"]))
    return out


def _run_both(c: dict) -> t.Tuple[dict, dict]:
    a = run_script(c, "inter")
    annotate(c, a, "inter")
    b = run_script(c, "alone")
    annotate(c, b, "alone")
    return a, b


def same_result(a: dict, b: dict) -> bool:
    if "err" in a or "err" in b:
        return ("err" in a) and ("err" in b)
    return a["cols"] == b["cols"] and bag(a["rows"]) == bag(b["rows"])


def impl_obs(run: dict) -> t.List[t.Any]:
    """what P observed, in the order the model lists it: per statement its queries, then the catalog columns of the
    views its SQL reads, then the attribution of its unqualified columns"""
    out: t.List[t.Any] = []
    heap0 = initial_heap(run)
    for rec in run["log"]:
        if rec["tag"] != "P":
            continue
        if rec["op"] == "read":
            out.append(("s", None, {"state": rec.get("reader_seen") or [], "kind": "reader"}))
        for obj, _ms in rec.get("held_in", []):
            out.append(("s", None, {"state": rec["pre_pool"][obj], "initial": heap0[obj], "kind": "frame"}))
        for q in rec["trace"]:
            out.append(("q", [x[0] for x in q["ctx"]], q["after"]))
        if rec["op"] == "sql":
            for v in rec["_views"]:
                out.append(("v", None, {"cols": pre_cols(run, rec, v)}))
            if rec.get("_srcs") is not None and sql_read(rec) is not None:
                out.append(("r", None, {"resolved": rec["qualify"][0]["resolved"], "err": rec["qualify"][0]["err"]}))
    return out


def canon_obs(kind: str, names: t.Optional[t.List[str]], after: t.Any) -> t.Any:
    """an observation up to the names of P's own CTEs (they differ between two runs): position in the chain"""
    if kind == "v":
        return ("v", json.dumps(after.get("cols")))
    if kind == "r":
        return ("r", json.dumps(after.get("resolved")))
    if kind == "s":
        if after["kind"] == "frame":
            return ("s", "as built" if after["state"] == after["initial"] else "changed")
        return ("s", json.dumps(last_wins(after["state"]), sort_keys=True))
    if isinstance(after, dict) and after.get("raised"):
        return ("q", "raised")
    if isinstance(after, dict) and "ident" in after:
        a = after["ident"]
        return ("q", names.index(a) if names and a in names else "=")
    return ("q", None)


def last_wins(tokens: t.List[str]) -> t.Dict[str, str]:
    """reader settings: a later `k=v` replaces an earlier one"""
    out: t.Dict[str, str] = {}
    for tok in tokens:
        k, _, v = tok.partition("=")
        out[k] = v
    return out


def heap_eq(kinds: t.List[str], heap0: t.List[t.List[str]], model: t.List[t.List[str]], impl: t.List[t.List[str]]) -> bool:
    """Columns: the identifiers themselves; DataFrames: changed or not (the model logs edits, the run shows a digest);
    the reader: its settings"""
    if len(model) != len(impl):
        return False
    for k, h0, m, i_ in zip(kinds, heap0, model, impl):
        if k == "column" and m != i_:
            return False
        if k == "frame" and (m == h0) != (i_ == h0):
            return False
        if k == "reader" and last_wins(m) != last_wins(i_):
            return False
    return True


def evaluate(cases: t.List[dict], workers: int = 0) -> t.List[dict]:
    runs = vlib.parallel_map(_run_both, cases, workers)
    lean_cases = []
    metas = []
    for i, (c, (ri, ra)) in enumerate(zip(cases, runs)):
        evs, owner = events_with_reads(c, ri)
        lean_cases.append({"case": i, "events": evs, "heap": initial_heap(ri), "chain": []})
        metas.append(owner)
    outs = vlib.run_driver("C18", lean_cases)
    res = []
    for c, (ri, ra), o, owner in zip(cases, runs, outs, metas):
        if "err" in o:
            raise RuntimeError(f"driver rejected a case: {o}")
        problems: t.List[str] = []
        # (1) registries after every statement: model vs implementation
        last_for: t.Dict[int, dict] = {}
        for e_owner, sess in zip([x for x in owner if x >= 0], o["sessions"]):
            last_for[e_owner] = sess
        for idx, sess in last_for.items():
            snap = ri["log"][idx]["snap"]
            want = {
                "known": sorted(sess["known"]),
                "branch": sorted(sess["branch"]),
                "seq": sorted(sess["seq"]),
                "alias": {k: v for k, v in sess["alias"]},
                "counter": sess["counter"],
                "views": sorted(sess["catalog"]),
            }
            got = {k: snap[k] for k in want}
            if want != got:
                diff = {k: (want[k], got[k]) for k in want if want[k] != got[k]}
                problems.append(f"registries after statement {idx} ({ri['log'][idx]['op']}): model/implementation {json.dumps(diff)[:300]}")
                break
            mcols = {k: v for k, v in sess["cols"]}
            if {k: v for k, v in snap["cols"].items() if v is not None} != mcols:
                problems.append(f"catalog columns after statement {idx}: model {mcols} implementation {snap['cols']}")
                break
        # (1b) the Column objects the user holds, after every statement: model heap vs implementation
        heap0 = initial_heap(ri)
        if heap0:
            heap_for: t.Dict[int, t.Any] = {}
            for e_owner, hp in zip([x for x in owner if x <= APPLY], o["heaps"]):
                heap_for[APPLY - e_owner] = hp
            cur = heap0
            kinds = pool_kinds(c)
            for idx, rec in enumerate(ri["log"]):
                if rec["tag"] == "S" or "pool" not in rec:
                    continue
                cur = heap_for.get(idx, cur)
                if not heap_eq(kinds, heap0, cur, rec["pool"]):
                    problems.append(f"kept objects {list(zip(pool_of(c), kinds))} after statement {idx} ({rec['op']}): model {cur} implementation {rec['pool']} (initially {heap0})")
                    break
            # P alone (the random ids and CTE names of that run are its own: compare "changed or not" per object)
            alone0 = initial_heap(ra)
            last_alone = [rec["pool"] for rec in ra["log"] if "pool" in rec]
            if last_alone:
                m_changed = [(last_wins(a) != last_wins(b)) if k == "reader" else a != b for k, a, b in zip(kinds, o["heapOwn"], heap0)]
                i_changed = [(last_wins(a) != last_wins(b)) if k == "reader" else a != b for k, a, b in zip(kinds, last_alone[-1], alone0)]
                if m_changed != i_changed:
                    problems.append(f"held Column objects after P alone: model says changed={m_changed}, implementation {alone0} -> {last_alone[-1]}")
        # (1c) what qualify was given: the catalog's schema, and per source the columns the model's catalog holds
        for idx, rec in enumerate(ri["log"]):
            if rec["tag"] == "P" and rec["op"] == "sql" and rec.get("_srcs") is not None:
                qs = rec.get("qualify") or []
                if len(qs) != 1:
                    if not rec["err"]:
                        problems.append(f"statement {idx}: session.sql called qualify {len(qs)} times")
                    continue
                seen = sorted((a, n) for a, n, _ in qs[0]["tables"])
                if seen != sorted((a, n) for a, n in rec["_srcs"]):
                    problems.append(f"statement {idx}: sources of the statement {seen} are not the declared ones {rec['_srcs']}")
                for a, n, known in qs[0]["tables"]:
                    if (rec["snap"]["cols"].get(n) or []) != known:
                        problems.append(f"statement {idx}: qualify is not given the catalog's columns for {n}: {known} vs {rec['snap']['cols'].get(n)}")
        # (2) what P observed along the interleaving: model `full` vs implementation
        impl_full = [x[2] for x in impl_obs(ri)]
        model_full = o["full"]
        model_ok = len(model_full) == len(impl_full) and all(obs_eq(m, i_) for m, i_ in zip(model_full, impl_full))
        if not model_ok:
            k = next((j for j, (m, i_) in enumerate(zip(model_full, impl_full)) if not obs_eq(m, i_)), None)
            problems.append(f"observation {k}: model {model_full[k] if k is not None else len(model_full)} implementation {impl_full[k] if k is not None else len(impl_full)}")
        # (3) the property: P after / within H vs P alone
        obs_i = [canon_obs(*x) for x in impl_obs(ri)]
        obs_a = [canon_obs(*x) for x in impl_obs(ra)]
        errs_i = [bool(rec["err"]) for rec in ri["log"] if rec["tag"] == "P"]
        errs_a = [bool(rec["err"]) for rec in ra["log"] if rec["tag"] == "P"]
        independent = same_result(ri["result"], ra["result"]) and errs_i == errs_a
        lookups_same = obs_i == obs_a
        # model's own-run observations vs the implementation's alone run (positions / columns / attributions);
        # the model's `own` run uses the interleaved run's CTE names
        full_names = [x[1] for x in impl_obs(ri)]
        mo = []
        for j, m in enumerate(o["own"]):
            names = full_names[j] if j < len(full_names) else None
            if "cols" in m:
                mo.append(("v", json.dumps(m["cols"])))
            elif "resolved" in m:
                mo.append(("r", json.dumps(m["resolved"])))
            elif "state" in m:
                src = impl_obs(ri)[j][2] if j < len(full_names) else {}
                if src.get("kind") == "frame":
                    mo.append(("s", "as built" if m["state"] == src.get("initial") else "changed"))
                else:
                    mo.append(("s", json.dumps(last_wins(m["state"]), sort_keys=True)))
            elif m.get("raised"):
                mo.append(("q", "raised"))
            else:
                mo.append(("q", names.index(m["ident"]) if names and m["ident"] in names else "="))
        if len(mo) == len(obs_a) and mo != obs_a:
            k = next(j for j in range(len(mo)) if mo[j] != obs_a[j])
            problems.append(f"the model's run of P alone differs from the implementation's run of P alone at observation {k}: model {mo[k]} implementation {obs_a[k]}")
        # (4) read-only actions leave nothing the catalog reports
        leaks = []
        for run in (ri, ra):
            for rec in run["log"]:
                if "tables_before" in rec and (rec["tables_before"] != rec["tables_after"] or rec["tables_before_star"] != rec["tables_after_star"]):
                    leaks.append({"op": rec["op"], "before": rec["tables_before"], "after": rec["tables_after"], "after_star": rec["tables_after_star"]})
        n_q = [x for x in obs_i if x[0] == "q"]
        res.append(
            {
                "case": c,
                "inter": ri,
                "alone": ra,
                "scope": o["scope"],
                "problems": problems,
                "independent": independent,
                "lookups_same": lookups_same,
                "model_predicts_difference": o["full"] != o["own"],
                "leaks": leaks,
                "n_queries": len(n_q),
                "n_nontrivial_queries": sum(1 for x in n_q if isinstance(x[1], int)),
                "n_held": sum(1 for x in owner if x <= APPLY),
                "n_sql_reads": sum(1 for x in obs_i if x[0] == "r"),
            }
        )
    return res


def pre_cols(run: dict, rec: dict, view: str) -> t.Any:
    """catalog columns of `view` as the statement of `rec` saw them (registrations only happen in `register` steps)"""
    return rec["snap"]["cols"].get(view)


def obs_eq(m: dict, i_: t.Any) -> bool:
    if i_ is None:
        return False
    if "cols" in m:
        return isinstance(i_, dict) and "cols" in i_ and m["cols"] == i_["cols"]
    if "resolved" in m:
        return isinstance(i_, dict) and "resolved" in i_ and m["resolved"] == i_["resolved"]
    if "state" in m:
        if not (isinstance(i_, dict) and "state" in i_):
            return False
        if i_["kind"] == "frame":
            return (m["state"] == i_["initial"]) == (i_["state"] == i_["initial"])
        return last_wins(m["state"]) == last_wins(i_["state"])
    if m.get("raised"):
        return isinstance(i_, dict) and bool(i_.get("raised"))
    return isinstance(i_, dict) and i_.get("ident") == m.get("ident")


# ------------------------------------------------------------------------------------------------
# SQL text in fresh interpreters
# ------------------------------------------------------------------------------------------------

TEXT_PROGRAMS = [
    # (name, body of a function `build(s, F)` returning a DataFrame, combines a frame with a relative of itself?)
    ("chain", "a = s.createDataFrame([(1,'x'),(2,'y'),(3,None)], schema='k bigint, s string')\n    return a.where(F.col('k') > 1).select('k', (F.col('k') + 1).alias('j')).distinct()", False),
    ("alias_join", "a = s.createDataFrame([(1,'x'),(2,'y')], schema='k bigint, s string')\n    b = s.createDataFrame([(1,10),(5,50)], schema='k bigint, w bigint')\n    return a.alias('x').join(b.alias('y'), F.col('x.k') == F.col('y.k')).select(F.col('x.k').alias('k'), F.col('y.w').alias('w'))", False),
    ("view_sql", "a = s.createDataFrame([(1,'x'),(2,'y')], schema='k bigint, s string')\n    a.where(F.col('k') > 0).createOrReplaceTempView('va')\n    return s.sql('WITH c AS (SELECT x.k AS k FROM va AS x) SELECT c.k AS k FROM c').where(F.col('k') > 1)", False),
    ("handle", "a = s.createDataFrame([(1,'x'),(2,'y')], schema='k bigint, s string')\n    c = a['k']\n    a.select(c)\n    return a.distinct().where(c > 0)", False),
    ("groupby", "a = s.createDataFrame([(1,10),(1,20),(2,5)], schema='k bigint, w bigint')\n    return a.groupBy('k').agg(F.sum('w').alias('t')).where(F.col('t') > 5)", False),
    (
        "union_by_name_missing",
        "a = s.createDataFrame([(1,'x')], schema='k bigint, s string')\n    b = s.createDataFrame([(2, 10, 20, 30, 40, 50)], schema='k bigint, c1 bigint, c2 bigint, c3 bigint, c4 bigint, c5 bigint')\n    return a.unionByName(b, allowMissingColumns=True)",
        False,
        ["k", "s", "c1", "c2", "c3", "c4", "c5"],
    ),
    ("self_join", "a = s.createDataFrame([(1,'x'),(2,'y')], schema='k bigint, s string')\n    return a.join(a, on='k')", True),
    ("self_union", "a = s.createDataFrame([(1,'x'),(2,'y')], schema='k bigint, s string')\n    return a.union(a).where(F.col('k') > 0)", True),
    ("derived_self_join", "a = s.createDataFrame([(1,'x'),(2,'y')], schema='k bigint, s string')\n    b = a.where(F.col('k') > 0)\n    return b.join(a, on='k')", True),
]

TEXT_RUNNER = r"""
import sys, json
sys.path.insert(0, {repo!r})
import duckdb
from sqlframe.duckdb import DuckDBSession
from sqlframe.duckdb import functions as F
s = DuckDBSession(conn=duckdb.connect(':memory:'))
def build(s, F):
    {body}
df = build(s, F)
try:
    opt = df.sql()
except Exception as e:  # the sqlglot optimizer rejects some diamond-shaped lineages (a C03 matter): compare the unoptimized text
    opt = "OPTIMIZER-ERROR " + type(e).__name__
print(json.dumps({{"opt": opt, "raw": df.sql(optimize=False), "cols": list(df.columns), "rows": sorted(json.dumps(list(r), default=str) for r in df.collect())}}))
"""


def text_in_fresh_process(args: t.Tuple[str, str, int]) -> dict:
    name, body, seed = args
    src = TEXT_RUNNER.format(repo=vlib.REPO, body=body)
    env = dict(os.environ, PYTHONHASHSEED=str(seed))
    p = subprocess.run(["/venv/bin/python", "-c", src], capture_output=True, text=True, timeout=300, env=env)
    if p.returncode != 0:
        return {"name": name, "err": p.stderr[-400:]}
    try:
        return dict(json.loads(p.stdout.strip().split("\n")[-1]), name=name)
    except Exception as e:  # noqa
        return {"name": name, "err": f"unparsable output: {e}"}


def mask(text: str) -> str:
    """canonical form up to the disambiguating literals: the uuid literals and the hash names derived from them are
    replaced by placeholders numbered by first occurrence"""
    seen: t.Dict[str, str] = {}

    def sub(m: t.Match) -> str:
        k = m.group(0)
        if k not in seen:
            seen[k] = f"<{len(seen)}>"
        return seen[k]

    text = re.sub(r"'[0-9a-f]{32}'", sub, text)
    return re.sub(r"\bt\d{5,8}\b", sub, text)


def check_texts(ctx: Ctx) -> t.Dict[str, t.Any]:
    jobs = []
    for prog in TEXT_PROGRAMS:
        name, body = prog[0], prog[1]
        # two fresh interpreters with DIFFERENT string-hash seeds (set iteration order differs between them)
        jobs.append((name, body, 1))
        jobs.append((name, body, 2))
    import multiprocessing.pool as mpp

    with mpp.ThreadPool(8) as pool:
        outs = pool.map(text_in_fresh_process, jobs)
    by: t.Dict[str, t.List[dict]] = {}
    for o in outs:
        by.setdefault(o["name"], []).append(o)
    report = {}
    for prog in TEXT_PROGRAMS:
        name, body, combo = prog[0], prog[1], prog[2]
        want_cols = prog[3] if len(prog) > 3 else None
        a, b = by[name]
        if "err" in a or "err" in b:
            report[name] = {"error": (a.get("err") or b.get("err"))[-200:]}
            ctx.broken.append(f"text stream: program {name} failed in a fresh interpreter: {report[name]['error'][:120]}")
            continue
        same_rows = a["rows"] == b["rows"]
        if combo:
            ok = mask(a["opt"]) == mask(b["opt"]) and mask(a["raw"]) == mask(b["raw"])
        else:
            ok = a["opt"] == b["opt"] and a["raw"] == b["raw"]
        report[name] = {"identical": a["opt"] == b["opt"] and a["raw"] == b["raw"], "identical_up_to_literals": mask(a["opt"]) == mask(b["opt"]) and mask(a["raw"]) == mask(b["raw"]), "rows_equal": same_rows, "self_combination": combo}
        cols_ok = want_cols is None or (a.get("cols") == want_cols and b.get("cols") == want_cols)
        report[name]["columns_as_specified"] = cols_ok
        if not ok or not same_rows or not cols_ok:
            vlib.report_violation(
                ctx,
                {
                    "kind": "df.sql() / columns of the same program differ between two fresh interpreters (different PYTHONHASHSEED) or from the specified column order",
                    "program": body,
                    "self_combination": combo,
                    "columns_specified_by_pyspark": want_cols,
                    "process_A": {"PYTHONHASHSEED": 1, "columns": a.get("cols"), "sql": a["opt"], "sql_unoptimized": a["raw"]},
                    "process_B": {"PYTHONHASHSEED": 2, "columns": b.get("cols"), "sql": b["opt"], "sql_unoptimized": b["raw"]},
                },
            )
    return report


# ------------------------------------------------------------------------------------------------
# generated definitions against the running code
# ------------------------------------------------------------------------------------------------


def gen_values() -> t.Dict[str, str]:
    path = os.path.join(vlib.GEN_DIR, "SessionIds.lean")
    out: t.Dict[str, str] = {}
    if os.path.exists(path):
        for m in re.finditer(r"^def (\w+)(?: \([^)]*\))* : [^:=]+ := (.+)$", open(path).read(), flags=re.M):
            out[m.group(1)] = m.group(2).strip()
    return out


def live_decisions() -> t.Dict[str, str]:
    import zlib

    s = vlib.fresh_duckdb_session()
    out: t.Dict[str, str] = {}
    i1 = s._random_id
    out["sessIdSource"] = ".uuid4" if re.fullmatch(r"r[0-9a-f]{32}", i1) and i1 in s.known_ids else "other"
    out["sessCounterStart"] = str(s.incrementing_id)
    n1 = s._auto_incrementing_name
    out["sessCounterPrefix"] = json.dumps(n1[0])
    out["sessCounterStep"] = str(s.incrementing_id - int(n1[1:]))
    a = s.createDataFrame([(1, "x")], schema="k bigint, s string")
    h = a._create_hash_from_expression(a.expression)
    want = ("t" + str(zlib.crc32(a.expression.sql(dialect=s.input_dialect).encode("utf-8"))))[:9]
    out["sessHashParts"] = "[.sqlText]" if h == want else "other"
    before = set(s.known_sequence_ids)
    x = a.alias("zz")
    new = set(s.known_sequence_ids) - before
    out["sessAliasAppendsFreshSeq"] = "true" if len(new) == 1 and s.name_to_sequence_id_mapping.get("zz") == list(new) else "false"
    views0 = s._conn.execute("select count(*) from duckdb_views() where not internal and temporary").fetchone()[0]
    _ = a.schema
    views1 = s._conn.execute("select count(*) from duckdb_views() where not internal and temporary").fetchone()[0]
    out["sessSchemaViewTemporary"] = "true" if views1 == views0 + 1 else "false"
    # the two paths into normalize: is the caller's Column left alone?
    from sqlglot import exp as _exp

    def idents(col: t.Any) -> t.List[str]:
        return [i.name for i in col.expression.find_all(_exp.Identifier)]

    from sqlframe.duckdb import functions as F

    c1, c2 = F.col("zz.k") > 0, F.col("zz.k")
    b1, b2 = idents(c1), idents(c2)
    x.where(c1)
    x.select(c2)
    out["sessNormColCopies"] = "true" if idents(c1) == b1 else "false"
    out["sessNormColsCopies"] = "true" if idents(c2) == b2 else "false"
    c3 = F.col("zz.k")
    out["sessColumnCopyDeep"] = "true" if c3.copy().expression is not c3.expression and all(p is not q for p, q in zip(c3.copy().expression.find_all(_exp.Identifier), c3.expression.find_all(_exp.Identifier))) else "false"
    # builder objects are new at every access
    out["sessReadFresh"] = "true" if s.read is not s.read else "false"
    out["sessWriteFresh"] = "true" if a.write is not a.write else "false"
    out["sessNaFresh"] = "true" if a.na is not a.na else "false"
    out["sessStatFresh"] = "true" if a.stat is not a.stat else "false"
    # no method edits its receiver: derive a sibling with every transformation from a WHERE-level frame (the wrapper
    # hands such a receiver to most method bodies as it is) and compare the receiver's own text
    w = a.where(F.col("k") > 0)
    edited = []
    for name, call in SIBLING_CALLS.items():
        before = frame_digest(s, w)
        try:
            call(w, F)
        except Exception:  # noqa
            pass
        if frame_digest(s, w) != before:
            edited.append(name)
            w = a.where(F.col("k") > 0)
    out["sessInPlaceBuilderMethods"] = "[" + ", ".join(json.dumps(m) for m in sorted(edited)) + "]"
    # session.sql's infer_schema argument in the four session states the generated expression distinguishes
    seen = {}
    from sqlframe.base import session as S

    orig_q = S.qualify_func

    def spy(expression, **kw):
        seen["infer"] = kw.get("infer_schema")
        return orig_q(expression, **kw)

    S.qualify_func = spy
    try:
        vals = {}
        s2 = vlib.fresh_duckdb_session()
        s2.sql("SELECT 1 AS one")
        vals[(False, True)] = seen.get("infer")
        s2.createDataFrame([(1,)], schema="k bigint").createOrReplaceTempView("c18_v")
        s2.sql("SELECT 1 AS one")
        vals[(True, False)] = seen.get("infer")
    finally:
        S.qualify_func = orig_q
    out["sessSqlInferSchema@fresh"] = str(vals[(False, True)]).lower()
    out["sessSqlInferSchema@view"] = str(vals[(True, False)]).lower()
    return out


SIBLING_CALLS = {
    "distinct": lambda d, F: d.distinct(),
    "dropDuplicates": lambda d, F: d.dropDuplicates(),
    "select": lambda d, F: (d.select("k"), d.select(F.col("K"), F.col("S"))),
    "withColumn": lambda d, F: (d.withColumn("j", F.col("k") + 1), d.withColumn("S", F.col("s"))),
    "where": lambda d, F: d.where(F.col("k") > 1),
    "orderBy": lambda d, F: d.orderBy("k"),
    "limit": lambda d, F: d.limit(1),
    "groupBy": lambda d, F: d.groupBy("k").count(),
    "drop": lambda d, F: d.drop("s"),
    "withColumnRenamed": lambda d, F: (d.withColumnRenamed("s", "t"), d.withColumnRenamed("s", "S")),
    "toDF": lambda d, F: d.toDF("K", "S"),
    "union": lambda d, F: d.union(d),
    "intersect": lambda d, F: d.intersect(d),
    "join": lambda d, F: d.join(d, on="k"),
    "alias": lambda d, F: d.alias("c18_a"),
    "fillna": lambda d, F: d.fillna(0),
    "dropna": lambda d, F: d.dropna(),
    "count": lambda d, F: d.count(),
    "createOrReplaceTempView": lambda d, F: d.createOrReplaceTempView("c18_w"),
}


def eval_infer(expr: str, temp_views: bool, schema_empty: bool) -> str:
    """evaluate the generated Lean boolean expression over (tempViews, schemaEmpty)"""
    py = expr.replace("&&", " and ").replace("||", " or ").replace("!", " not ").replace("true", "True").replace("false", "False")
    return str(bool(eval(py, {"tempViews": temp_views, "schemaEmpty": schema_empty}))).lower()  # noqa: S307 (generated by gen_c18 from a closed grammar)


def check_gen(ctx: Ctx) -> t.Dict[str, t.Any]:
    gv = gen_values()
    try:
        lv = live_decisions()
    except Exception as e:  # noqa
        ctx.broken.append(f"Gen.SessionIds could not be exercised against the running code: {type(e).__name__}: {str(e)[:200]}")
        return {}
    if "sessSqlInferSchema" in gv:
        gv["sessSqlInferSchema@fresh"] = eval_infer(gv["sessSqlInferSchema"], False, True)
        gv["sessSqlInferSchema@view"] = eval_infer(gv["sessSqlInferSchema"], True, False)
    diff = {k: (gv.get(k), v) for k, v in lv.items() if gv.get(k) != v}
    if gv and diff:
        ctx.broken.append(f"Gen.SessionIds disagrees with the running code (generated, observed): {diff}")
    return {"generated": gv, "observed": lv}


# ------------------------------------------------------------------------------------------------
# the check
# ------------------------------------------------------------------------------------------------


def known_entries() -> t.Dict[str, dict]:
    known = {e["id"]: e for e in vlib.known_findings(ID)}
    extra = os.path.join(vlib.VERIF, "tools", "props", "c18.known.json")
    if os.path.exists(extra):
        for e in json.load(open(extra)).get("findings", []):
            if e.get("property") == ID and e.get("status") == "open":
                known.setdefault(e["id"], e)
    return known


def show_step(st: dict) -> str:
    op = st["op"]
    if op == "create":
        return f"{st['out']} = createDataFrame({st['tbl']})"
    if op == "where":
        return f"{st['out']} = {st['in']}.where({X.show(_tuple(st['p']))})"
    if op == "select":
        return f"{st['out']} = {st['in']}.select(" + ", ".join(f"{X.show(_tuple(e))}.alias({n!r})" for n, e in st["items"]) + ")"
    if op == "withColumn":
        return f"{st['out']} = {st['in']}.withColumn({st['n']!r}, {X.show(_tuple(st['e']))})"
    if op == "distinct":
        return f"{st['out']} = {st['in']}.distinct()"
    if op == "alias":
        return f"{st['out']} = {st['in']}.alias({st['name']!r})"
    if op == "select_qualified":
        return f"{st['out']} = {st['in']}.select(" + ", ".join(f"col({r!r}).alias({n!r})" for r, n in st["refs"]) + ")"
    if op == "mkcol":
        return f"{st['out']} = {X.show(_tuple(st['e']))}   # a Column object the user keeps"
    if op == "mkhandle":
        return f"{st['out']} = {st['in']}[{st['col']!r}]" + (f" > {st['lit']}" if st.get("lit") is not None else "") + "   # a Column object the user keeps"
    if op == "use":
        how, c, d = st["how"], st["c"], st["in"]
        call = {
            "where": f"{d}.where({c})",
            "where_and": f"{d}.where({c} & (col('k') > {st.get('lit')}))",
            "where_cmp": f"{d}.where({c} > {st.get('lit')})",
            "withColumn": f"{d}.withColumn('j', {c})",
            "select_as": f"{d}.select({c}.alias('j'))",
            "orderBy": f"{d}.orderBy({c})",
            "groupBy": f"{d}.groupBy({c}.alias('g')).agg(count(lit(1)).alias('n'))",
        }[how]
        return f"{st['out']} = {call}"
    if op == "union":
        return f"{st['out']} = {st['in']}.union({st['other']})"
    if op == "sibling":
        d = st["in"]
        call = {
            "rename_case": "withColumnRenamed(<last column>, <LAST COLUMN>)", "select_upper": "select(*[col(<C>) for every column])", "toDF_upper": "toDF(*<COLUMNS IN UPPER CASE>)",
            "withColumn_upper": "withColumn(<LAST COLUMN>, col(<last column>))",
            "distinct": "distinct()", "dropDuplicates": "dropDuplicates()", "orderBy": "orderBy(col(<first column>).desc())", "limit": "limit(1)",
            "groupBy": "groupBy(<first column>).agg(count(lit(1)).alias('n'))", "drop": "drop(<last column>)", "withColumnRenamed": "withColumnRenamed(<last column>, 'renamed')",
            "union_self": f"union({d})", "intersect_self": f"intersect({d})", "where": "where(col(<first column>) > 1)", "select": "select(col(<first column>))",
            "alias": "alias('z')", "join_self": f"join({d}, on=<first column>)", "fillna": "fillna(0)", "dropna": "dropna()", "count": "count()  # and keeps the frame",
        }[st["how"]]
        return f"{st['out']} = {d}.{call}"
    if op == "read":
        chain = "".join((f".format({i[1]!r})" if i[0] == "format" else f".option({i[1]!r}, {i[2]!r})" if i[0] == "option" else f".options(**{i[1]!r})") for i in st["chain"])
        kw = "".join(f", {k}={v!r}" for k, v in (st.get("kwargs") or {}).items())
        return f"{st['out']} = session.read{chain}.{st['call']}(<{st['file']}.csv>{kw})"
    if op == "catalog":
        return f"session.catalog.{st['what']}(" + ("" if st["what"] == "listTables" else repr(st["name"])) + ")"
    if op == "join_alias" and st.get("on_obj"):
        return f"{st['out']} = {st['l']}.join({st['r']}, {st['on_obj']}).select(" + ", ".join(f"col({r!r}).alias({n!r})" for r, n in st["sel"]) + ")"
    if op == "join_alias":
        return f"{st['out']} = {st['l']}.join({st['r']}, col({st['on'][0]!r}) == col({st['on'][1]!r})).select(" + ", ".join(f"col({r!r}).alias({n!r})" for r, n in st["sel"]) + ")"
    if op == "handle_reuse":
        return f"c = {st['in']}[{st['col']!r}]; {st['in']}.select(c); {st['out']} = {st['in']}.distinct().where(c > {st['lit']})"
    if op == "register":
        return f"{st['in']}.createOrReplaceTempView({st['name']!r})"
    if op == "sql":
        return f"{st['out']} = session.sql({st['text']!r})"
    if op in ("table", "table_real"):
        return f"{st['out']} = session.table({st['name']!r})" + ("   # a permanent table" if op == "table_real" else "")
    if op in ("collect", "count", "show", "schema"):
        return f"{st['in']}.{op}" + ("" if op == "schema" else "()")
    if op == "bad_collect":
        return f"{st['in']}.select(col('no_such_column')).collect()  # raises"
    if op == "bad_sql":
        return "session.sql('SELECT * FROM no_such_table_anywhere').collect()  # raises"
    return str(st)


def show_case(c: dict) -> t.List[str]:
    out = [f"{k} = {v}" for k, v in c["data"].items()] + [f"file {n}.csv = {[f['header']] + f['rows']}" for n, f in (c.get("files") or {}).items()] + [f"permanent table {n}{list(REAL_TABLES[n]['schema'])} = {REAL_TABLES[n]['rows']}" for n in c.get("tables", [])]
    out += ["[shared] " + show_step(s) + ("   # kept and used again" if s.get("held") else "") for s in c["prelude"]]
    for tag, i in c["inter"]:
        out.append(f"[{tag}] " + show_step((c["P"] if tag == "P" else c["H"])[i]))
    out.append(f"result: {c['result']}.collect()   (compared with the same [P] statements alone in a fresh session)")
    return out


def cases_for(ctx: Ctx) -> t.List[dict]:
    cases: t.List[dict] = []
    corpus_dir = os.path.join(vlib.VERIF, "corpus", ID)
    if os.path.isdir(corpus_dir):
        for fn in sorted(os.listdir(corpus_dir)):
            if fn.endswith(".json"):
                c = json.load(open(os.path.join(corpus_dir, fn)))
                c["origin"] = "corpus:" + fn
                cases.append(c)
    for _ in range(64 if ctx.thorough else 16):
        c = family_shadow_table(ctx.rng)
        c["origin"] = "family_shadow_table"
        cases.append(c)
    # a Column object handed to a method by other work, then by P: every kind of object x every method on H's side;
    # P's method at random (quick) or every pair (thorough)
    for kind in POOL_KINDS:
        hows = ["join"] if kind == "jcond" else USE_HOWS["bool" if kind in ("qpred", "pred", "hpred") else "int"]
        for hh in hows:
            for hp in hows if ctx.thorough else [ctx.rng.choice(hows)]:
                c = family_held_columns(ctx.rng, kind, hh, hp, share_frame=ctx.rng.random() < 0.5)
                if c:
                    c["origin"] = f"family_held_columns:{kind}:{hh}:{hp}"
                    cases.append(c)
    # a DataFrame that is kept while a sibling is derived from it: every shape of kept frame x every derivation
    # (quick: each derivation on two shapes, each shape with two derivations)
    combos = [(sh, hw) for sh in HELD_SHAPES for hw in SIBLING_HOWS]
    if not ctx.thorough:
        combos = [(ctx.rng.choice(HELD_SHAPES), hw) for hw in SIBLING_HOWS for _ in range(2)] + [(sh, ctx.rng.choice(SIBLING_HOWS)) for sh in HELD_SHAPES for _ in range(2)]
        combos += [(sh, hw) for sh in ("where", "alias", "union", "join") for hw in ("distinct", "dropDuplicates", "limit", "orderBy", "rename_case", "toDF_upper")]
    for sh, hw in combos:
        c = family_held_frames(ctx.rng, sh, hw, ctx.rng.choice(["collect", "collect", "count", "derive", "own_sibling"]))
        if c:
            c["origin"] = f"family_held_frames:{sh}:{hw}"
            cases.append(c)
    # builder objects: the reader other work configured x the way P reads
    for hc in READ_CHAINS_H:
        for pc in READ_CHAINS_P if ctx.thorough else ctx.rng.sample(READ_CHAINS_P, 2):
            c = family_readers(ctx.rng, hc, pc)
            c["origin"] = "family_readers"
            cases.append(c)
    # session.sql over permanent tables / own views with unqualified columns x what other work made the session know
    for shape in range(6):
        for hist in SQL_HISTORIES if ctx.thorough else ctx.rng.sample(SQL_HISTORIES, 4):
            c = family_sql_tables(ctx.rng, shape, hist)
            if c:
                c["origin"] = f"family_sql_tables:{shape}:{hist}"
                cases.append(c)
    n = 1500 if ctx.thorough else 180
    for _ in range(n):
        c = gen_case(ctx.rng)
        c["origin"] = "random"
        cases.append(c)
    return cases


def is_violation(r: dict, known: t.Dict[str, dict]) -> t.Tuple[str, t.List[str]]:
    """'ok' | 'known' | 'violation' | 'model'"""
    if r["independent"] and r["lookups_same"] and not r["leaks"]:
        return ("model", []) if r["problems"] else ("ok", [])
    sc = [h for h in r["scope"] if h in DEFECT_HYPS or h.startswith("H_")]
    if not r["problems"] and not r["leaks"] and sc and all(h in known for h in sc) and r["model_predicts_difference"]:
        return "known", sc
    return "violation", sc


def shrink(c: dict, known: t.Dict[str, dict], rounds: int = 8) -> dict:
    best = c
    for _ in range(rounds):
        cands = []
        for j in range(len(best["inter"])):
            tag, i = best["inter"][j]
            if tag == "H":
                inter = best["inter"][:j] + best["inter"][j + 1 :]
                cands.append(dict(best, inter=inter))
        for tb in best["data"]:
            for i in range(len(best["data"][tb])):
                if len(best["data"][tb]) > 1:
                    d = dict(best["data"])
                    d[tb] = d[tb][:i] + d[tb][i + 1 :]
                    cands.append(dict(best, data=d))
        if not cands:
            break
        try:
            res = evaluate(cands, workers=1)
        except Exception:
            break
        nxt = next((r["case"] for r in res if is_violation(r, known)[0] == "violation"), None)
        if nxt is None:
            break
        best = nxt
    return best


def replay_dict(r: dict, ctx: Ctx, kind: str) -> dict:
    c = r["case"]
    return {
        "kind": kind,
        "program": show_case(c),
        "case": {k: v for k, v in c.items() if k != "origin"},
        "result_after_history": r["inter"]["result"],
        "result_alone": r["alone"]["result"],
        "errors_after_history": [[rec["op"], rec["err"]] for rec in r["inter"]["log"] if rec["tag"] == "P" and rec["err"]],
        "errors_alone": [[rec["op"], rec["err"]] for rec in r["alone"]["log"] if rec["tag"] == "P" and rec["err"]],
        "catalog_leaks": r["leaks"],
        "violated_scope_hypotheses": r["scope"],
        "correspondence_problems": r["problems"],
        "broken": ctx.broken,
    }


def run(ctx: Ctx) -> None:
    idx = vlib.props_index()[ID]
    vlib.prove(ctx, MODULES, GEN, idx["theorems"], SOURCES)
    known = known_entries()

    cases = cases_for(ctx)
    res = evaluate(cases)  # forks workers: nothing in this process has touched DuckDB yet
    gen_info = check_gen(ctx)

    counts = {"ok": 0, "known": 0, "violation": 0, "model": 0}
    viol: t.List[dict] = []
    model_bad: t.List[dict] = []
    ops: t.Dict[str, int] = {}
    nq = nqn = 0
    ro_actions = 0
    raised = 0
    nontrivial = set()
    origins: t.Dict[str, int] = {}
    for r in res:
        o_ = str(r["case"].get("origin", "?")).split(":")[0]
        origins[o_] = origins.get(o_, 0) + 1
        kind, sc = is_violation(r, known)
        counts[kind] += 1
        if kind == "known":
            for h in sc:
                vlib.report_known(ctx, known[h], known[h]["summary"])
        elif kind == "violation":
            viol.append(r)
        elif kind == "model":
            model_bad.append(r)
        for rec in r["inter"]["log"]:
            ops[rec["op"]] = ops.get(rec["op"], 0) + 1
            ro_actions += "tables_before" in rec
            raised += bool(rec["err"])
        nq += r["n_queries"]
        nqn += r["n_nontrivial_queries"]
        if r["n_nontrivial_queries"] and "rows" in r["inter"]["result"] and r["inter"]["result"]["rows"]:
            nontrivial.add(vlib.digest([r["case"]["P"], r["case"]["inter"], r["case"]["data"]]))

    # recorded witnesses of the open known findings
    for h, e in known.items():
        w = e.get("witness")
        if isinstance(w, dict) and "inter" in w:
            try:
                rr = evaluate([w], workers=1)[0]
            except Exception as ex:  # noqa
                ctx.broken.append(f"witness of {h} could not be replayed: {ex}")
                continue
            if not (rr["independent"] and rr["lookups_same"]):
                vlib.report_known(ctx, e, e["summary"])

    model_bad += [r for r in viol if r["problems"]]
    if model_bad:
        ctx.broken.append(f"correspondence stream A (implementation vs Impl/C18Session.lean): {len(model_bad)} of {len(res)} histories differ: " + "; ".join(model_bad[0]["problems"])[:300])

    texts = check_texts(ctx)

    reported = len(ctx.violations)
    seen = set()
    for r in viol:
        if reported >= 3:
            break
        c = shrink(r["case"], known)
        key = vlib.digest([c["P"], c["inter"]])
        if key in seen:
            continue
        seen.add(key)
        rr = evaluate([c], workers=1)[0]
        vlib.report_violation(ctx, replay_dict(rr if is_violation(rr, known)[0] == "violation" else r, ctx, "the result of a program depends on what else the session did (or a read-only action left a catalog-visible object)"))
        reported += 1
    if ctx.broken and not reported:
        vlib.report_violation(
            ctx,
            {
                "kind": "proof obligation or correspondence no longer checks; no failing input found",
                "broken": ctx.broken,
                "searched": {"histories": len(res), "normalisation_queries": nq, "statement_kinds": ops},
                "first_disagreement": replay_dict(model_bad[0], ctx, "disagreement") if model_bad else None,
            },
            no_input=True,
        )

    step = max(1, len(res) // 4)
    ctx.cov.update(
        {
            "evaluations": len(res),
            "distinct_nontrivial": len(nontrivial),
            "rule": "corpus; targeted families: a temp view shadowing a looked-up table; a kept Column object (alias-qualified reference / predicate / "
            "expression / join condition / df['c'] handle) handed to where / withColumn / select / orderBy / groupBy / join first by H then by P — every kind x "
            "every method; a kept DataFrame (leaf / result of where, alias, union, join, select, withColumn, distinct) from which H or P derives a sibling by "
            "every transformation, used again afterwards, over data with duplicate rows and NULLs; file reads through builder chains on session.read "
            "(every H chain x P chains); session.sql over permanent tables / own views with unqualified columns x histories of unrelated views, table "
            "lookups, catalog calls, schema lookups, failing statements; then random (P, H, interleaving): P = 2-4 construction steps (chains, alias + "
            "qualified references, aliased joins, reused df['col'] handles, kept Column objects and DataFrames, createOrReplaceTempView + session.sql / "
            "session.table, statements over permanent tables, file reads, further transformation of SQL results), "
            "H = 2-5 steps of the same vocabulary sharing alias names (x, y and the column name k), view names, source data, the kept objects, "
            "plus collect/count/show/schema, catalog API calls and actions that raise; random merges (H first in a quarter of the cases); "
            "P's rows, columns, errors and lookup outcomes are compared with P alone in a fresh session; non-trivial = distinct (P, interleaving, data) "
            "with at least one identifier rewritten to a CTE name and a non-empty result",
            "traces_validated_against_impl": len(res) - len(model_bad),
            "history_independent": counts["ok"],
            "known_finding_histories": counts["known"],
            "normalisation_queries": nq,
            "applications_of_kept_objects": sum(r["n_held"] for r in res),
            "sql_statements_with_observed_qualification": sum(r["n_sql_reads"] for r in res),
            "case_origin_histogram": origins,
            "identifiers_rewritten": nqn,
            "read_only_actions_checked": ro_actions,
            "statements_that_raised": raised,
            "statement_kind_histogram": ops,
            "sql_text_two_fresh_interpreters": texts,
            "gen_vs_live": gen_info,
            "samples": [{"history": show_case(r["case"]), "result": r["inter"]["result"]} for r in res[::step][:4]],
        }
    )
    ctx.assumptions += [
        "uuid4 values are fresh (hypothesis H_idsFresh of C18_history); user alias / column names are not of the shape r<32 hex>",
        "P does not read a view name that other work registers between P's own registration and P's read (the registry is shared state by design)",
        "objects that outlive a statement (kept Columns, kept DataFrames, the reader session.read hands out) are modelled as a heap; that the code never writes to it is proved from regenerated decisions (copies on both normalize paths, no in-place builder call on self.expression, accessors that construct a new object) and observed after every statement; whether the @operation wrapper shields a receiver is computed by the harness from the decorator's rule",
        "what sqlglot's qualify does with an unqualified column (Resolver.get_table) is assumed as `resolveCol` and validated on every generated statement",
        "the rendered text is a function of the CTE bodies, their reference structure and the inserted literals (C18_text); equality of those across processes is checked by running two fresh interpreters",
    ]


def replay(ctx: Ctx, rp: dict) -> None:
    c = rp.get("case")
    if not c:
        print("replay names a broken obligation or a text difference, not a history:", rp.get("broken") or rp.get("kind"))
        return
    known = known_entries()
    r = evaluate([c], workers=1)[0]
    kind, sc = is_violation(r, known)
    print(json.dumps({"program": show_case(c), "after_history": r["inter"]["result"], "alone": r["alone"]["result"], "scope": r["scope"], "verdict": kind, "problems": r["problems"]}, indent=1, default=str))
    if kind == "violation" or kind == "model":
        vlib.report_violation(ctx, replay_dict(r, ctx, rp.get("kind", "replay")))
    elif kind == "known":
        for h in sc:
            vlib.report_known(ctx, known[h], known[h]["summary"])
