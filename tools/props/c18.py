"""
C18 — a pipeline's meaning does not depend on session history; its SQL is reproducible.

proof      : lean/SqlframeModel/Props/C18.lean (C18_alias_scope, C18_history by induction over interleavings,
             C18_failed_action_no_state, C18_readonly_no_objects, C18_text + counterexample theorems) over the
             regenerated Gen.SessionIds / Gen.Views
tie        : the correspondence stream runs programs P interleaved with other work H on real sqlframe + DuckDB with
             `normalize`'s two lookups instrumented, and replays the same events on the Lean model
             (Impl/C18Session.lean): registry contents after every statement, every identifier after normalisation,
             the catalog columns every SQL statement is qualified against
search     : the same stream compares P's rows / columns / errors (and lookup outcomes) after H with P alone, the SQL
             text of P in two fresh interpreters, and catalog.listTables() around read-only actions
"""
from __future__ import annotations

import copy
import json
import os
import random
import re
import subprocess
import sys
import typing as t

import exprs as X
import vlib
from vlib import Ctx, bag, log, plain

ID = "C18"
LEVEL = "proof"
MODULES = ["SqlframeModel.Codec.C18", "SqlframeModel.Props.C18"]
GEN = ["SessionIds", "Views"]
SOURCES = ["SqlframeModel/Props/C18.lean", "SqlframeModel/Lemmas/C18.lean", "SqlframeModel/Impl/C18Session.lean"]

TABLES = {
    "T1": {"schema": {"k": "int", "s": "str"}},
    "T2": {"schema": {"k": "int", "w": "int"}},
}
ALIASES = ["x", "y"]
COLUMN_LIKE_ALIASES = ["k", "s", "w"]  # other work may alias a DataFrame with a name that is a column name of P
VIEWS = ["va", "vb"]
REAL_TABLES = {"items": {"schema": {"k": "int", "z": "int"}, "rows": [[1, 100], [2, 200]]}}  # a permanent table of the engine
DEFECT_HYPS = {"H_ctesHaveIds", "H_viewColumnsStable"}


def _tuple(e: t.Any) -> t.Any:
    if isinstance(e, (list, tuple)):
        return tuple(_tuple(x) if isinstance(x, (list, tuple)) else x for x in e)
    return e


# ------------------------------------------------------------------------------------------------
# programs: straight-line scripts over named variables
# ------------------------------------------------------------------------------------------------


class PGen:
    """generates one program; `pre` prefixes its variables; `shared` are frames both programs may read"""

    def __init__(self, rng: random.Random, pre: str, shared: t.Dict[str, dict], role: str):
        self.rng = rng
        self.pre = pre
        self.vars: t.Dict[str, dict] = dict(shared)  # var -> {"schema": {...}, "alias": name|None}
        self.steps: t.List[dict] = []
        self.n = 0
        self.role = role
        self.use_real = False
        self.views: t.Dict[str, dict] = {}  # view name -> schema (own registrations)

    def fresh(self) -> str:
        self.n += 1
        return f"{self.pre}{self.n}"

    def frames(self, pred: t.Callable[[dict], bool] = lambda v: True) -> t.List[str]:
        return [k for k, v in self.vars.items() if pred(v)]

    def add(self, step: dict, schema: t.Optional[dict] = None, **info: t.Any) -> t.Optional[str]:
        self.steps.append(step)
        if "out" in step and schema is not None:
            self.vars[step["out"]] = dict(schema=schema, **info)
            return step["out"]
        return None

    def create(self) -> str:
        tb = self.rng.choice(list(TABLES))
        return self.add({"op": "create", "out": self.fresh(), "tbl": tb}, dict(TABLES[tb]["schema"]), alias=None, kind="df")

    def chain_op(self, u: str) -> str:
        r = self.rng
        sch = self.vars[u]["schema"]
        g = X.Gen(r, sch)
        c = r.random()
        info = dict(alias=None, kind=self.vars[u].get("kind", "df"))
        if c < 0.4:
            return self.add({"op": "where", "out": self.fresh(), "in": u, "p": g.bool_expr(r.choice([1, 2]))}, dict(sch), **info)
        if c < 0.7:
            items = []
            names = []
            if "k" in sch:
                items.append(["k", ("col", "k")])
                names.append("k")
            e, ty = g.any_expr(2)
            n_ = r.choice([x for x in ["j", "m", "w", "s"] if x not in names])
            items.append([n_, e])
            out_s = {"k": "int"} if "k" in sch else {}
            out_s[n_] = ty
            return self.add({"op": "select", "out": self.fresh(), "in": u, "items": items}, out_s, **info)
        if c < 0.85:
            e, ty = g.any_expr(2)
            n_ = r.choice(["j", "m"])
            out_s = dict(sch)
            out_s[n_] = ty
            return self.add({"op": "withColumn", "out": self.fresh(), "in": u, "n": n_, "e": e}, out_s, **info)
        return self.add({"op": "distinct", "out": self.fresh(), "in": u}, dict(sch), **info)

    def alias(self, u: str, name: str, kind: str = "df") -> str:
        return self.add({"op": "alias", "out": self.fresh(), "in": u, "name": name}, dict(self.vars[u]["schema"]), alias=name, kind=kind)

    def join_alias(self) -> t.Optional[str]:
        r = self.rng
        ks = self.frames(lambda v: "k" in v["schema"] and v.get("kind") == "df")
        if len(ks) < 1:
            return None
        u1, u2 = r.choice(ks), r.choice(ks)
        n1, n2 = r.sample(["x", "y"], 2)
        a1 = self.alias(u1, n1)
        a2 = self.alias(u2, n2)
        c1 = [c for c in self.vars[u1]["schema"] if c != "k"]
        c2 = [c for c in self.vars[u2]["schema"] if c != "k"]
        sel = [[f"{n1}.k", "k"]]
        out_s = {"k": "int"}
        if c1:
            sel.append([f"{n1}.{c1[0]}", "a1"])
            out_s["a1"] = self.vars[u1]["schema"][c1[0]]
        if c2:
            sel.append([f"{n2}.{c2[0]}", "a2"])
            out_s["a2"] = self.vars[u2]["schema"][c2[0]]
        return self.add({"op": "join_alias", "out": self.fresh(), "l": a1, "r": a2, "on": [f"{n1}.k", f"{n2}.k"], "sel": sel}, out_s, alias=None, kind="join")

    def alias_select(self) -> t.Optional[str]:
        """df.alias(n).select(col('n.c'))"""
        r = self.rng
        fs = self.frames(lambda v: v.get("kind") == "df")
        if not fs:
            return None
        u = r.choice(fs)
        n = r.choice(ALIASES)
        a = self.alias(u, n)
        cols = list(self.vars[u]["schema"])
        c = r.choice(cols)
        return self.add({"op": "select_qualified", "out": self.fresh(), "in": a, "refs": [[f"{n}.{c}", c]]}, {c: self.vars[u]["schema"][c]}, alias=None, kind="df")

    def alias_only(self) -> t.Optional[str]:
        """df.alias(n) with n a column name somewhere else (never used for qualified references here:
        `df.alias('k').select(col('k.k'))` rewrites the column identifier too — a C02/C10 matter, not history)"""
        fs = self.frames(lambda v: v.get("kind") == "df")
        if not fs:
            return None
        return self.alias(self.rng.choice(fs), self.rng.choice(COLUMN_LIKE_ALIASES), kind="aliased-only")  # not used further

    def handle(self) -> t.Optional[str]:
        """c = df['k']; df.select(c) (discarded); df.distinct().where(c > 0)   — the Column handle is reused"""
        fs = self.frames(lambda v: "k" in v["schema"] and v.get("kind") == "df")
        if not fs:
            return None
        u = self.rng.choice(fs)
        return self.add({"op": "handle_reuse", "out": self.fresh(), "in": u, "col": "k", "lit": self.rng.choice([0, 1, 2])}, dict(self.vars[u]["schema"]), alias=None, kind="df")

    def view_sql(self, foreign_views: t.Dict[str, dict]) -> t.Optional[str]:
        r = self.rng
        fs = self.frames(lambda v: v.get("kind") == "df")
        if not fs:
            return None
        u = r.choice(fs)
        name = r.choice(VIEWS + (list(REAL_TABLES) if self.use_real else []))  # a temp view may shadow a permanent table
        sch = self.vars[u]["schema"]
        self.add({"op": "register", "in": u, "name": name, "cols": list(sch)})
        self.views[name] = sch
        cols = list(sch)
        c = r.choice(cols)
        shape = r.random()
        if shape < 0.35:
            text, out_s = f"SELECT * FROM {name}", dict(sch)
        elif shape < 0.7:
            text, out_s = f"SELECT x.{c} AS {c} FROM {name} AS x", {c: sch[c]}
        else:
            text, out_s = f"WITH c AS (SELECT x.{c} AS {c} FROM {name} AS x) SELECT c.{c} AS {c} FROM c", {c: sch[c]}
        v = self.add({"op": "sql", "out": self.fresh(), "text": text, "views": [name]}, out_s, alias=None, kind="sqlcte" if text.startswith("WITH") else "sql")
        if r.random() < 0.6:
            # transform the result further, by a plain column name (the C18 alias-named-like-a-column case)
            g = X.Gen(r, out_s)
            v = self.add({"op": "where", "out": self.fresh(), "in": v, "p": g.bool_expr(1)}, dict(out_s), alias=None, kind=self.vars[v]["kind"])
        return v

    def table_real(self) -> str:
        """session.table(<permanent table>): the session catalog caches the table's columns"""
        name = self.rng.choice(list(REAL_TABLES))
        return self.add({"op": "table_real", "out": self.fresh(), "name": name}, dict(REAL_TABLES[name]["schema"]), alias=None, kind="df")

    def table_read(self) -> t.Optional[str]:
        if not self.views:
            return None
        name = self.rng.choice(list(self.views))
        return self.add({"op": "table", "out": self.fresh(), "name": name, "views": [name]}, dict(self.views[name]), alias=None, kind="view")

    def action(self) -> None:
        r = self.rng
        fs = self.frames()
        if not fs:
            return
        u = r.choice(fs)
        c = r.random()
        if c < 0.3:
            self.add({"op": "collect", "in": u})
        elif c < 0.45:
            self.add({"op": "count", "in": u})
        elif c < 0.6:
            self.add({"op": "show", "in": u})
        elif c < 0.8:
            self.add({"op": "schema", "in": u})
        elif c < 0.9:
            self.add({"op": "bad_collect", "in": u})
        else:
            self.add({"op": "bad_sql"})

    def build(self, n_steps: int, with_actions: bool) -> t.Tuple[t.List[dict], t.Optional[str]]:
        r = self.rng
        last = None
        if not self.frames(lambda v: v.get("kind") == "df") or r.random() < 0.7:
            last = self.create()
        if self.role == "H" and r.random() < 0.35:
            self.alias_only()
        for _ in range(n_steps):
            c = r.random()
            v = None
            if c < 0.3:
                fs = self.frames(lambda v_: v_.get("kind") in ("df", "sql", "sqlcte", "view"))
                if fs:
                    v = self.chain_op(r.choice(fs))
            elif c < 0.45:
                v = self.alias_select()
            elif c < 0.6:
                v = self.join_alias()
            elif c < 0.7:
                v = self.handle()
            elif c < 0.85:
                v = self.view_sql({})
            elif c < 0.9:
                v = self.table_read()
            elif c < 0.95:
                v = self.create()
                if self.role == "H" and r.random() < 0.6:
                    self.alias_only()
                if self.role == "H" and self.use_real and r.random() < 0.7:
                    self.table_real()
            elif with_actions:
                self.action()
            if v:
                last = v
            if with_actions and r.random() < 0.25:
                self.action()
        return self.steps, last


def gen_case(rng: random.Random) -> dict:
    data = {tb: X.gen_table(rng, TABLES[tb]["schema"], 4) or [[1, "a"] if tb == "T1" else [1, 10]] for tb in TABLES}
    shared: t.Dict[str, dict] = {}
    prelude: t.List[dict] = []
    if rng.random() < 0.5:
        # a DataFrame handle both programs use (other DataFrames over the same data *and* the same object)
        tb = rng.choice(list(TABLES))
        prelude.append({"op": "create", "out": "s1", "tbl": tb})
        shared["s1"] = {"schema": dict(TABLES[tb]["schema"]), "alias": None, "kind": "df"}
    use_real = rng.random() < 0.3
    pg = PGen(rng, "p", shared, "P")
    pg.use_real = use_real
    psteps, pres = pg.build(rng.randint(2, 4), with_actions=False)
    if pres is None:
        pres = pg.create()
        psteps = pg.steps
    hg = PGen(rng, "h", shared, "H")
    hg.use_real = use_real
    if use_real and rng.random() < 0.7:
        hg.table_real()
    hsteps, _ = hg.build(rng.randint(2, 5), with_actions=True)
    inter = interleave(rng, psteps, hsteps)
    return {"data": data, "tables": (list(REAL_TABLES) if use_real else []), "prelude": prelude, "P": psteps, "H": hsteps, "inter": inter, "result": pres}


def family_shadow_table(rng: random.Random) -> dict:
    """other work reads a permanent table through the session; P then registers a temp view of the same name
    (legal: a temp view shadows a table) with other columns and queries it"""
    data = {tb: X.gen_table(rng, TABLES[tb]["schema"], 4) or [[1, "a"] if tb == "T1" else [1, 10]] for tb in TABLES}
    tb = rng.choice(list(TABLES))
    cols = list(TABLES[tb]["schema"])
    c = rng.choice(cols)
    text = rng.choice(["SELECT * FROM items", f"SELECT x.{c} AS {c} FROM items AS x", f"WITH c AS (SELECT * FROM items) SELECT c.{c} AS {c} FROM c"])
    P = [
        {"op": "create", "out": "p1", "tbl": tb},
        {"op": "register", "in": "p1", "name": "items", "cols": cols},
        {"op": "sql", "out": "p2", "text": text, "views": ["items"]},
    ]
    H: t.List[dict] = [{"op": "table_real", "out": "h1", "name": "items"}]
    if rng.random() < 0.5:
        H.append({"op": rng.choice(["collect", "count", "schema"]), "in": "h1"})
    if rng.random() < 0.4:
        H.append({"op": "where", "out": "h2", "in": "h1", "p": ("bin", "gt", ("col", "z"), ("lit", 0))})
    inter = [["H", i] for i in range(len(H))] + [["P", i] for i in range(len(P))]
    if rng.random() < 0.4 and len(H) > 1:  # part of the other work comes after P's registration
        inter = [["H", 0], ["P", 0], ["P", 1]] + [["H", i] for i in range(1, len(H))] + [["P", 2]]
    return {"data": data, "tables": list(REAL_TABLES), "prelude": [], "P": P, "H": H, "inter": inter, "result": "p2"}


def interleave(rng: random.Random, ps: t.List[dict], hs: t.List[dict]) -> t.List[t.List[t.Any]]:
    """random merge; a step of H that registers a view name is not placed between P's registration of that name
    and P's last read of it (that dependence is the shared registry working as designed)"""
    mode = rng.random()
    if mode < 0.25:
        order = ["H"] * len(hs) + ["P"] * len(ps)
    else:
        order = ["H"] * len(hs) + ["P"] * len(ps)
        rng.shuffle(order)
    pi = hi = 0
    out: t.List[t.List[t.Any]] = []
    open_views: t.Set[str] = set()

    def p_reads_later(name: str, from_i: int) -> bool:
        return any(name in s.get("views", []) for s in ps[from_i:])

    pending_h: t.List[int] = []
    for tag in order:
        if tag == "P":
            s = ps[pi]
            out.append(["P", pi])
            if s["op"] == "register":
                open_views.add(s["name"])
            pi += 1
            open_views = {v for v in open_views if p_reads_later(v, pi)}
        else:
            s = hs[hi]
            if s["op"] == "register" and s["name"] in open_views:
                pending_h.append(hi)  # deferred, with everything of H after it (order of H is kept)
                hi += 1
                continue
            if pending_h:
                pending_h.append(hi)
                hi += 1
                continue
            out.append(["H", hi])
            hi += 1
    # P may still have steps: flush them, then the deferred part of H
    while pi < len(ps):
        out.append(["P", pi])
        pi += 1
    for j in pending_h:
        out.append(["H", j])
    return out


# ------------------------------------------------------------------------------------------------
# the interpreter on real sqlframe, instrumented
# ------------------------------------------------------------------------------------------------

_HOOKED = False
_TRACE: t.List[dict] = []


def install_hook() -> None:
    """record, for every identifier `normalize` processes, the CTE chain, the identifier and what it became"""
    global _HOOKED
    if _HOOKED:
        return
    if vlib.REPO not in sys.path:
        sys.path.insert(0, vlib.REPO)
    from sqlframe.base import normalize as N
    from sqlframe.base.util import get_tables_from_expression_with_join

    orig_a = N.replace_alias_name_with_cte_name
    orig_b = N.replace_branch_and_sequence_ids_with_cte_name

    def wrap_a(session, ctx, ident):
        rec = {
            "ctx": [[c.alias_or_name, c.args.get("branch_id"), c.args.get("sequence_id")] for c in ctx.ctes],
            "joined": [x.alias_or_name for x in get_tables_from_expression_with_join(ctx)] if ctx.args.get("joins") else [],
            "ident": session._normalize_string(ident.alias_or_name),
            "after": None,
        }
        _TRACE.append(rec)
        try:
            return orig_a(session, ctx, ident)
        except KeyError:
            rec["after"] = {"raised": True}
            raise

    def wrap_b(session, ctx, ident):
        rec = _TRACE[-1] if _TRACE else None
        try:
            r = orig_b(session, ctx, ident)
        except KeyError:
            if rec is not None:
                rec["after"] = {"raised": True}
            raise
        if rec is not None:
            rec["after"] = {"ident": ident.alias_or_name}
        return r

    N.replace_alias_name_with_cte_name = wrap_a
    N.replace_branch_and_sequence_ids_with_cte_name = wrap_b
    _HOOKED = True


def snapshot(s: t.Any, tables: t.Sequence[str] = ()) -> dict:
    from sqlglot import exp

    cols = {}
    for name in list(s.temp_views) + [x for x in tables if x not in s.temp_views]:
        found = s.catalog._schema.find(exp.to_table(name), raise_on_missing=False)
        cols[name] = list(found.keys()) if found else None
    return {
        "known": sorted(s.known_ids),
        "branch": sorted(s.known_branch_ids),
        "seq": sorted(s.known_sequence_ids),
        "alias": {k: list(v) for k, v in s.name_to_sequence_id_mapping.items() if v},
        "counter": s.incrementing_id,
        "views": sorted(s.temp_views.keys()),
        "cols": cols,
    }


def exec_step(s: t.Any, env: t.Dict[str, t.Any], st: dict, data: dict) -> t.Any:
    from sqlframe.duckdb import functions as F
    import contextlib
    import io

    op = st["op"]
    if op == "create":
        env[st["out"]] = X.make_df(s, TABLES[st["tbl"]]["schema"], data[st["tbl"]])
    elif op == "where":
        env[st["out"]] = env[st["in"]].where(X.to_column(_tuple(st["p"]), F))
    elif op == "select":
        env[st["out"]] = env[st["in"]].select(*[X.to_column(_tuple(e), F).alias(n) for n, e in st["items"]])
    elif op == "withColumn":
        env[st["out"]] = env[st["in"]].withColumn(st["n"], X.to_column(_tuple(st["e"]), F))
    elif op == "distinct":
        env[st["out"]] = env[st["in"]].distinct()
    elif op == "alias":
        env[st["out"]] = env[st["in"]].alias(st["name"])
    elif op == "select_qualified":
        env[st["out"]] = env[st["in"]].select(*[F.col(r).alias(n) for r, n in st["refs"]])
    elif op == "join_alias":
        l, r = env[st["l"]], env[st["r"]]
        env[st["out"]] = l.join(r, F.col(st["on"][0]) == F.col(st["on"][1])).select(*[F.col(r_).alias(n) for r_, n in st["sel"]])
    elif op == "handle_reuse":
        df = env[st["in"]]
        c = df[st["col"]]
        df.select(c)
        env[st["out"]] = df.distinct().where(c > st["lit"])
    elif op == "register":
        env[st["in"]].createOrReplaceTempView(st["name"])
    elif op == "sql":
        env[st["out"]] = s.sql(st["text"])
    elif op in ("table", "table_real"):
        env[st["out"]] = s.table(st["name"])
    elif op == "collect":
        env[st["in"]].collect()
    elif op == "count":
        env[st["in"]].count()
    elif op == "show":
        with contextlib.redirect_stdout(io.StringIO()):
            env[st["in"]].show()
    elif op == "schema":
        _ = env[st["in"]].schema
    elif op == "bad_collect":
        env[st["in"]].select(F.col("no_such_column")).collect()
    elif op == "bad_sql":
        s.sql("SELECT * FROM no_such_table_anywhere").collect()
    else:
        raise ValueError(op)
    return None


READ_ONLY = {"collect", "count", "show", "schema", "bad_collect", "bad_sql"}
EXPECT_RAISE = {"bad_collect", "bad_sql"}


def observe(df: t.Any) -> dict:
    if df is None:
        return {"err": "not built"}
    try:
        return {"cols": list(df.columns), "rows": [[plain(v) for v in r] for r in df.collect()]}
    except Exception as e:  # noqa
        return {"err": f"{type(e).__name__}: {str(e)[:140]}"}


def run_script(c: dict, which: str) -> dict:
    """which = 'inter' (prelude + the interleaving) or 'alone' (prelude + P only).  Returns per executed step:
    tag, op, error, registry snapshot, normalisation trace, listTables before/after for read-only actions."""
    install_hook()
    s = vlib.fresh_duckdb_session()
    for name in c.get("tables", []):
        tb = REAL_TABLES[name]
        s._conn.execute(f"create table {name} (" + ", ".join(f"{c_} {'bigint' if ty == 'int' else 'varchar'}" for c_, ty in tb["schema"].items()) + ")")
        for r_ in tb["rows"]:
            s._conn.execute(f"insert into {name} values ({', '.join('?' for _ in r_)})", list(r_))
    env: t.Dict[str, t.Any] = {}
    seq: t.List[t.Tuple[str, dict]] = [("S", st) for st in c["prelude"]]
    if which == "inter":
        seq += [(tag, (c["P"] if tag == "P" else c["H"])[i]) for tag, i in c["inter"]]
    else:
        seq += [("P", st) for st in c["P"]]
    log_: t.List[dict] = []
    for tag, st in seq:
        del _TRACE[:]
        before = None
        if st["op"] in READ_ONLY:
            before = sorted(t_.name for t_ in s.catalog.listTables())
            before_star = sorted(t_.name for t_ in s.catalog.listTables(pattern="*"))
        err = None
        if "in" in st and st["in"] not in env and st["op"] != "create":
            err = "input frame was not built"
        else:
            try:
                exec_step(s, env, st, c["data"])
            except Exception as e:  # noqa
                err = f"{type(e).__name__}: {str(e)[:120]}"
        rec = {"tag": tag, "op": st["op"], "err": err, "snap": snapshot(s, c.get("tables", [])), "trace": copy.deepcopy(_TRACE)}
        if before is not None:
            rec["tables_before"] = before
            rec["tables_before_star"] = before_star
            rec["tables_after"] = sorted(t_.name for t_ in s.catalog.listTables())
            rec["tables_after_star"] = sorted(t_.name for t_ in s.catalog.listTables(pattern="*"))
        if st["op"] == "register" and not err:
            rec["reg_cols"] = list(env[st["in"]].columns)  # what was really registered (a frame read by name may be a view)
        if st["op"] == "sql" and not err:
            rec["read_cols"] = {v: rec["snap"]["cols"].get(v) for v in st.get("views", [])}
        log_.append(rec)
    res = observe(env.get(c["result"]))
    return {"log": log_, "result": res}


# ------------------------------------------------------------------------------------------------
# model events
# ------------------------------------------------------------------------------------------------


def model_events(c: dict, run: dict) -> t.Tuple[t.List[t.Any], t.List[int]]:
    """the Lean events of an executed script, with the real ids; returns (events, index of the log record each
    `step` event belongs to).  The *shape* of every step (which registries grow, by how much) is fixed by the
    kind of statement — the ids themselves are what uuid4 returned."""
    evs: t.List[t.Any] = []
    owner: t.List[int] = []
    prev = {"known": [], "branch": [], "seq": [], "alias": {}, "counter": 1, "views": [], "cols": {}}
    for i, rec in enumerate(run["log"]):
        snap = rec["snap"]
        own = rec["tag"] != "H"
        new_b = [x for x in snap["branch"] if x not in prev["branch"]]
        new_s = [x for x in snap["seq"] if x not in prev["seq"]]
        new_k = [x for x in snap["known"] if x not in prev["known"] and x not in new_b and x not in new_s]
        op = rec["op"]
        # P's normalisation queries / view reads happen while the statement runs, before its effect on the registries
        if rec["tag"] == "P":
            for q in rec["trace"]:
                evs.append({"query": {"ctx": [{"name": n, "ids": ([b, s_] if b is not None and s_ is not None else None)} for n, b, s_ in q["ctx"]], "joined": q["joined"], "ident": q["ident"]}})
                owner.append(-1)
        steps: t.List[t.Any] = []
        if op == "create":
            steps = [{"create": {"b": (new_b + ["?"])[0], "s": (new_s + ["?"])[0]}}]
        elif op in ("sql", "bad_sql"):
            if new_b or new_s:
                steps = [{"derive": {"b": (new_b + ["?"])[0], "s": (new_s + ["?"])[0]}}]
            if op == "bad_sql" or rec["err"]:
                steps.append("failedAction")
        elif op == "alias":
            steps = [{"alias": {"n": find_alias_name(prev, snap), "s": (new_s + ["?"])[0]}}]
        elif op == "table_real":
            if new_b or new_s:  # a read of the permanent table (not of a temp view that shadows it)
                steps = [{"cacheCols": {"n": rec["_name"], "cols": rec["_cols"]}}, {"derive": {"b": (new_b + ["?"])[0], "s": (new_s + ["?"])[0]}}]
            else:
                steps = ["transform"]
            if rec["err"]:
                steps.append("failedAction")
        elif op == "schema":
            # the random id that names the temporary view is drawn before the view is created
            steps = [{"schemaLookup": {"v": new_k[0]}}] if new_k else []
            if rec["err"]:
                steps.append("failedAction")
        elif op == "register":
            if not rec["err"]:
                steps = [{"registerView": {"n": rec["_name"], "cols": rec["_cols"]}}]
        elif op in ("collect", "count", "show"):
            steps = ["action"] if not rec["err"] else ["failedAction"]
        elif op == "bad_collect":
            steps = ["failedAction"]
        else:
            steps = ["transform"]
        for st in steps:
            evs.append({"step": {"own": own, "st": st}})
            owner.append(i)
        prev = snap
    return evs, owner


def find_alias_name(prev: dict, snap: dict) -> str:
    for k, v in snap["alias"].items():
        if len(v) > len(prev["alias"].get(k, [])):
            return k
    return "?"


def annotate(c: dict, run: dict, which: str) -> None:
    """attach statement details the model events need (view name / columns of registrations, views read)"""
    seq: t.List[dict] = list(c["prelude"])
    if which == "inter":
        seq += [(c["P"] if tag == "P" else c["H"])[i] for tag, i in c["inter"]]
    else:
        seq += list(c["P"])
    for rec, st in zip(run["log"], seq):
        if st["op"] == "register":
            rec["_name"] = st["name"].lower()
            rec["_cols"] = rec.get("reg_cols", st["cols"])
        if st["op"] == "table_real":
            rec["_name"] = st["name"].lower()
            rec["_cols"] = list(REAL_TABLES[st["name"]]["schema"])
        rec["_views"] = st.get("views", [])


def events_with_reads(c: dict, run: dict) -> t.Tuple[t.List[t.Any], t.List[int]]:
    evs, owner = model_events(c, run)
    # insert readView events for P's sql statements: right before the statement's own step events
    out: t.List[t.Any] = []
    own_out: t.List[int] = []
    done: t.Set[int] = set()
    for e, o in zip(evs, owner):
        if o >= 0 and o not in done:
            done.add(o)
            rec = run["log"][o]
            if rec["tag"] == "P" and rec["op"] == "sql":
                for v in rec["_views"]:
                    out.append({"readView": {"n": v}})
                    own_out.append(-2)
        out.append(e)
        own_out.append(o)
    return out, own_out


# ------------------------------------------------------------------------------------------------
# evaluation
# ------------------------------------------------------------------------------------------------


def positions(trace_obs: t.List[t.Tuple[t.List[str], t.Any]]) -> t.List[t.Any]:
    out = []
    for names, after in trace_obs:
        if isinstance(after, dict) and after.get("raised"):
            out.append("raised")
        elif isinstance(after, dict) and "ident" in after:
            a = after["ident"]
            out.append(names.index(a) if a in names else "=")
        else:
            out.append(None)
    return out


def p_trace(run: dict) -> t.List[t.Tuple[t.List[str], t.Any]]:
    out = []
    for rec in run["log"]:
        if rec["tag"] == "P":
            for q in rec["trace"]:
                out.append(([x[0] for x in q["ctx"]], q["after"]))
    return out


def _run_both(c: dict) -> t.Tuple[dict, dict]:
    a = run_script(c, "inter")
    annotate(c, a, "inter")
    b = run_script(c, "alone")
    annotate(c, b, "alone")
    return a, b


def same_result(a: dict, b: dict) -> bool:
    if "err" in a or "err" in b:
        return ("err" in a) and ("err" in b)
    return a["cols"] == b["cols"] and bag(a["rows"]) == bag(b["rows"])


def evaluate(cases: t.List[dict], workers: int = 0) -> t.List[dict]:
    runs = vlib.parallel_map(_run_both, cases, workers)
    lean_cases = []
    metas = []
    for i, (c, (ri, ra)) in enumerate(zip(cases, runs)):
        evs, owner = events_with_reads(c, ri)
        lean_cases.append({"case": i, "events": evs, "chain": []})
        metas.append(owner)
    outs = vlib.run_driver("C18", lean_cases)
    res = []
    for c, (ri, ra), o, owner in zip(cases, runs, outs, metas):
        if "err" in o:
            raise RuntimeError(f"driver rejected a case: {o}")
        problems: t.List[str] = []
        # (1) registries after every statement: model vs implementation
        step_i = 0
        last_for: t.Dict[int, dict] = {}
        for e_owner, sess in zip([x for x in owner if x >= 0], o["sessions"]):
            last_for[e_owner] = sess
        for idx, sess in last_for.items():
            snap = ri["log"][idx]["snap"]
            want = {
                "known": sorted(sess["known"]),
                "branch": sorted(sess["branch"]),
                "seq": sorted(sess["seq"]),
                "alias": {k: v for k, v in sess["alias"]},
                "counter": sess["counter"],
                "views": sorted(sess["catalog"]),
            }
            got = {k: snap[k] for k in want}
            if want != got:
                diff = {k: (want[k], got[k]) for k in want if want[k] != got[k]}
                problems.append(f"registries after statement {idx} ({ri['log'][idx]['op']}): model/implementation {json.dumps(diff)[:300]}")
                break
            mcols = {k: v for k, v in sess["cols"]}
            if {k: v for k, v in snap["cols"].items() if v is not None} != mcols:
                problems.append(f"catalog columns after statement {idx}: model {mcols} implementation {snap['cols']}")
                break
        # (2) what P observed along the interleaving: model `full` vs implementation
        impl_full = []
        for rec in ri["log"]:
            if rec["tag"] == "P":
                if rec["op"] == "sql":
                    for v in rec["_views"]:
                        impl_full.append({"cols": rec["snap"]["cols"].get(v) if "read_cols" not in rec else rec["read_cols"].get(v)})
                for q in rec["trace"]:
                    impl_full.append(q["after"])
        # order: the model lists queries of a statement, then its readViews; rebuild in the same order
        impl_full = []
        for rec in ri["log"]:
            if rec["tag"] == "P":
                for q in rec["trace"]:
                    impl_full.append(q["after"])
                if rec["op"] == "sql":
                    for v in rec["_views"]:
                        impl_full.append({"cols": pre_cols(ri, rec, v)})
        model_full = o["full"]
        model_ok = len(model_full) == len(impl_full) and all(obs_eq(m, i_) for m, i_ in zip(model_full, impl_full))
        if not model_ok:
            k = next((j for j, (m, i_) in enumerate(zip(model_full, impl_full)) if not obs_eq(m, i_)), None)
            problems.append(f"observation {k}: model {model_full[k] if k is not None else len(model_full)} implementation {impl_full[k] if k is not None else len(impl_full)}")
        # (3) the property: P after / within H vs P alone
        pos_i = positions(p_trace(ri))
        pos_a = positions(p_trace(ra))
        cols_i = [pre_cols(ri, rec, v) for rec in ri["log"] if rec["tag"] == "P" and rec["op"] == "sql" for v in rec["_views"]]
        cols_a = [pre_cols(ra, rec, v) for rec in ra["log"] if rec["tag"] == "P" and rec["op"] == "sql" for v in rec["_views"]]
        errs_i = [bool(rec["err"]) for rec in ri["log"] if rec["tag"] == "P"]
        errs_a = [bool(rec["err"]) for rec in ra["log"] if rec["tag"] == "P"]
        independent = same_result(ri["result"], ra["result"]) and errs_i == errs_a
        lookups_same = pos_i == pos_a and cols_i == cols_a
        # model's own-run observations vs the implementation's alone run (positions / columns)
        model_own_ok = True
        own = o["own"]
        impl_own = []
        for rec in ra["log"]:
            if rec["tag"] == "P":
                for q in rec["trace"]:
                    impl_own.append(("q", [x[0] for x in q["ctx"]], q["after"]))
                if rec["op"] == "sql":
                    for v in rec["_views"]:
                        impl_own.append(("v", None, pre_cols(ra, rec, v)))
        full_q = [(([x[0] for x in q["ctx"]]) if True else None) for rec in ri["log"] if rec["tag"] == "P" for q in rec["trace"]]
        # compare by position: the model's `own` run uses the interleaved run's CTE names
        mo = []
        qi = 0
        for m in own:
            if "cols" in m:
                mo.append(("v", m["cols"]))
            elif m.get("raised"):
                mo.append(("q", "raised"))
                qi += 1
            else:
                names = full_q[qi] if qi < len(full_q) else []
                mo.append(("q", names.index(m["ident"]) if m["ident"] in names else "="))
                qi += 1
        io = []
        for kind, names, after in impl_own:
            if kind == "v":
                io.append(("v", after))
            elif isinstance(after, dict) and after.get("raised"):
                io.append(("q", "raised"))
            elif isinstance(after, dict):
                io.append(("q", names.index(after["ident"]) if after["ident"] in names else "="))
            else:
                io.append(("q", None))
        if len(mo) == len(io) and mo != io:
            model_own_ok = False
            problems.append("the model's run of P alone differs from the implementation's run of P alone (lookup positions / view columns)")
        # (4) read-only actions leave nothing the catalog reports
        leaks = []
        for run in (ri, ra):
            for rec in run["log"]:
                if "tables_before" in rec and (rec["tables_before"] != rec["tables_after"] or rec["tables_before_star"] != rec["tables_after_star"]):
                    leaks.append({"op": rec["op"], "before": rec["tables_before"], "after": rec["tables_after"], "after_star": rec["tables_after_star"]})
        res.append(
            {
                "case": c,
                "inter": ri,
                "alone": ra,
                "scope": o["scope"],
                "problems": problems,
                "independent": independent,
                "lookups_same": lookups_same,
                "model_predicts_difference": o["full"] != o["own"],
                "leaks": leaks,
                "n_queries": len(pos_i),
                "n_nontrivial_queries": sum(1 for x in pos_i if isinstance(x, int)),
            }
        )
    return res


def pre_cols(run: dict, rec: dict, view: str) -> t.Any:
    """catalog columns of `view` as the statement of `rec` saw them (registrations only happen in `register` steps)"""
    return rec["snap"]["cols"].get(view)


def obs_eq(m: dict, i_: t.Any) -> bool:
    if i_ is None:
        return False
    if "cols" in m:
        return isinstance(i_, dict) and "cols" in i_ and m["cols"] == i_["cols"]
    if m.get("raised"):
        return isinstance(i_, dict) and bool(i_.get("raised"))
    return isinstance(i_, dict) and i_.get("ident") == m.get("ident")


# ------------------------------------------------------------------------------------------------
# SQL text in fresh interpreters
# ------------------------------------------------------------------------------------------------

TEXT_PROGRAMS = [
    # (name, body of a function `build(s, F)` returning a DataFrame, combines a frame with a relative of itself?)
    ("chain", "a = s.createDataFrame([(1,'x'),(2,'y'),(3,None)], schema='k bigint, s string')\n    return a.where(F.col('k') > 1).select('k', (F.col('k') + 1).alias('j')).distinct()", False),
    ("alias_join", "a = s.createDataFrame([(1,'x'),(2,'y')], schema='k bigint, s string')\n    b = s.createDataFrame([(1,10),(5,50)], schema='k bigint, w bigint')\n    return a.alias('x').join(b.alias('y'), F.col('x.k') == F.col('y.k')).select(F.col('x.k').alias('k'), F.col('y.w').alias('w'))", False),
    ("view_sql", "a = s.createDataFrame([(1,'x'),(2,'y')], schema='k bigint, s string')\n    a.where(F.col('k') > 0).createOrReplaceTempView('va')\n    return s.sql('WITH c AS (SELECT x.k AS k FROM va AS x) SELECT c.k AS k FROM c').where(F.col('k') > 1)", False),
    ("handle", "a = s.createDataFrame([(1,'x'),(2,'y')], schema='k bigint, s string')\n    c = a['k']\n    a.select(c)\n    return a.distinct().where(c > 0)", False),
    ("groupby", "a = s.createDataFrame([(1,10),(1,20),(2,5)], schema='k bigint, w bigint')\n    return a.groupBy('k').agg(F.sum('w').alias('t')).where(F.col('t') > 5)", False),
    (
        "union_by_name_missing",
        "a = s.createDataFrame([(1,'x')], schema='k bigint, s string')\n    b = s.createDataFrame([(2, 10, 20, 30, 40, 50)], schema='k bigint, c1 bigint, c2 bigint, c3 bigint, c4 bigint, c5 bigint')\n    return a.unionByName(b, allowMissingColumns=True)",
        False,
        ["k", "s", "c1", "c2", "c3", "c4", "c5"],
    ),
    ("self_join", "a = s.createDataFrame([(1,'x'),(2,'y')], schema='k bigint, s string')\n    return a.join(a, on='k')", True),
    ("self_union", "a = s.createDataFrame([(1,'x'),(2,'y')], schema='k bigint, s string')\n    return a.union(a).where(F.col('k') > 0)", True),
    ("derived_self_join", "a = s.createDataFrame([(1,'x'),(2,'y')], schema='k bigint, s string')\n    b = a.where(F.col('k') > 0)\n    return b.join(a, on='k')", True),
]

TEXT_RUNNER = r"""
import sys, json
sys.path.insert(0, {repo!r})
import duckdb
from sqlframe.duckdb import DuckDBSession
from sqlframe.duckdb import functions as F
s = DuckDBSession(conn=duckdb.connect(':memory:'))
def build(s, F):
    {body}
df = build(s, F)
try:
    opt = df.sql()
except Exception as e:  # the sqlglot optimizer rejects some diamond-shaped lineages (a C03 matter): compare the unoptimized text
    opt = "OPTIMIZER-ERROR " + type(e).__name__
print(json.dumps({{"opt": opt, "raw": df.sql(optimize=False), "cols": list(df.columns), "rows": sorted(json.dumps(list(r), default=str) for r in df.collect())}}))
"""


def text_in_fresh_process(args: t.Tuple[str, str, int]) -> dict:
    name, body, seed = args
    src = TEXT_RUNNER.format(repo=vlib.REPO, body=body)
    env = dict(os.environ, PYTHONHASHSEED=str(seed))
    p = subprocess.run(["/venv/bin/python", "-c", src], capture_output=True, text=True, timeout=300, env=env)
    if p.returncode != 0:
        return {"name": name, "err": p.stderr[-400:]}
    try:
        return dict(json.loads(p.stdout.strip().split("\n")[-1]), name=name)
    except Exception as e:  # noqa
        return {"name": name, "err": f"unparsable output: {e}"}


def mask(text: str) -> str:
    """canonical form up to the disambiguating literals: the uuid literals and the hash names derived from them are
    replaced by placeholders numbered by first occurrence"""
    seen: t.Dict[str, str] = {}

    def sub(m: t.Match) -> str:
        k = m.group(0)
        if k not in seen:
            seen[k] = f"<{len(seen)}>"
        return seen[k]

    text = re.sub(r"'[0-9a-f]{32}'", sub, text)
    return re.sub(r"\bt\d{5,8}\b", sub, text)


def check_texts(ctx: Ctx) -> t.Dict[str, t.Any]:
    jobs = []
    for prog in TEXT_PROGRAMS:
        name, body = prog[0], prog[1]
        # two fresh interpreters with DIFFERENT string-hash seeds (set iteration order differs between them)
        jobs.append((name, body, 1))
        jobs.append((name, body, 2))
    import multiprocessing.pool as mpp

    with mpp.ThreadPool(8) as pool:
        outs = pool.map(text_in_fresh_process, jobs)
    by: t.Dict[str, t.List[dict]] = {}
    for o in outs:
        by.setdefault(o["name"], []).append(o)
    report = {}
    for prog in TEXT_PROGRAMS:
        name, body, combo = prog[0], prog[1], prog[2]
        want_cols = prog[3] if len(prog) > 3 else None
        a, b = by[name]
        if "err" in a or "err" in b:
            report[name] = {"error": (a.get("err") or b.get("err"))[-200:]}
            ctx.broken.append(f"text stream: program {name} failed in a fresh interpreter: {report[name]['error'][:120]}")
            continue
        same_rows = a["rows"] == b["rows"]
        if combo:
            ok = mask(a["opt"]) == mask(b["opt"]) and mask(a["raw"]) == mask(b["raw"])
        else:
            ok = a["opt"] == b["opt"] and a["raw"] == b["raw"]
        report[name] = {"identical": a["opt"] == b["opt"] and a["raw"] == b["raw"], "identical_up_to_literals": mask(a["opt"]) == mask(b["opt"]) and mask(a["raw"]) == mask(b["raw"]), "rows_equal": same_rows, "self_combination": combo}
        cols_ok = want_cols is None or (a.get("cols") == want_cols and b.get("cols") == want_cols)
        report[name]["columns_as_specified"] = cols_ok
        if not ok or not same_rows or not cols_ok:
            vlib.report_violation(
                ctx,
                {
                    "kind": "df.sql() / columns of the same program differ between two fresh interpreters (different PYTHONHASHSEED) or from the specified column order",
                    "program": body,
                    "self_combination": combo,
                    "columns_specified_by_pyspark": want_cols,
                    "process_A": {"PYTHONHASHSEED": 1, "columns": a.get("cols"), "sql": a["opt"], "sql_unoptimized": a["raw"]},
                    "process_B": {"PYTHONHASHSEED": 2, "columns": b.get("cols"), "sql": b["opt"], "sql_unoptimized": b["raw"]},
                },
            )
    return report


# ------------------------------------------------------------------------------------------------
# generated definitions against the running code
# ------------------------------------------------------------------------------------------------


def gen_values() -> t.Dict[str, str]:
    path = os.path.join(vlib.GEN_DIR, "SessionIds.lean")
    out: t.Dict[str, str] = {}
    if os.path.exists(path):
        for m in re.finditer(r"^def (\w+) : [^:=]+ := (.+)$", open(path).read(), flags=re.M):
            out[m.group(1)] = m.group(2).strip()
    return out


def live_decisions() -> t.Dict[str, str]:
    import zlib

    s = vlib.fresh_duckdb_session()
    out: t.Dict[str, str] = {}
    i1 = s._random_id
    out["sessIdSource"] = ".uuid4" if re.fullmatch(r"r[0-9a-f]{32}", i1) and i1 in s.known_ids else "other"
    out["sessCounterStart"] = str(s.incrementing_id)
    n1 = s._auto_incrementing_name
    out["sessCounterPrefix"] = json.dumps(n1[0])
    out["sessCounterStep"] = str(s.incrementing_id - int(n1[1:]))
    a = s.createDataFrame([(1, "x")], schema="k bigint, s string")
    h = a._create_hash_from_expression(a.expression)
    want = ("t" + str(zlib.crc32(a.expression.sql(dialect=s.input_dialect).encode("utf-8"))))[:9]
    out["sessHashParts"] = "[.sqlText]" if h == want else "other"
    before = set(s.known_sequence_ids)
    x = a.alias("zz")
    new = set(s.known_sequence_ids) - before
    out["sessAliasAppendsFreshSeq"] = "true" if len(new) == 1 and s.name_to_sequence_id_mapping.get("zz") == list(new) else "false"
    views0 = s._conn.execute("select count(*) from duckdb_views() where not internal and temporary").fetchone()[0]
    _ = a.schema
    views1 = s._conn.execute("select count(*) from duckdb_views() where not internal and temporary").fetchone()[0]
    out["sessSchemaViewTemporary"] = "true" if views1 == views0 + 1 else "false"
    return out


def check_gen(ctx: Ctx) -> t.Dict[str, t.Any]:
    gv = gen_values()
    try:
        lv = live_decisions()
    except Exception as e:  # noqa
        ctx.broken.append(f"Gen.SessionIds could not be exercised against the running code: {type(e).__name__}: {str(e)[:200]}")
        return {}
    diff = {k: (gv.get(k), v) for k, v in lv.items() if gv.get(k) != v}
    if gv and diff:
        ctx.broken.append(f"Gen.SessionIds disagrees with the running code (generated, observed): {diff}")
    return {"generated": gv, "observed": lv}


# ------------------------------------------------------------------------------------------------
# the check
# ------------------------------------------------------------------------------------------------


def known_entries() -> t.Dict[str, dict]:
    known = {e["id"]: e for e in vlib.known_findings(ID)}
    extra = os.path.join(vlib.VERIF, "tools", "props", "c18.known.json")
    if os.path.exists(extra):
        for e in json.load(open(extra)).get("findings", []):
            if e.get("property") == ID and e.get("status") == "open":
                known.setdefault(e["id"], e)
    return known


def show_step(st: dict) -> str:
    op = st["op"]
    if op == "create":
        return f"{st['out']} = createDataFrame({st['tbl']})"
    if op == "where":
        return f"{st['out']} = {st['in']}.where({X.show(_tuple(st['p']))})"
    if op == "select":
        return f"{st['out']} = {st['in']}.select(" + ", ".join(f"{X.show(_tuple(e))}.alias({n!r})" for n, e in st["items"]) + ")"
    if op == "withColumn":
        return f"{st['out']} = {st['in']}.withColumn({st['n']!r}, {X.show(_tuple(st['e']))})"
    if op == "distinct":
        return f"{st['out']} = {st['in']}.distinct()"
    if op == "alias":
        return f"{st['out']} = {st['in']}.alias({st['name']!r})"
    if op == "select_qualified":
        return f"{st['out']} = {st['in']}.select(" + ", ".join(f"col({r!r}).alias({n!r})" for r, n in st["refs"]) + ")"
    if op == "join_alias":
        return f"{st['out']} = {st['l']}.join({st['r']}, col({st['on'][0]!r}) == col({st['on'][1]!r})).select(" + ", ".join(f"col({r!r}).alias({n!r})" for r, n in st["sel"]) + ")"
    if op == "handle_reuse":
        return f"c = {st['in']}[{st['col']!r}]; {st['in']}.select(c); {st['out']} = {st['in']}.distinct().where(c > {st['lit']})"
    if op == "register":
        return f"{st['in']}.createOrReplaceTempView({st['name']!r})"
    if op == "sql":
        return f"{st['out']} = session.sql({st['text']!r})"
    if op in ("table", "table_real"):
        return f"{st['out']} = session.table({st['name']!r})" + ("   # a permanent table" if op == "table_real" else "")
    if op in ("collect", "count", "show", "schema"):
        return f"{st['in']}.{op}" + ("" if op == "schema" else "()")
    if op == "bad_collect":
        return f"{st['in']}.select(col('no_such_column')).collect()  # raises"
    if op == "bad_sql":
        return "session.sql('SELECT * FROM no_such_table_anywhere').collect()  # raises"
    return str(st)


def show_case(c: dict) -> t.List[str]:
    out = [f"{k} = {v}" for k, v in c["data"].items()] + [f"permanent table {n}{list(REAL_TABLES[n]['schema'])} = {REAL_TABLES[n]['rows']}" for n in c.get("tables", [])]
    out += ["[shared] " + show_step(s) for s in c["prelude"]]
    for tag, i in c["inter"]:
        out.append(f"[{tag}] " + show_step((c["P"] if tag == "P" else c["H"])[i]))
    out.append(f"result: {c['result']}.collect()   (compared with the same [P] statements alone in a fresh session)")
    return out


def cases_for(ctx: Ctx) -> t.List[dict]:
    cases: t.List[dict] = []
    corpus_dir = os.path.join(vlib.VERIF, "corpus", ID)
    if os.path.isdir(corpus_dir):
        for fn in sorted(os.listdir(corpus_dir)):
            if fn.endswith(".json"):
                c = json.load(open(os.path.join(corpus_dir, fn)))
                c["origin"] = "corpus:" + fn
                cases.append(c)
    for _ in range(64 if ctx.thorough else 16):
        c = family_shadow_table(ctx.rng)
        c["origin"] = "family_shadow_table"
        cases.append(c)
    n = 1500 if ctx.thorough else 210
    for _ in range(n):
        c = gen_case(ctx.rng)
        c["origin"] = "random"
        cases.append(c)
    return cases


def is_violation(r: dict, known: t.Dict[str, dict]) -> t.Tuple[str, t.List[str]]:
    """'ok' | 'known' | 'violation' | 'model'"""
    if r["independent"] and r["lookups_same"] and not r["leaks"]:
        return ("model", []) if r["problems"] else ("ok", [])
    sc = [h for h in r["scope"] if h in DEFECT_HYPS or h.startswith("H_")]
    if not r["problems"] and not r["leaks"] and sc and all(h in known for h in sc) and r["model_predicts_difference"]:
        return "known", sc
    return "violation", sc


def shrink(c: dict, known: t.Dict[str, dict], rounds: int = 8) -> dict:
    best = c
    for _ in range(rounds):
        cands = []
        for j in range(len(best["inter"])):
            tag, i = best["inter"][j]
            if tag == "H":
                inter = best["inter"][:j] + best["inter"][j + 1 :]
                cands.append(dict(best, inter=inter))
        for tb in best["data"]:
            for i in range(len(best["data"][tb])):
                if len(best["data"][tb]) > 1:
                    d = dict(best["data"])
                    d[tb] = d[tb][:i] + d[tb][i + 1 :]
                    cands.append(dict(best, data=d))
        if not cands:
            break
        try:
            res = evaluate(cands, workers=1)
        except Exception:
            break
        nxt = next((r["case"] for r in res if is_violation(r, known)[0] == "violation"), None)
        if nxt is None:
            break
        best = nxt
    return best


def replay_dict(r: dict, ctx: Ctx, kind: str) -> dict:
    c = r["case"]
    return {
        "kind": kind,
        "program": show_case(c),
        "case": {k: v for k, v in c.items() if k != "origin"},
        "result_after_history": r["inter"]["result"],
        "result_alone": r["alone"]["result"],
        "errors_after_history": [[rec["op"], rec["err"]] for rec in r["inter"]["log"] if rec["tag"] == "P" and rec["err"]],
        "errors_alone": [[rec["op"], rec["err"]] for rec in r["alone"]["log"] if rec["tag"] == "P" and rec["err"]],
        "catalog_leaks": r["leaks"],
        "violated_scope_hypotheses": r["scope"],
        "correspondence_problems": r["problems"],
        "broken": ctx.broken,
    }


def run(ctx: Ctx) -> None:
    idx = vlib.props_index()[ID]
    vlib.prove(ctx, MODULES, GEN, idx["theorems"], SOURCES)
    known = known_entries()

    cases = cases_for(ctx)
    res = evaluate(cases)  # forks workers: nothing in this process has touched DuckDB yet
    gen_info = check_gen(ctx)

    counts = {"ok": 0, "known": 0, "violation": 0, "model": 0}
    viol: t.List[dict] = []
    model_bad: t.List[dict] = []
    ops: t.Dict[str, int] = {}
    nq = nqn = 0
    ro_actions = 0
    raised = 0
    nontrivial = set()
    for r in res:
        kind, sc = is_violation(r, known)
        counts[kind] += 1
        if kind == "known":
            for h in sc:
                vlib.report_known(ctx, known[h], known[h]["summary"])
        elif kind == "violation":
            viol.append(r)
        elif kind == "model":
            model_bad.append(r)
        for rec in r["inter"]["log"]:
            ops[rec["op"]] = ops.get(rec["op"], 0) + 1
            ro_actions += "tables_before" in rec
            raised += bool(rec["err"])
        nq += r["n_queries"]
        nqn += r["n_nontrivial_queries"]
        if r["n_nontrivial_queries"] and "rows" in r["inter"]["result"] and r["inter"]["result"]["rows"]:
            nontrivial.add(vlib.digest([r["case"]["P"], r["case"]["inter"], r["case"]["data"]]))

    # recorded witnesses of the open known findings
    for h, e in known.items():
        w = e.get("witness")
        if isinstance(w, dict) and "inter" in w:
            try:
                rr = evaluate([w], workers=1)[0]
            except Exception as ex:  # noqa
                ctx.broken.append(f"witness of {h} could not be replayed: {ex}")
                continue
            if not (rr["independent"] and rr["lookups_same"]):
                vlib.report_known(ctx, e, e["summary"])

    model_bad += [r for r in viol if r["problems"]]
    if model_bad:
        ctx.broken.append(f"correspondence stream A (implementation vs Impl/C18Session.lean): {len(model_bad)} of {len(res)} histories differ: " + "; ".join(model_bad[0]["problems"])[:300])

    texts = check_texts(ctx)

    reported = len(ctx.violations)
    seen = set()
    for r in viol:
        if reported >= 3:
            break
        c = shrink(r["case"], known)
        key = vlib.digest([c["P"], c["inter"]])
        if key in seen:
            continue
        seen.add(key)
        rr = evaluate([c], workers=1)[0]
        vlib.report_violation(ctx, replay_dict(rr if is_violation(rr, known)[0] == "violation" else r, ctx, "the result of a program depends on what else the session did (or a read-only action left a catalog-visible object)"))
        reported += 1
    if ctx.broken and not reported:
        vlib.report_violation(
            ctx,
            {
                "kind": "proof obligation or correspondence no longer checks; no failing input found",
                "broken": ctx.broken,
                "searched": {"histories": len(res), "normalisation_queries": nq, "statement_kinds": ops},
                "first_disagreement": replay_dict(model_bad[0], ctx, "disagreement") if model_bad else None,
            },
            no_input=True,
        )

    step = max(1, len(res) // 4)
    ctx.cov.update(
        {
            "evaluations": len(res),
            "distinct_nontrivial": len(nontrivial),
            "rule": "corpus, then random (P, H, interleaving): P = 2-4 construction steps (chains, alias + qualified references, aliased joins, "
            "reused df['col'] handles, createOrReplaceTempView + session.sql / session.table, further transformation of SQL results), "
            "H = 2-5 steps of the same vocabulary sharing alias names (x, y and the column name k), view names, source data and optionally the same "
            "DataFrame object, plus collect/count/show/schema and actions that raise; random merges (H first in a quarter of the cases); "
            "P's rows, columns, errors and lookup outcomes are compared with P alone in a fresh session; non-trivial = distinct (P, interleaving, data) "
            "with at least one identifier rewritten to a CTE name and a non-empty result",
            "traces_validated_against_impl": len(res) - len(model_bad),
            "history_independent": counts["ok"],
            "known_finding_histories": counts["known"],
            "normalisation_queries": nq,
            "identifiers_rewritten": nqn,
            "read_only_actions_checked": ro_actions,
            "statements_that_raised": raised,
            "statement_kind_histogram": ops,
            "sql_text_two_fresh_interpreters": texts,
            "gen_vs_live": gen_info,
            "samples": [{"history": show_case(r["case"]), "result": r["inter"]["result"]} for r in res[::step][:4]],
        }
    )
    ctx.assumptions += [
        "uuid4 values are fresh (hypothesis H_idsFresh of C18_history); user alias / column names are not of the shape r<32 hex>",
        "P does not read a view name that other work registers between P's own registration and P's read (the registry is shared state by design)",
        "frames are immutable values: steps of other work cannot change P's frames (C04); the model tracks the session registries and the lookups only",
        "the rendered text is a function of the CTE bodies, their reference structure and the inserted literals (C18_text); equality of those across processes is checked by running two fresh interpreters",
    ]


def replay(ctx: Ctx, rp: dict) -> None:
    c = rp.get("case")
    if not c:
        print("replay names a broken obligation or a text difference, not a history:", rp.get("broken") or rp.get("kind"))
        return
    known = known_entries()
    r = evaluate([c], workers=1)[0]
    kind, sc = is_violation(r, known)
    print(json.dumps({"program": show_case(c), "after_history": r["inter"]["result"], "alone": r["alone"]["result"], "scope": r["scope"], "verdict": kind, "problems": r["problems"]}, indent=1, default=str))
    if kind == "violation" or kind == "model":
        vlib.report_violation(ctx, replay_dict(r, ctx, rp.get("kind", "replay")))
    elif kind == "known":
        for h in sc:
            vlib.report_known(ctx, known[h], known[h]["summary"])
