"""
C11 — all actions present the same data.

proof : lean/SqlframeModel/Props/C11.lean (count / isEmpty / head / first / show / unique names; C11_program)
tie   : Gen.Clauses (headLimit, count/show wrap flags, header rule), Gen.Actions, Gen.Row regenerated from
        /repo; correspondence stream = every action of the real DataFrame vs the model's prediction and vs
        collect() of the same DataFrame (the property itself), for DataFrames built by C01 programs and
        by joins that repeat column names.
"""
from __future__ import annotations

import contextlib
import io
import json
import math
import os
import random
import typing as t

import c01
import exprs as X
import vlib
from vlib import Ctx, bag, plain

ID = "C11"
LEVEL = "proof"
MODULES = ["SqlframeModel.Codec.C01", "SqlframeModel.Impl.C11", "SqlframeModel.Props.C11"]
GEN = ["Operations", "Methods", "Clauses", "Row", "Actions"]
SOURCES = [
    "SqlframeModel/Props/C11.lean",
    "SqlframeModel/Lemmas/C11.lean",
    "SqlframeModel/Impl/C11.lean",
    "SqlframeModel/Props/C01.lean",
    "SqlframeModel/Lemmas/C01.lean",
    "SqlframeModel/Lemmas/C01Wrap.lean",
    "SqlframeModel/Lemmas/C01Steps.lean",
]

NAME_POOL = ["a", "b", "a_1", "a_2", "a_1_2", "b_0", "a_2_2", "x"]


def gen_case(rng: random.Random) -> t.Optional[dict]:
    L = rng.choice([0, 1, 2, 3, 4, 5])
    kinds = [rng.choice(c01.KINDS) for _ in range(L)]
    c = c01.gen_program(rng, kinds)
    if c is None:
        return None
    # make the final order total for most cases so that prefixes (head/show/first) are determined
    cols = current_cols(c)
    ordered = rng.random() < 0.75
    if ordered:
        ks = cols[:]
        rng.shuffle(ks)
        keys = [{"name": k, "desc": rng.random() < 0.4, "nullsFirst": rng.random() < 0.5} for k in ks]
        if c["steps"] and c["steps"][-1]["k"] == "orderBy":
            c["steps"][-1] = {"k": "orderBy", "keys": keys}
        else:
            c["steps"].append({"k": "orderBy", "keys": keys})
    c["ordered"] = ordered or (bool(c["steps"]) and c01.order_checked(c))
    c["n"] = rng.choice([0, 1, 2, 3, 7, 20])
    k = rng.randint(1, 5)
    c["names"] = [rng.choice(NAME_POOL) for _ in range(k)]
    return c


def current_cols(c: dict) -> t.List[str]:
    cols = list(c["schema"])
    for s in c["steps"]:
        k = s["k"]
        if k == "select":
            cols = [n for n, _ in s["items"]]
        elif k == "withColumn" and s["n"] not in cols:
            cols = cols + [s["n"]]
        elif k == "withColumnRenamed":
            cols = [s["b"] if x == s["a"] else x for x in cols]
        elif k == "drop":
            cols = [x for x in cols if x not in s["ns"]]
        elif k == "toDF":
            cols = list(s["names"])
        elif k == "unpivot":
            cols = s["ids"] + [s["var"], s["val"]]
    return cols


def case_to_lean(i: int, c: dict) -> dict:
    d = c01.case_to_lean(i, c)
    d["n"] = c["n"]
    d["names"] = c["names"]
    return d


def _norm(v: t.Any) -> t.Any:
    if v is None:
        return None
    if isinstance(v, float):
        if math.isnan(v):
            return None
        if v == int(v):
            return int(v)
    if hasattr(v, "item"):
        try:
            return _norm(v.item())
        except Exception:
            pass
    return v


def parse_show(text: str) -> t.Tuple[t.List[str], t.List[t.List[str]]]:
    lines = [l for l in text.strip().split("\n") if l.startswith("|")]
    cells = [[c.strip() for c in l.strip().strip("|").split("|")] for l in lines]
    if not cells or cells[0] == [""]:
        return [], [r for r in cells[1:] if r != [""]]
    return cells[0], cells[1:]


def run_impl(c: dict) -> dict:
    import warnings

    from sqlframe.base.types import Row
    from sqlframe.duckdb import functions as F

    out: t.Dict[str, t.Any] = {}
    try:
        df = X.make_df(c01.session(), c["schema"], c["rows"])
        for s in c["steps"]:
            df = c01.apply_step(df, s, F)
        n = c["n"]
        sql_before = df.sql(optimize=False)
        cols_before = list(df.columns)
        C = [[plain(v) for v in r] for r in df.collect()]
        out["collect"] = C
        out["cols"] = cols_before
        out["count"] = df.count()
        out["isEmpty"] = df.isEmpty()
        h = df.head()
        out["first"] = None if h is None else [plain(v) for v in h]
        f = df.first()
        out["first2"] = None if f is None else [plain(v) for v in f]
        out["head"] = [[plain(v) for v in r] for r in df.head(n)]
        out["limit"] = [[plain(v) for v in r] for r in df.limit(n).collect()]
        with warnings.catch_warnings():
            warnings.simplefilter("ignore")
            pdf = df.toPandas()
        out["pandas_cols"] = [str(x) for x in pdf.columns]
        out["pandas"] = [[plain(_norm(v)) for v in row] for row in pdf.itertuples(index=False, name=None)]
        at = df.toArrow()
        out["arrow_cols"] = list(at.column_names)
        out["arrow"] = [[plain(v) for v in row] for row in zip(*[col.to_pylist() for col in at.columns])] if at.num_columns else []
        buf = io.StringIO()
        with contextlib.redirect_stdout(buf):
            df.show(n)
        out["show"] = parse_show(buf.getvalue())
        # nothing above may have changed the DataFrame
        out["again"] = [[plain(v) for v in r] for r in df.collect()]
        out["stable"] = df.sql(optimize=False) == sql_before and list(df.columns) == cols_before
        names = c["names"]
        out["unique"] = list(Row(*names)(*range(len(names)))._unique_field_names)
        if c.get("pairs"):
            out["pair_problems"] = action_pairs(df, n, c["ordered"])
    except Exception as e:  # noqa
        out["err"] = f"{type(e).__name__}: {str(e)[:300]}"
    return out


def action_pairs(df: t.Any, n: int, ordered: bool) -> t.List[str]:
    """"none of these actions alters the result of any other": every ordered pair (a, b) of actions, b directly after a,
    on the same DataFrame object; b's answer must not depend on which action ran before it"""
    import warnings

    def rows(rs: t.Any) -> t.Any:
        out = [[plain(v) for v in r] for r in rs]
        return out if ordered else sorted(json.dumps(r, sort_keys=True, default=str) for r in out)

    def prefix(rs: t.Any) -> t.Any:
        out = [[plain(v) for v in r] for r in rs]
        return out if ordered else len(out)

    def pandas() -> t.Any:
        with warnings.catch_warnings():
            warnings.simplefilter("ignore")
            pdf = df.toPandas()
        return [[str(x) for x in pdf.columns], rows([[_norm(v) for v in row] for row in pdf.itertuples(index=False, name=None)])]

    def arrow() -> t.Any:
        at = df.toArrow()
        return [list(at.column_names), rows(list(zip(*[col.to_pylist() for col in at.columns])) if at.num_columns else [])]

    def arrow_batches() -> t.Any:
        rd = df.toArrow(2)
        tb = rd.read_all()
        return [list(tb.column_names), rows(list(zip(*[col.to_pylist() for col in tb.columns])) if tb.num_columns else [])]

    def show() -> t.Any:
        buf = io.StringIO()
        with contextlib.redirect_stdout(buf):
            df.show(n)
        hdr, body = parse_show(buf.getvalue())
        return [hdr, body if ordered else len(body)]

    def first() -> t.Any:
        h = df.first()
        return (None if h is None else [plain(v) for v in h]) if ordered else (h is None)

    acts: t.Dict[str, t.Callable[[], t.Any]] = {
        "collect": lambda: rows(df.collect()),
        "count": lambda: df.count(),
        "isEmpty": lambda: df.isEmpty(),
        "first": first,
        "head_n": lambda: prefix(df.head(n)),
        "limit_collect": lambda: prefix(df.limit(n).collect()),
        "toPandas": pandas,
        "toArrow": arrow,
        "toArrow_batches": arrow_batches,
        "show": show,
        "columns": lambda: list(df.columns),
        "schema": lambda: [f.name for f in df.schema.fields],
    }

    def run(name: str) -> t.Any:
        try:
            return json.loads(json.dumps(acts[name](), default=str))
        except Exception as e:  # noqa
            return f"raised {type(e).__name__}: {str(e)[:80]}"

    problems: t.List[str] = []
    ref: t.Dict[str, t.Tuple[str, t.Any]] = {}
    for a in acts:
        for b in acts:
            run(a)
            r = run(b)
            if b not in ref:
                ref[b] = (a, r)
            elif r != ref[b][1] and len(problems) < 6:
                problems.append(f"{b}() directly after {a}() gives {str(r)[:160]} but after {ref[b][0]}() it gave {str(ref[b][1])[:160]}")
    return problems


def cell(v: t.Any) -> str:
    if isinstance(v, dict):
        return v["s"].strip()
    return str(v)


def judge(c: dict, impl: dict, o: dict) -> t.Tuple[t.List[str], t.List[str]]:
    """returns (property failures: implementation vs specification/own collect, model mismatches)"""
    fails: t.List[str] = []
    mm: t.List[str] = []
    if "err" in impl:
        return [f"action raised: {impl['err']}"], ["error"]
    C, n, ordered = impl["collect"], c["n"], c["ordered"]
    spec = o["spec"]
    # --- the property itself, against the implementation's own collect() and the specification
    if impl["cols"] != spec["cols"] or bag(C) != bag(spec["rows"]) or (ordered and C != spec["rows"]):
        fails.append("collect() differs from the sequential specification")
    if impl["count"] != len(C):
        fails.append(f"count()={impl['count']} but collect() has {len(C)} rows")
    if impl["isEmpty"] != (len(C) == 0):
        fails.append("isEmpty() disagrees with collect()")
    for key in ("first", "first2"):
        if ordered:
            if impl[key] != (C[0] if C else None):
                fails.append(f"{key} is not the first collected row")
        elif (impl[key] is None) != (not C) or (impl[key] is not None and json.dumps(impl[key]) not in [json.dumps(r) for r in C]):
            fails.append(f"{key} is not a collected row")
    for key in ("head", "limit"):
        if len(impl[key]) != min(n, len(C)):
            fails.append(f"{key}({n}) returned {len(impl[key])} rows of {len(C)}")
        elif ordered and impl[key] != C[:n]:
            fails.append(f"{key}({n}) is not the first {n} collected rows")
    if impl["pandas_cols"] != impl["cols"] or (impl["pandas"] != C if ordered else bag(impl["pandas"]) != bag(C)):
        fails.append("toPandas() differs from collect()")
    if impl["arrow_cols"] != impl["cols"] or (impl["arrow"] != C if ordered else bag(impl["arrow"]) != bag(C)):
        fails.append("toArrow() differs from collect()")
    hdr, rows = impl["show"]
    want_rows = [[cell(v) for v in r] for r in C[:n]]
    if len(rows) != min(n, len(C)) or (ordered and rows != want_rows):
        fails.append(f"show({n}) does not print the first {n} rows")
    if hdr != o["unique_cols"]:
        fails.append(f"show({n}) header {hdr} is not the column names {o['unique_cols']}")
    if impl["again"] != C if ordered else bag(impl["again"]) != bag(C):
        fails.append("collect() changed after running the other actions")
    for pb in impl.get("pair_problems", []):
        fails.append("an action alters the result of another: " + pb)
    if not impl["stable"]:
        fails.append("sql()/columns changed after running the actions")
    if len(set(impl["unique"])) != len(impl["unique"]):
        fails.append(f"_unique_field_names({c['names']}) = {impl['unique']} has duplicates")
    # --- correspondence with the model
    if o["count"] != impl["count"]:
        mm.append("count")
    if o["isEmpty"] != impl["isEmpty"]:
        mm.append("isEmpty")
    if ordered:
        if o["first"] != impl["first"]:
            mm.append("first")
        if o["head"] != impl["head"]:
            mm.append("head")
        if [[cell(v) for v in r] for r in o["showRows"]] != rows:
            mm.append("showRows")
    else:
        if len(o["head"]) != len(impl["head"]):
            mm.append("head-len")
    if o["showNames"] != hdr:
        mm.append("showNames")
    if o["unique"] != impl["unique"]:
        mm.append("unique")
    return fails, mm


def run_dup(c: dict) -> dict:
    """DataFrames with REPEATED column names (expression joins): every action must still agree with collect()"""
    import warnings

    from sqlframe.duckdb import functions as F

    out: t.Dict[str, t.Any] = {}
    try:
        s = c01.session()
        l = s.createDataFrame([tuple(r) for r in c["l"]], schema="id bigint, name string")
        r = s.createDataFrame([tuple(r) for r in c["r"]], schema="id bigint, name string" if c["same_names"] else "id bigint, tag string")
        j = l.join(r, on=l["id"] == r["id"], how=c["how"])
        if c["then_limit"]:
            j = j.limit(50)
        n = c["n"]
        C = [[plain(v) for v in row] for row in j.collect()]
        out["collect"], out["cols"] = C, list(j.columns)
        out["count"] = j.count()
        out["isEmpty"] = j.isEmpty()
        out["head_len"] = len(j.head(n))
        with warnings.catch_warnings():
            warnings.simplefilter("ignore")
            pdf = j.toPandas()
        out["pandas_cols"] = [str(x) for x in pdf.columns]
        out["pandas"] = [[plain(_norm(v)) for v in row] for row in pdf.itertuples(index=False, name=None)]
        at = j.toArrow()
        out["arrow_cols"] = list(at.column_names)
        buf = io.StringIO()
        with contextlib.redirect_stdout(buf):
            j.show(20)
        out["show"] = parse_show(buf.getvalue())
        out["again"] = [[plain(v) for v in row] for row in j.collect()]
    except Exception as e:  # noqa
        out["err"] = f"{type(e).__name__}: {str(e)[:300]}"
    return out


def judge_dup(c: dict, impl: dict, unique_cols: t.List[str]) -> t.List[str]:
    if "err" in impl:
        return [f"action raised on a DataFrame with repeated column names: {impl['err']}"]
    fails = []
    C = impl["collect"]
    if impl["count"] != len(C):
        fails.append(f"count()={impl['count']} but collect() has {len(C)} rows")
    if impl["isEmpty"] != (not C):
        fails.append("isEmpty() disagrees with collect()")
    if impl["head_len"] != min(c["n"], len(C)):
        fails.append(f"head({c['n']}) returned {impl['head_len']} rows of {len(C)}")
    if impl["pandas_cols"] != impl["cols"] or bag(impl["pandas"]) != bag(C):
        fails.append(f"toPandas() differs from collect(): {impl['pandas_cols']} {impl['pandas'][:3]} vs {impl['cols']} {C[:3]}")
    if impl["arrow_cols"] != impl["cols"]:
        fails.append(f"toArrow() names {impl['arrow_cols']} differ from {impl['cols']}")
    hdr, rows = impl["show"]
    if bag(rows) != bag([[cell(v) for v in r] for r in C[:20]]):
        fails.append(f"show() rows {rows[:3]} are not the collected rows {C[:3]}")
    if C and hdr != unique_cols:
        fails.append(f"show() header {hdr} is not the (de-duplicated) column names {unique_cols}")
    if bag(impl["again"]) != bag(C):
        fails.append("collect() changed after running the other actions")
    return fails


def gen_dup(rng: random.Random) -> dict:
    def rows(tagpool):
        return [[rng.choice([1, 2, 3, None]), rng.choice(tagpool)] for _ in range(rng.randint(0, 4))]

    return {"dup": True, "l": rows(["a", "b", None]), "r": rows(["x", "y", None]), "same_names": rng.random() < 0.7,
            "how": rng.choice(["inner", "left", "full"]), "then_limit": rng.random() < 0.4, "n": rng.choice([0, 1, 3, 20])}


def evaluate(cases: t.List[dict], workers: int = 0) -> t.List[dict]:
    # the header the specification expects: the column names, made unique -- ask the driver for it
    lean_cases = []
    for i, c in enumerate(cases):
        lean_cases.append(case_to_lean(i, c))
    outs = vlib.run_driver("C11", lean_cases)
    # second pass: unique names of the *result columns* (needs the spec's columns)
    aux = vlib.run_driver("C11", [dict(lc, steps=[], names=o["spec"]["cols"]) for lc, o in zip(lean_cases, outs)])
    impls = vlib.parallel_map(run_impl, cases, workers)
    res = []
    for c, o, a, impl in zip(cases, outs, aux, impls):
        o["unique_cols"] = a["unique"]
        fails, mm = judge(c, impl, o)
        res.append({"case": c, "impl": impl, "model": o, "fails": fails, "mismatch": mm, "scope": o["scope"]})
    return res


def shrink(c: dict, failing: t.Callable[[dict], bool], rounds: int = 8) -> dict:
    best = c
    for _ in range(rounds):
        cands = [dict(best, steps=best["steps"][:i] + best["steps"][i + 1 :]) for i in range(len(best["steps"]))]
        cands += [dict(best, rows=best["rows"][:i] + best["rows"][i + 1 :]) for i in range(len(best["rows"]))]
        cands += [dict(best, names=best["names"][:i] + best["names"][i + 1 :]) for i in range(len(best["names"])) if len(best["names"]) > 1]
        cands = [x for x in cands if c01.valid(x) and not c01.has_risky_limit(x)]
        for x in cands:
            x["ordered"] = bool(x["steps"]) and c01.order_checked(x)
        if not cands:
            break
        res = evaluate(cands, workers=1)
        nxt = next((r["case"] for r in res if failing(r)), None)
        if nxt is None:
            break
        best = nxt
    return best


def show_case(c: dict) -> str:
    return c01.show_case(c) + f"  [n={c['n']}, names={c['names']}]"


def run(ctx: Ctx) -> None:
    idx = vlib.props_index()[ID]
    vlib.prove(ctx, MODULES, GEN, idx["theorems"], SOURCES)
    known = {e["id"]: e for e in vlib.known_findings(ID)}

    cases: t.List[dict] = []
    cdir = os.path.join(vlib.VERIF, "corpus", ID)
    if os.path.isdir(cdir):
        for fn in sorted(os.listdir(cdir)):
            if fn.endswith(".json"):
                cases.append(json.load(open(os.path.join(cdir, fn))))
    for _ in range(2500 if ctx.thorough else 220):
        c = gen_case(ctx.rng)
        if c and c01.valid(c) and not c01.has_risky_limit(c):
            cases.append(c)
    # every ordered pair of actions on the same DataFrame object, for a few DataFrames
    npairs = 0
    for c in cases:
        if c["rows"] and c.get("ordered") and npairs < (24 if ctx.thorough else 4):
            c["pairs"] = True
            npairs += 1
    res = evaluate(cases)

    # DataFrames with repeated column names (outside the single-table Lean model: the property itself is checked,
    # and the header against the Lean `uniqueFieldNames`)
    dups = [gen_dup(ctx.rng) for _ in range(300 if ctx.thorough else 40)]
    dimpl = vlib.parallel_map(run_dup, dups)
    dcols = [im.get("cols", []) for im in dimpl]
    dout = vlib.run_driver("C11", [{"case": i, "n": 0, "names": cols, "table": {"cols": [], "rows": []}, "steps": []} for i, cols in enumerate(dcols)])
    dup_viol = []
    for c, im, o in zip(dups, dimpl, dout):
        f = judge_dup(c, im, o["unique"])
        if f:
            dup_viol.append({"case": c, "failures": f, "implementation": im})

    def is_known(r: dict) -> bool:
        # a failure is a known finding iff the model predicts the implementation and every failure is
        # explained by a listed, violated hypothesis
        hyps = [h for h in r["scope"] if h.startswith("H_")]  # D_* entries mark theorem coverage, not defects
        if r["mismatch"] or not hyps or not all(h in known for h in hyps):
            return False
        return all("header" in f for f in r["fails"])

    new_viol = []
    for r in res:
        if r["fails"]:
            if is_known(r):
                for h in r["scope"]:
                    if h in known:
                        vlib.report_known(ctx, known[h], known[h]["summary"])
            else:
                new_viol.append(r)
    for h, e in known.items():
        if e.get("witness"):
            r = evaluate([e["witness"]], workers=1)[0]
            if r["fails"]:
                vlib.report_known(ctx, e, e["summary"])

    mism = [r for r in res if r["mismatch"]]
    if mism:
        ctx.broken.append(f"correspondence stream (actions of the implementation vs Impl/C11.lean): {len(mism)} of {len(res)} cases differ, e.g. {mism[0]['mismatch']}")
    reported = 0
    for r in new_viol[:3]:
        c = shrink(r["case"], lambda rr: bool(rr["fails"]) and not is_known(rr))
        rr = evaluate([c], workers=1)[0]
        vlib.report_violation(
            ctx,
            {"kind": "actions disagree", "program": show_case(c), "case": c, "failures": rr["fails"], "implementation": rr["impl"], "model": rr["model"], "violated_scope_hypotheses": rr["scope"], "broken": ctx.broken},
        )
        reported += 1
    for v in dup_viol[: max(0, 3 - reported)]:
        vlib.report_violation(ctx, dict(v, kind="actions disagree on a DataFrame with repeated column names", program=f"l.join(r, l.id == r.id, {v['case']['how']!r})" + (".limit(50)" if v["case"]["then_limit"] else "")))
        reported += 1
    if ctx.broken and not reported:
        vlib.report_violation(
            ctx,
            {"kind": "proof obligation or correspondence no longer checks; no failing input found", "broken": ctx.broken, "searched": {"cases": len(res)},
             "first_model_mismatch": ({"program": show_case(mism[0]["case"]), "case": mism[0]["case"], "which": mism[0]["mismatch"], "implementation": mism[0]["impl"], "model": mism[0]["model"]} if mism else None)},
            no_input=True,
        )

    nontrivial = {vlib.digest([r["case"]["steps"], r["case"]["rows"], r["case"]["n"]]) for r in res if "err" not in r["impl"] and r["impl"]["collect"]}
    ctx.cov.update(
        {
            "evaluations": len(res),
            "distinct_nontrivial": len(nontrivial),
            "rule": "DataFrames built by random C01 chains (length 0..6, mostly ending in a total orderBy so that prefixes are determined) x n in {0,1,2,3,7,20} x "
            "all actions (collect,count,isEmpty,head(),first(),head(n),limit(n).collect(),toPandas,toArrow,show(n)) + adversarial duplicate field-name lists; "
            "non-trivial = distinct (steps, rows, n) with a non-empty collect()",
            "traces_validated_against_impl": sum(1 for r in res if not r["mismatch"]),
            "property_failures": sum(1 for r in res if r["fails"]),
            "ordered_cases": sum(1 for r in res if r["case"]["ordered"]),
            "empty_results": sum(1 for r in res if "err" not in r["impl"] and not r["impl"]["collect"]),
            "n_histogram": {str(k): sum(1 for r in res if r["case"]["n"] == k) for k in (0, 1, 2, 3, 7, 20)},
            "repeated_column_name_dataframes": len(dups),
            "duplicate_name_lists": sum(1 for r in res if len(set(r["case"]["names"])) != len(r["case"]["names"])),
            "samples": [{"program": show_case(r["case"]), "count": r["impl"].get("count"), "show": r["impl"].get("show")} for r in res[:: max(1, len(res) // 3)][:3]],
        }
    )
    ctx.assumptions += [
        "collect()'s rows are what Core/Sql.lean's block evaluation says (C01's assumption)",
        "pandas / arrow value conversion and PrettyTable's text layout are third-party: compared executably, not proved",
        "head/first/show prefixes are only compared exactly under a total ORDER BY (the engine's LIMIT without one is nondeterministic)",
    ]


def replay(ctx: Ctx, rp: dict) -> None:
    c = rp.get("case")
    if c and c.get("dup"):
        im = run_dup(c)
        o = vlib.run_driver("C11", [{"case": 0, "n": 0, "names": im.get("cols", []), "table": {"cols": [], "rows": []}, "steps": []}])[0]
        f = judge_dup(c, im, o["unique"])
        print(json.dumps({"failures": f}, indent=1))
        if f:
            vlib.report_violation(ctx, dict(rp, failures=f))
        return
    if not c:
        print("replay names a broken obligation, not an input:", rp.get("broken"))
        return
    r = evaluate([c], workers=1)[0]
    print(json.dumps({"program": show_case(c), "failures": r["fails"], "model_mismatch": r["mismatch"]}, indent=1))
    if r["fails"]:
        vlib.report_violation(ctx, dict(rp, failures=r["fails"], implementation=r["impl"]))
