"""
C11 — all actions present the same data.

proof : lean/SqlframeModel/Props/C11.lean (count / isEmpty / head / first / show / unique names; C11_program)
tie   : Gen.Clauses (headLimit, count/show wrap flags, header rule), Gen.Actions (which LIMIT node `limit` consults,
        statement lists, shapes of show/count/head/isEmpty), Gen.Row regenerated from /repo; correspondence stream = every
        action of the real DataFrame vs the model's prediction and vs collect() of the same DataFrame (the property
        itself), for DataFrames built by C01 chains, by TREE programs (operands that carry their own ORDER BY / LIMIT /
        DISTINCT inside CTEs, combined by set operations / unionByName / joins / crossJoin / unpivot / aggregation,
        with further steps after the combination) and by joins that repeat column names.  On every case the LIMIT
        nodes sitting in CTE bodies of the real statement and the LIMIT `limit(10^6)` leaves on the outer SELECT are
        compared with the model's (`histLimits`, `limit11` under `Gen.limitLookup`).
"""
from __future__ import annotations

import contextlib
import io
import json
import math
import os
import random
import time
import typing as t

import c01
import exprs as X
import vlib
from vlib import Ctx, bag, plain

ID = "C11"
LEVEL = "proof"
MODULES = ["SqlframeModel.Codec.C01", "SqlframeModel.Codec.C07", "SqlframeModel.Impl.C11", "SqlframeModel.Impl.C11Tree", "SqlframeModel.Props.C11"]
GEN = ["Operations", "Methods", "Clauses", "Row", "Actions", "SetOps"]
SOURCES = [
    "SqlframeModel/Props/C11.lean",
    "SqlframeModel/Lemmas/C11.lean",
    "SqlframeModel/Lemmas/C11Tree.lean",
    "SqlframeModel/Impl/C11.lean",
    "SqlframeModel/Impl/C11Tree.lean",
    "SqlframeModel/Impl/C07SetOps.lean",
    "SqlframeModel/Lemmas/C07DF.lean",
    "SqlframeModel/Lemmas/C07ByName.lean",
    "SqlframeModel/Lemmas/C07Bag.lean",
    "SqlframeModel/Props/C07.lean",
    "SqlframeModel/Props/C01.lean",
    "SqlframeModel/Lemmas/C01.lean",
    "SqlframeModel/Lemmas/C01Wrap.lean",
    "SqlframeModel/Lemmas/C01Steps.lean",
]

NAME_POOL = ["a", "b", "a_1", "a_2", "a_1_2", "b_0", "a_2_2", "x"]


def gen_case(rng: random.Random) -> t.Optional[dict]:
    L = rng.choice([0, 1, 2, 3, 4, 5])
    kinds = [rng.choice(c01.KINDS) for _ in range(L)]
    c = c01.gen_program(rng, kinds)
    if c is None:
        return None
    # make the final order total for most cases so that prefixes (head/show/first) are determined
    cols = current_cols(c)
    ordered = rng.random() < 0.75
    if ordered:
        ks = cols[:]
        rng.shuffle(ks)
        keys = [{"name": k, "desc": rng.random() < 0.4, "nullsFirst": rng.random() < 0.5} for k in ks]
        if c["steps"] and c["steps"][-1]["k"] == "orderBy":
            c["steps"][-1] = {"k": "orderBy", "keys": keys}
        else:
            c["steps"].append({"k": "orderBy", "keys": keys})
    c["ordered"] = ordered or (bool(c["steps"]) and c01.order_checked(c))
    c["n"] = rng.choice([0, 1, 2, 3, 7, 20])
    k = rng.randint(1, 5)
    c["names"] = [rng.choice(NAME_POOL) for _ in range(k)]
    return c


def current_cols(c: dict) -> t.List[str]:
    cols = list(c["schema"])
    for s in c["steps"]:
        k = s["k"]
        if k == "select":
            cols = [n for n, _ in s["items"]]
        elif k == "withColumn" and s["n"] not in cols:
            cols = cols + [s["n"]]
        elif k == "withColumnRenamed":
            cols = [s["b"] if x == s["a"] else x for x in cols]
        elif k == "drop":
            cols = [x for x in cols if x not in s["ns"]]
        elif k == "toDF":
            cols = list(s["names"])
        elif k == "unpivot":
            cols = s["ids"] + [s["var"], s["val"]]
    return cols


# ------------------------------------------------------------------------------------------------
# tree programs: {"env": [{"schema": [[name, type]], "rows": [...]}], "prog": node, "n", "names", "ordered"}
#   node = {"k": "base", "i"} | {"k": "step", "p", "s": <C01 step>} | {"k": "setop", "m", "l", "r"} | {"k": "byName", "am", "l", "r"}
#        | {"k": "join", "how", "on", "l", "r"} | {"k": "crossJoin", "l", "r"} | {"k": "agg", "keys", "p"}
#        | {"k": "win", "fn", "arg", "part", "keys", "name", "p"}   (withColumn(name, fn(arg).over(Window.partitionBy(part).orderBy(keys))))
# the first four kinds are inside the Lean model (C07's `Prog` with every C01 step kind); the last three are run on the
# real code only and judged by the property itself (every action against collect() of the same DataFrame)
# ------------------------------------------------------------------------------------------------

Schema = t.List[t.Tuple[str, str]]
SETOPS = ["union", "unionAll", "intersect", "intersectAll", "exceptAll"]
GROW_KINDS = ["union", "unionAll", "byName", "byNameMissing", "intersectAll", "exceptAll", "intersect", "join", "joinLeft", "crossJoin", "unpivot", "agg",
              "winRank", "winDenseRank", "winRowNumber", "winSum", "winLag", "winInOperand"]
WIN_FNS = {"winRank": "rank", "winDenseRank": "dense_rank", "winRowNumber": "row_number", "winSum": "sum", "winLag": "lag"}
PROBE = 1000000


def is_tree(c: dict) -> bool:
    return "prog" in c


def tree_of(c: dict) -> t.Tuple[t.List[dict], dict]:
    """(env, prog) of any case; a chain is the program step(...step(base 0, s1)..., sk)"""
    if is_tree(c):
        return c["env"], c["prog"]
    prog: dict = {"k": "base", "i": 0}
    for s in c["steps"]:
        prog = {"k": "step", "p": prog, "s": s}
    return [{"schema": [[n, ty] for n, ty in c["schema"].items()], "rows": c["rows"]}], prog


def in_lean(p: dict) -> bool:
    k = p["k"]
    if k == "base":
        return True
    if k == "step":
        return in_lean(p["p"])
    if k in ("setop", "byName"):
        return in_lean(p["l"]) and in_lean(p["r"])
    return False


def schema_of(p: dict, env: t.List[dict]) -> t.Optional[Schema]:
    """columns (name, type) of a program's result; None = PySpark would reject the program"""
    k = p["k"]
    if k == "base":
        return [(n, ty) for n, ty in env[p["i"]]["schema"]] if 0 <= p["i"] < len(env) else None
    if k == "step":
        sch = schema_of(p["p"], env)
        if sch is None:
            return None
        c = {"schema": dict(sch), "rows": [], "steps": [p["s"]]}
        if not c01.valid(c):
            return None
        return list(c01.cols_after(c).items())
    if k == "win":
        sch = schema_of(p["p"], env)
        if sch is None:
            return None
        names = {n for n, _ in sch}
        if p["name"] in names or not set(p["part"]) <= names or not p["keys"] or not {x["name"] for x in p["keys"]} <= names:
            return None
        if p["fn"] in ("sum", "lag") and dict(sch).get(p["arg"]) != "int":
            return None
        # row_number / lag tell tied rows apart: only deterministic (as a bag) when ties are identical rows
        if p["fn"] in ("row_number", "lag") and set(p["part"]) | {x["name"] for x in p["keys"]} != names:
            return None
        return sch + [(p["name"], "int")]
    if k == "agg":
        sch = schema_of(p["p"], env)
        if sch is None or not p["keys"] or not set(p["keys"]) <= {n for n, _ in sch} or "c" in p["keys"]:
            return None
        return [(n, ty) for n, ty in sch if n in p["keys"]] + [("c", "int")]
    l, r = schema_of(p["l"], env), schema_of(p["r"], env)
    if l is None or r is None:
        return None
    if k == "setop":
        return l if [ty for _, ty in l] == [ty for _, ty in r] else None
    if k == "byName":
        ld, rd = dict(l), dict(r)
        if any(rd[n] != ty for n, ty in l if n in rd):
            return None
        if not p["am"]:
            return l if set(ld) == set(rd) else None
        return l + [(n, ty) for n, ty in r if n not in ld]
    if k == "crossJoin":
        return l + r if not {n for n, _ in l} & {n for n, _ in r} else None
    if k == "join":
        ld, rd = dict(l), dict(r)
        on = p["on"]
        if on not in ld or on not in rd or ld[on] != rd[on] or ({n for n in ld} & {n for n in rd}) != {on}:
            return None
        return [(on, ld[on])] + [(n, ty) for n, ty in l if n != on] + [(n, ty) for n, ty in r if n != on]
    return None


def is_total_order(p: dict, env: t.List[dict]) -> bool:
    """p ends in an orderBy over all of its columns, possibly followed by limits (which keep a prefix of it)"""
    while p["k"] == "step" and p["s"]["k"] == "limit":
        p = p["p"]
    if not (p["k"] == "step" and p["s"]["k"] == "orderBy"):
        return False
    sch = schema_of(p["p"], env)
    return sch is not None and {x["name"] for x in p["s"]["keys"]} == {n for n, _ in sch}


def determined(p: dict, env: t.List[dict]) -> bool:
    """every truncating limit keeps a prefix of a total order (ties are identical rows), no orderBy sits directly on an
    orderBy: the bag of rows of the result is then a function of the inputs"""
    k = p["k"]
    if k == "base":
        return True
    if k == "step":
        s = p["s"]
        if s["k"] == "limit" and 0 < s["n"] < c01.BIG and not is_total_order(p["p"], env):
            return False
        if s["k"] == "orderBy" and p["p"]["k"] == "step" and p["p"]["s"]["k"] == "orderBy":
            return False
        return determined(p["p"], env)
    if k in ("agg", "win"):
        return determined(p["p"], env)
    return determined(p["l"], env) and determined(p["r"], env)


def tree_valid(c: dict) -> bool:
    env, prog = c["env"], c["prog"]
    return schema_of(prog, env) is not None and determined(prog, env)


def total_order(rng: random.Random, sch: Schema) -> dict:
    cols = [n for n, _ in sch]
    rng.shuffle(cols)
    keys = []
    for col in cols:
        desc = rng.random() < 0.4
        keys.append({"name": col, "desc": desc, "nullsFirst": (not desc) if rng.random() < 0.6 else (rng.random() < 0.5)})
    return {"k": "orderBy", "keys": keys}


def step(p: dict, s: dict) -> dict:
    return {"k": "step", "p": p, "s": s}


def truncated(rng: random.Random, p: dict, sch: Schema, k: t.Optional[int] = None) -> dict:
    """`p.orderBy(<all columns>).limit(k)`: an operand that carries its own ORDER BY and LIMIT"""
    return step(step(p, total_order(rng, sch)), {"k": "limit", "n": rng.choice([0, 1, 1, 2, 2, 3]) if k is None else k})


def gen_tables(rng: random.Random) -> t.List[dict]:
    """t0, t1: the same types (set operations / unionByName); t2 shares the key x with t0 (joins that fan out);
    t3 has names of its own (crossJoin)"""
    with_s = rng.random() < 0.4
    s0: Schema = [("x", "int"), ("y", "int")] + ([("s", "str")] if with_s else [])
    mode = rng.choice(["same", "same", "perm", "fresh"])
    if mode == "same":
        s1 = list(s0)
    elif mode == "perm":
        s1 = [("y", "int"), ("x", "int")] + s0[2:]
    else:
        s1 = [("u", "int"), ("v", "int")] + ([("w", "str")] if with_s else [])
    s2: Schema = [("x", "int"), ("z", "int")]
    s3: Schema = [("p", "int")] if rng.random() < 0.5 else [("p", "int"), ("q", "str")]
    env = []
    for sch in (s0, s1, s2, s3):
        rows = X.gen_table(rng, dict(sch), max_rows=rng.choice([4, 6]))
        if len(rows) < 2:  # growth needs something to grow from
            rows = rows + [[rng.choice([0, 1, 2, 3]) if ty == "int" else rng.choice(["a", "b"]) for _, ty in sch] for _ in range(3)]
        env.append({"schema": [[n, ty] for n, ty in sch], "rows": rows})
    return env


def operand(rng: random.Random, env: t.List[dict], i: int, trunc: t.Optional[bool], k: t.Optional[int] = None) -> t.Tuple[dict, Schema]:
    p: dict = {"k": "base", "i": i}
    sch: Schema = [(n, ty) for n, ty in env[i]["schema"]]
    c = rng.random()
    if c < 0.15:
        p = step(p, {"k": "where", "p": X.Gen(rng, dict(sch)).bool_expr(1)})
    elif c < 0.25:
        p = step(p, {"k": "distinct"})
    if trunc if trunc is not None else rng.random() < 0.7:
        p = truncated(rng, p, sch, k)
    return p, sch


def combine(rng: random.Random, env: t.List[dict], kind: str, side: str, k: t.Optional[int] = None) -> t.Tuple[dict, Schema]:
    """one row-combining operation over operands of which `side` (l / r / both / none) carry ORDER BY + LIMIT"""
    tl, tr = side in ("l", "both"), side in ("r", "both")
    l, ls = operand(rng, env, 0, tl, k)
    if kind in SETOPS:
        r, _ = operand(rng, env, 1, tr, k)
        return {"k": "setop", "m": kind, "l": l, "r": r}, ls
    if kind in ("byName", "byNameMissing"):
        r, rs = operand(rng, env, 1, tr, k)
        am = kind == "byNameMissing"
        if not am and {n for n, _ in rs} != {n for n, _ in ls}:
            am = True
        p = {"k": "byName", "am": am, "l": l, "r": r}
        return p, ls + [(n, ty) for n, ty in rs if n not in dict(ls)] if am else ls
    if kind in ("join", "joinLeft"):
        r, rs = operand(rng, env, 2, tr, k)
        p = {"k": "join", "how": "left" if kind == "joinLeft" else "inner", "on": "x", "l": l, "r": r}
        return p, [("x", "int")] + [(n, ty) for n, ty in ls if n != "x"] + [(n, ty) for n, ty in rs if n != "x"]
    if kind == "crossJoin":
        r, rs = operand(rng, env, 3, tr, k)
        return {"k": "crossJoin", "l": l, "r": r}, ls + rs
    if kind == "unpivot":
        ids = [n for n, _ in ls[2:]] if rng.random() < 0.5 else []
        return step(l, {"k": "unpivot", "ids": ids, "vals": ["x", "y"], "var": "var", "val": "val"}), [(n, ty) for n, ty in ls if n in ids] + [("var", "str"), ("val", "int")]
    if kind == "agg":
        return {"k": "agg", "keys": ["x"], "p": l}, [("x", "int"), ("c", "int")]
    if kind in WIN_FNS or kind == "winInOperand":
        # rows SELECTED BY the value of a window function whose spec has an ORDER BY: the row set depends on a clause that
        # sits inside an expression of an inner scope
        fn = WIN_FNS.get(kind) or rng.choice(["rank", "sum", "row_number"])
        part = [] if rng.random() < 0.5 else ["x"]
        if fn in ("row_number", "lag"):
            keys = total_order(rng, [(n, ty) for n, ty in ls if n not in part])["keys"]
        else:
            keys = [{"name": "y", "desc": rng.random() < 0.5, "nullsFirst": rng.random() < 0.5}]
        w = {"k": "win", "fn": fn, "arg": "y", "part": part, "keys": keys, "name": "wv", "p": l}
        bound = rng.choice([1, 2, 2, 3]) if fn != "sum" and fn != "lag" else rng.choice([0, 1, 2, 3, 5])
        p = step(w, {"k": "where", "p": ("bin", rng.choice(["le", "le", "lt", "gt"]), ("col", "wv"), ("lit", bound))})
        sch = ls + [("wv", "int")]
        if rng.random() < 0.4:
            p = step(p, {"k": "drop", "ns": ["wv"]})
            sch = ls
        if kind == "winInOperand" and sch == ls:
            r, _ = operand(rng, env, 1, tr, k)
            p = {"k": "setop", "m": rng.choice(["union", "exceptAll", "intersectAll"]), "l": p, "r": r}
        return p, sch
    raise ValueError(kind)


def gen_tree(rng: random.Random, kind: t.Optional[str] = None, side: t.Optional[str] = None, k: t.Optional[int] = None) -> t.Optional[dict]:
    env = gen_tables(rng)
    kind = kind or rng.choice(GROW_KINDS)
    side = side or rng.choice(["l", "r", "both", "both", "none"])
    if kind.startswith("win"):
        # partitions with several rows and tied / distinct sort values
        e = env[0]
        e["rows"] = e["rows"] + [[rng.choice([1, 1, 2]) if n == "x" else rng.choice([0, 1, 2, 3, 5]) if ty == "int" else rng.choice(["a", "b"]) for n, ty in e["schema"]] for _ in range(rng.randint(3, 5))]
        if side == "r" or (side != "none" and rng.random() < 0.6):
            side = "none"  # mostly an untruncated input: the window sees every row
    p, sch = combine(rng, env, kind, side, k)
    if rng.random() < 0.25 and [ty for _, ty in sch] == [ty for _, ty in env[1]["schema"]] and kind not in ("byName", "byNameMissing") and side != "r":
        # a second level: the (possibly truncated again) combination is united with one more operand
        if rng.random() < 0.5:
            p = truncated(rng, p, sch)
        p = {"k": "setop", "m": rng.choice(["union", "unionAll"]), "l": p, "r": {"k": "base", "i": 1}}
    c = rng.random()
    if c < 0.12:
        p = step(p, {"k": "where", "p": X.Gen(rng, dict(sch)).bool_expr(1)})
    elif c < 0.2:
        p = step(p, {"k": "distinct"})
    elif c < 0.28:
        ints = [n for n, ty in sch if ty == "int"]
        if ints:
            p = step(p, {"k": "withColumn", "n": "w9", "e": ("bin", "add", ("col", rng.choice(ints)), ("lit", 1))})
            sch = sch + [("w9", "int")]
    ordered = rng.random() < 0.8
    if ordered:
        p = step(p, total_order(rng, sch))
        if rng.random() < 0.3:
            p = step(p, {"k": "limit", "n": rng.choice([0, 1, 2, 3, 5, 50])})
    case = {"env": env, "prog": p, "ordered": ordered, "n": rng.choice([0, 1, 2, 3, 4, 7, 20]),
            "names": [rng.choice(NAME_POOL) for _ in range(rng.randint(1, 4))], "family": f"tree:{kind}:{side}"}
    # only the tables the program mentions (smaller replays)
    return case if tree_valid(case) else None


def prog_to_lean(p: dict) -> t.Any:
    k = p["k"]
    if k == "base":
        return {"base": {"i": p["i"]}}
    if k == "step":
        return {"step": {"p": prog_to_lean(p["p"]), "s": c01.step_to_lean(p["s"])}}
    if k == "setop":
        return {"setop": {"m": p["m"], "l": prog_to_lean(p["l"]), "r": prog_to_lean(p["r"])}}
    if k == "byName":
        return {"byName": {"allowMissing": p["am"], "l": prog_to_lean(p["l"]), "r": prog_to_lean(p["r"])}}
    raise ValueError(k)


def show_prog(p: dict) -> str:
    k = p["k"]
    if k == "base":
        return f"t{p['i']}"
    if k == "step":
        return f"{show_prog(p['p'])}.{c01.show_step(p['s'])}"
    if k == "setop":
        return f"{show_prog(p['l'])}.{p['m']}({show_prog(p['r'])})"
    if k == "byName":
        return f"{show_prog(p['l'])}.unionByName({show_prog(p['r'])}{', allowMissingColumns=True' if p['am'] else ''})"
    if k == "join":
        return f"{show_prog(p['l'])}.join({show_prog(p['r'])}, {p['on']!r}, {p['how']!r})"
    if k == "crossJoin":
        return f"{show_prog(p['l'])}.crossJoin({show_prog(p['r'])})"
    if k == "win":
        arg = repr(p["arg"]) if p["fn"] in ("sum", "lag") else ""
        keys = ", ".join(f"{x['name']} {'desc' if x['desc'] else 'asc'} nulls {'first' if x['nullsFirst'] else 'last'}" for x in p["keys"])
        return f"{show_prog(p['p'])}.withColumn({p['name']!r}, {p['fn']}({arg}).over(Window.partitionBy({', '.join(map(repr, p['part']))}).orderBy({keys})))"
    if k == "agg":
        return f"{show_prog(p['p'])}.groupBy({', '.join(map(repr, p['keys']))}).agg(count(lit(1)).alias('c'))"
    return str(p)


def bases_used(p: dict) -> t.Set[int]:
    if p["k"] == "base":
        return {p["i"]}
    if p["k"] in ("step", "agg", "win"):
        return bases_used(p["p"])
    return bases_used(p["l"]) | bases_used(p["r"])


def build_prog(p: dict, bases: t.List[t.Any], F: t.Any) -> t.Any:
    k = p["k"]
    if k == "base":
        return bases[p["i"]]()
    if k == "step":
        return c01.apply_step(build_prog(p["p"], bases, F), p["s"], F)
    if k == "agg":
        return build_prog(p["p"], bases, F).groupBy(*p["keys"]).agg(F.count(F.lit(1)).alias("c"))
    if k == "win":
        from sqlframe.duckdb import Window

        cols = []
        for key in p["keys"]:
            c_ = F.col(key["name"])
            d, nf = key["desc"], key["nullsFirst"]
            cols.append(c_.asc_nulls_first() if (not d and nf) else c_.asc_nulls_last() if not d else c_.desc_nulls_last() if not nf else c_.desc_nulls_first())
        w = Window.partitionBy(*p["part"]).orderBy(*cols) if p["part"] else Window.orderBy(*cols)
        f = {"rank": F.rank, "dense_rank": F.dense_rank, "row_number": F.row_number}.get(p["fn"])
        e = f() if f else (F.sum(p["arg"]) if p["fn"] == "sum" else F.lag(p["arg"], 1))
        return build_prog(p["p"], bases, F).withColumn(p["name"], e.over(w).cast("bigint"))
    l, r = build_prog(p["l"], bases, F), build_prog(p["r"], bases, F)
    if k == "setop":
        return getattr(l, p["m"])(r)
    if k == "byName":
        return l.unionByName(r, allowMissingColumns=True) if p["am"] else l.unionByName(r)
    if k == "join":
        return l.join(r, p["on"], p["how"])
    if k == "crossJoin":
        return l.crossJoin(r)
    raise ValueError(k)


def build_df(c: dict, F: t.Any) -> t.Any:
    env, prog = tree_of(c)
    bases = [(lambda e=e: X.make_df(c01.session(), {n: ty for n, ty in e["schema"]}, e["rows"])) for e in env]
    return build_prog(prog, bases, F)


def case_to_lean(i: int, c: dict, impl_cols: t.Optional[t.List[str]] = None) -> dict:
    env, prog = tree_of(c)
    if not in_lean(prog):
        # outside the Lean model: only `_unique_field_names` of the result's columns is asked for
        return {"case": i, "env": [{"cols": list(impl_cols or []), "rows": []}], "prog": {"base": {"i": 0}}, "n": c["n"], "names": c["names"]}
    return {"case": i, "env": [X.table_to_lean([n for n, _ in e["schema"]], e["rows"]) for e in env], "prog": prog_to_lean(prog), "n": c["n"], "names": c["names"]}


def _norm(v: t.Any) -> t.Any:
    if v is None:
        return None
    if isinstance(v, float):
        if math.isnan(v):
            return None
        if v == int(v):
            return int(v)
    if hasattr(v, "item"):
        try:
            return _norm(v.item())
        except Exception:
            pass
    return v


def parse_show(text: str) -> t.Tuple[t.List[str], t.List[t.List[str]]]:
    lines = [l for l in text.strip().split("\n") if l.startswith("|")]
    cells = [[c.strip() for c in l.strip().strip("|").split("|")] for l in lines]
    if not cells or cells[0] == [""]:
        return [], [r for r in cells[1:] if r != [""]]
    return cells[0], cells[1:]


def run_impl(c: dict) -> dict:
    import warnings

    from sqlframe.base.types import Row
    from sqlframe.duckdb import functions as F

    out: t.Dict[str, t.Any] = {}
    try:
        df = build_df(c, F)
        n = c["n"]
        sql_before = df.sql(optimize=False)
        cols_before = list(df.columns)
        C = [[plain(v) for v in r] for r in df.collect()]
        out["collect"] = C
        out["cols"] = cols_before
        out["count"] = df.count()
        out["isEmpty"] = df.isEmpty()
        h = df.head()
        out["first"] = None if h is None else [plain(v) for v in h]
        f = df.first()
        out["first2"] = None if f is None else [plain(v) for v in f]
        out["head"] = [[plain(v) for v in r] for r in df.head(n)]
        out["limit"] = [[plain(v) for v in r] for r in df.limit(n).collect()]
        # a limit that is larger than anything here must change nothing
        big = df.limit(PROBE)
        out["limit_big"] = len(big.collect())
        out["limit_count"] = df.limit(n).count()
        # structure of the statement, for the correspondence with the model: the LIMIT nodes in CTE bodies (WITH order) and
        # the LIMIT `limit(PROBE)` leaves on the outer SELECT (PROBE itself unless it merged with one it found)
        out["inner_limits"] = inner_limits(df.expression)
        lim = big.expression.args.get("limit")
        out["probe"] = int(lim.expression.this) if lim is not None else None
        with warnings.catch_warnings():
            warnings.simplefilter("ignore")
            pdf = df.toPandas()
        out["pandas_cols"] = [str(x) for x in pdf.columns]
        out["pandas"] = [[plain(_norm(v)) for v in row] for row in pdf.itertuples(index=False, name=None)]
        at = df.toArrow()
        out["arrow_cols"] = list(at.column_names)
        out["arrow"] = [[plain(v) for v in row] for row in zip(*[col.to_pylist() for col in at.columns])] if at.num_columns else []
        buf = io.StringIO()
        with contextlib.redirect_stdout(buf):
            df.show(n)
        out["show"] = parse_show(buf.getvalue())
        # nothing above may have changed the DataFrame
        out["again"] = [[plain(v) for v in r] for r in df.collect()]
        out["stable"] = df.sql(optimize=False) == sql_before and list(df.columns) == cols_before
        names = c["names"]
        out["unique"] = list(Row(*names)(*range(len(names)))._unique_field_names)
        if c.get("pairs"):
            out["pair_problems"] = action_pairs(df, n, c["ordered"])
    except Exception as e:  # noqa
        out["err"] = f"{type(e).__name__}: {str(e)[:300]}"
    return out


def inner_limits(expression: t.Any) -> t.List[int]:
    from sqlglot import exp

    out = []
    for cte in expression.ctes:
        out += [int(x.expression.this) for x in cte.this.find_all(exp.Limit)]
    return out


def action_pairs(df: t.Any, n: int, ordered: bool) -> t.List[str]:
    """"none of these actions alters the result of any other": every ordered pair (a, b) of actions, b directly after a,
    on the same DataFrame object; b's answer must not depend on which action ran before it"""
    import warnings

    def rows(rs: t.Any) -> t.Any:
        out = [[plain(v) for v in r] for r in rs]
        return out if ordered else sorted(json.dumps(r, sort_keys=True, default=str) for r in out)

    def prefix(rs: t.Any) -> t.Any:
        out = [[plain(v) for v in r] for r in rs]
        return out if ordered else len(out)

    def pandas() -> t.Any:
        with warnings.catch_warnings():
            warnings.simplefilter("ignore")
            pdf = df.toPandas()
        return [[str(x) for x in pdf.columns], rows([[_norm(v) for v in row] for row in pdf.itertuples(index=False, name=None)])]

    def arrow() -> t.Any:
        at = df.toArrow()
        return [list(at.column_names), rows(list(zip(*[col.to_pylist() for col in at.columns])) if at.num_columns else [])]

    def arrow_batches() -> t.Any:
        rd = df.toArrow(2)
        tb = rd.read_all()
        return [list(tb.column_names), rows(list(zip(*[col.to_pylist() for col in tb.columns])) if tb.num_columns else [])]

    def show() -> t.Any:
        buf = io.StringIO()
        with contextlib.redirect_stdout(buf):
            df.show(n)
        hdr, body = parse_show(buf.getvalue())
        return [hdr, body if ordered else len(body)]

    def first() -> t.Any:
        h = df.first()
        return (None if h is None else [plain(v) for v in h]) if ordered else (h is None)

    acts: t.Dict[str, t.Callable[[], t.Any]] = {
        "collect": lambda: rows(df.collect()),
        "count": lambda: df.count(),
        "isEmpty": lambda: df.isEmpty(),
        "first": first,
        "head_n": lambda: prefix(df.head(n)),
        "limit_collect": lambda: prefix(df.limit(n).collect()),
        "toPandas": pandas,
        "toArrow": arrow,
        "toArrow_batches": arrow_batches,
        "show": show,
        "columns": lambda: list(df.columns),
        "schema": lambda: [f.name for f in df.schema.fields],
    }

    def run(name: str) -> t.Any:
        try:
            return json.loads(json.dumps(acts[name](), default=str))
        except Exception as e:  # noqa
            return f"raised {type(e).__name__}: {str(e)[:80]}"

    problems: t.List[str] = []
    ref: t.Dict[str, t.Tuple[str, t.Any]] = {}
    for a in acts:
        for b in acts:
            run(a)
            r = run(b)
            if b not in ref:
                ref[b] = (a, r)
            elif r != ref[b][1] and len(problems) < 6:
                problems.append(f"{b}() directly after {a}() gives {str(r)[:160]} but after {ref[b][0]}() it gave {str(ref[b][1])[:160]}")
    return problems


def cell(v: t.Any) -> str:
    if isinstance(v, dict):
        return v["s"].strip()
    return str(v)


def judge(c: dict, impl: dict, o: dict) -> t.Tuple[t.List[str], t.List[str]]:
    """returns (property failures: implementation vs specification/own collect, model mismatches);
    `o["lean"]` false = the program is outside the Lean model: only the property itself is judged"""
    fails: t.List[str] = []
    mm: t.List[str] = []
    if "err" in impl:
        return [f"action raised: {impl['err']}"], ["error"]
    C, n, ordered = impl["collect"], c["n"], c["ordered"]
    lean = o.get("lean", True)
    # --- the property itself, against the implementation's own collect() and the specification
    if lean:
        spec = o["spec"]
        if impl["cols"] != spec["cols"] or bag(C) != bag(spec["rows"]) or (ordered and C != spec["rows"]):
            fails.append("collect() differs from the sequential specification")
    if impl["count"] != len(C):
        fails.append(f"count()={impl['count']} but collect() has {len(C)} rows")
    if impl["isEmpty"] != (len(C) == 0):
        fails.append("isEmpty() disagrees with collect()")
    for key in ("first", "first2"):
        if ordered:
            if impl[key] != (C[0] if C else None):
                fails.append(f"{key} is not the first collected row")
        elif (impl[key] is None) != (not C) or (impl[key] is not None and json.dumps(impl[key]) not in [json.dumps(r) for r in C]):
            fails.append(f"{key} is not a collected row")
    for key in ("head", "limit"):
        if len(impl[key]) != min(n, len(C)):
            fails.append(f"{key}({n}) returned {len(impl[key])} rows of {len(C)}")
        elif ordered and impl[key] != C[:n]:
            fails.append(f"{key}({n}) is not the first {n} collected rows")
        elif not ordered and not set(bag(impl[key])) <= set(bag(C)):
            fails.append(f"{key}({n}) returned a row that collect() does not")
    if impl["limit_big"] != len(C):
        fails.append(f"limit({PROBE}).collect() returned {impl['limit_big']} rows of {len(C)}")
    if impl["limit_count"] != min(n, len(C)):
        fails.append(f"limit({n}).count()={impl['limit_count']} for a DataFrame of {len(C)} rows")
    if impl["pandas_cols"] != impl["cols"] or (impl["pandas"] != C if ordered else bag(impl["pandas"]) != bag(C)):
        fails.append("toPandas() differs from collect()")
    if impl["arrow_cols"] != impl["cols"] or (impl["arrow"] != C if ordered else bag(impl["arrow"]) != bag(C)):
        fails.append("toArrow() differs from collect()")
    hdr, rows = impl["show"]
    want_rows = [[cell(v) for v in r] for r in C[:n]]
    if len(rows) != min(n, len(C)) or (ordered and rows != want_rows):
        fails.append(f"show({n}) does not print the first {n} rows")
    if hdr != o["uniqueCols"]:
        fails.append(f"show({n}) header {hdr} is not the column names {o['uniqueCols']}")
    if impl["again"] != C if ordered else bag(impl["again"]) != bag(C):
        fails.append("collect() changed after running the other actions")
    for pb in impl.get("pair_problems", []):
        fails.append("an action alters the result of another: " + pb)
    if not impl["stable"]:
        fails.append("sql()/columns changed after running the actions")
    if len(set(impl["unique"])) != len(impl["unique"]):
        fails.append(f"_unique_field_names({c['names']}) = {impl['unique']} has duplicates")
    # --- correspondence with the model
    if o["unique"] != impl["unique"]:
        mm.append("unique")
    if not lean:
        return fails, mm
    if o["collect"]["cols"] != impl["cols"] or bag(o["collect"]["rows"]) != bag(C) or (ordered and o["collect"]["rows"] != C):
        mm.append("collect")
    if o["count"] != impl["count"]:
        mm.append("count")
    if o["isEmpty"] != impl["isEmpty"]:
        mm.append("isEmpty")
    if ordered:
        if o["first"] != impl["first"]:
            mm.append("first")
        if o["head"] != impl["head"]:
            mm.append("head")
        if o["limit"] != impl["limit"]:
            mm.append("limit")
        if [[cell(v) for v in r] for r in o["showRows"]] != rows:
            mm.append("showRows")
    else:
        if len(o["head"]) != len(impl["head"]):
            mm.append("head-len")
        if len(o["limit"]) != len(impl["limit"]):
            mm.append("limit-len")
    if o["showNames"] != hdr:
        mm.append("showNames")
    # which LIMIT nodes the statement carries in its CTEs, and which one `limit` found to merge with
    if o["innerLimits"] != impl["inner_limits"]:
        mm.append(f"inner-limits (model {o['innerLimits']}, statement {impl['inner_limits']})")
    if o["probe"] != impl["probe"]:
        mm.append(f"limit-lookup (limit({PROBE}) leaves LIMIT {impl['probe']} on the statement, the model says {o['probe']})")
    return fails, mm


def run_dup(c: dict) -> dict:
    """DataFrames with REPEATED column names (expression joins): every action must still agree with collect()"""
    import warnings

    from sqlframe.duckdb import functions as F

    out: t.Dict[str, t.Any] = {}
    try:
        s = c01.session()
        l = s.createDataFrame([tuple(r) for r in c["l"]], schema="id bigint, name string")
        r = s.createDataFrame([tuple(r) for r in c["r"]], schema="id bigint, name string" if c["same_names"] else "id bigint, tag string")
        j = l.join(r, on=l["id"] == r["id"], how=c["how"])
        if c["then_limit"]:
            j = j.limit(50)
        n = c["n"]
        C = [[plain(v) for v in row] for row in j.collect()]
        out["collect"], out["cols"] = C, list(j.columns)
        out["count"] = j.count()
        out["isEmpty"] = j.isEmpty()
        out["head_len"] = len(j.head(n))
        with warnings.catch_warnings():
            warnings.simplefilter("ignore")
            pdf = j.toPandas()
        out["pandas_cols"] = [str(x) for x in pdf.columns]
        out["pandas"] = [[plain(_norm(v)) for v in row] for row in pdf.itertuples(index=False, name=None)]
        at = j.toArrow()
        out["arrow_cols"] = list(at.column_names)
        buf = io.StringIO()
        with contextlib.redirect_stdout(buf):
            j.show(20)
        out["show"] = parse_show(buf.getvalue())
        out["again"] = [[plain(v) for v in row] for row in j.collect()]
    except Exception as e:  # noqa
        out["err"] = f"{type(e).__name__}: {str(e)[:300]}"
    return out


def judge_dup(c: dict, impl: dict, unique_cols: t.List[str]) -> t.List[str]:
    if "err" in impl:
        return [f"action raised on a DataFrame with repeated column names: {impl['err']}"]
    fails = []
    C = impl["collect"]
    if impl["count"] != len(C):
        fails.append(f"count()={impl['count']} but collect() has {len(C)} rows")
    if impl["isEmpty"] != (not C):
        fails.append("isEmpty() disagrees with collect()")
    if impl["head_len"] != min(c["n"], len(C)):
        fails.append(f"head({c['n']}) returned {impl['head_len']} rows of {len(C)}")
    if impl["pandas_cols"] != impl["cols"] or bag(impl["pandas"]) != bag(C):
        fails.append(f"toPandas() differs from collect(): {impl['pandas_cols']} {impl['pandas'][:3]} vs {impl['cols']} {C[:3]}")
    if impl["arrow_cols"] != impl["cols"]:
        fails.append(f"toArrow() names {impl['arrow_cols']} differ from {impl['cols']}")
    hdr, rows = impl["show"]
    if bag(rows) != bag([[cell(v) for v in r] for r in C[:20]]):
        fails.append(f"show() rows {rows[:3]} are not the collected rows {C[:3]}")
    if C and hdr != unique_cols:
        fails.append(f"show() header {hdr} is not the (de-duplicated) column names {unique_cols}")
    if bag(impl["again"]) != bag(C):
        fails.append("collect() changed after running the other actions")
    return fails


def gen_dup(rng: random.Random) -> dict:
    def rows(tagpool):
        return [[rng.choice([1, 2, 3, None]), rng.choice(tagpool)] for _ in range(rng.randint(0, 4))]

    return {"dup": True, "l": rows(["a", "b", None]), "r": rows(["x", "y", None]), "same_names": rng.random() < 0.7,
            "how": rng.choice(["inner", "left", "full"]), "then_limit": rng.random() < 0.4, "n": rng.choice([0, 1, 3, 20])}


def evaluate(cases: t.List[dict], workers: int = 0) -> t.List[dict]:
    t0 = time.time()
    impls = vlib.parallel_map(run_impl, cases, workers)
    if len(cases) > 50:
        vlib.log(f"C11: implementation side of {len(cases)} cases: {time.time() - t0:.1f}s")
    outs = vlib.run_driver("C11", [case_to_lean(i, c, impl.get("cols")) for i, (c, impl) in enumerate(zip(cases, impls))])
    res = []
    for c, o, impl in zip(cases, outs, impls):
        if "err" in o:
            raise RuntimeError(f"driver rejected a case: {o}")
        o["lean"] = in_lean(tree_of(c)[1])
        fails, mm = judge(c, impl, o)
        res.append({"case": c, "impl": impl, "model": o, "fails": fails, "mismatch": mm, "scope": scope_of(c, impl, o)})
    return res


def tree_shrinks(p: dict) -> t.Iterator[dict]:
    """smaller programs: a node replaced by one of its operands, anywhere in the tree"""
    k = p["k"]
    if k == "base":
        return
    kids = [("p", p["p"])] if k in ("step", "agg", "win") else [("l", p["l"]), ("r", p["r"])]
    for name, ch in kids:
        yield ch
        for sub in tree_shrinks(ch):
            yield dict(p, **{name: sub})


def shrink(c: dict, failing: t.Callable[[dict], bool], rounds: int = 10, keep_pairs: bool = False) -> dict:
    best = c if keep_pairs else {k: v for k, v in c.items() if k != "pairs"}
    for _ in range(rounds):
        cands: t.List[dict] = []
        if is_tree(best):
            cands += [dict(best, prog=q) for q in tree_shrinks(best["prog"])]
            used = bases_used(best["prog"])
            for i in sorted(used):
                e = best["env"][i]
                for j in range(len(e["rows"])):
                    env = list(best["env"])
                    env[i] = dict(e, rows=e["rows"][:j] + e["rows"][j + 1 :])
                    cands.append(dict(best, env=env))
            cands = [x for x in cands if tree_valid(x)]
            for x in cands:
                x["ordered"] = is_total_order(x["prog"], x["env"])
        else:
            cands += [dict(best, steps=best["steps"][:i] + best["steps"][i + 1 :]) for i in range(len(best["steps"]))]
            cands += [dict(best, rows=best["rows"][:i] + best["rows"][i + 1 :]) for i in range(len(best["rows"]))]
            cands = [x for x in cands if c01.valid(x) and not c01.has_risky_limit(x)]
            for x in cands:
                x["ordered"] = bool(x["steps"]) and c01.order_checked(x)
        cands += [dict(best, names=best["names"][:i] + best["names"][i + 1 :]) for i in range(len(best["names"])) if len(best["names"]) > 1]
        if not cands:
            break
        res = evaluate(cands[:60], workers=1)
        nxt = next((r["case"] for r in res if failing(r)), None)
        if nxt is None:
            break
        best = nxt
    return best


def show_case(c: dict) -> str:
    if is_tree(c):
        tabs = "; ".join(f"t{i}={[n for n, _ in e['schema']]}{e['rows']}" for i, e in enumerate(c["env"]) if i in bases_used(c["prog"]))
        return f"{tabs}; {show_prog(c['prog'])}  [n={c['n']}, names={c['names']}]"
    return c01.show_case(c) + f"  [n={c['n']}, names={c['names']}]"


def scope_of(r_case: dict, impl: dict, o: dict) -> t.List[str]:
    """violated scope hypotheses; for a program outside the Lean model, H_showNonEmpty is read off the implementation's own
    collect() (the driver's answer for an empty table tells whether the source still has the header rule)"""
    if o.get("lean", True):
        return o["scope"]
    if "err" in impl:
        return []
    return ["H_showNonEmpty"] if "H_showNonEmpty" in o["scope"] and min(r_case["n"], len(impl["collect"])) == 0 else []


def run(ctx: Ctx) -> None:
    idx = vlib.props_index()[ID]
    vlib.prove(ctx, MODULES, GEN, idx["theorems"], SOURCES)
    known = {e["id"]: e for e in vlib.known_findings(ID)}

    cases: t.List[dict] = []
    cdir = os.path.join(vlib.VERIF, "corpus", ID)
    if os.path.isdir(cdir):
        for fn in sorted(os.listdir(cdir)):
            if fn.endswith(".json"):
                cases.append(json.load(open(os.path.join(cdir, fn))))
    for _ in range(2500 if ctx.thorough else 220):
        c = gen_case(ctx.rng)
        if c and c01.valid(c) and not c01.has_risky_limit(c):
            cases.append(c)
    # every ordered pair of actions on the same DataFrame object, for a few DataFrames
    def spread_pairs(cs: t.List[dict], k: int) -> None:
        # spaced out over the list, so that the (slow) pair cases land in different chunks of the worker pool
        cand = [c for c in cs if c.get("ordered") and (is_tree(c) or c["rows"])]
        for j in range(min(k, len(cand))):
            cand[j * len(cand) // k]["pairs"] = True

    spread_pairs(cases, 24 if ctx.thorough else 4)
    # tree programs.  Targeted grid: every row-combining operation x which operand carries its own ORDER BY + LIMIT x
    # that LIMIT's value (an action's LIMIT that merges with / is capped by a LIMIT of an inner scope shows when the
    # combination has more rows than the operand's LIMIT); then random trees
    trees: t.List[dict] = []
    for kind in GROW_KINDS:
        for side in ("l", "r", "both"):
            for k in (0, 1, 2):
                if side == "r" and (kind in ("unpivot", "agg") or kind.startswith("win")):
                    continue
                for _ in range(2 if ctx.thorough else 1):
                    c = gen_tree(ctx.rng, kind, side, k)
                    if c:
                        # an n above the inner LIMIT (and, mostly, above the result size) and one below
                        c["n"] = ctx.rng.choice([k + 1, k + 2, 7, 20, 20]) if ctx.rng.random() < 0.8 else ctx.rng.choice([0, 1, k])
                        trees.append(c)
    for _ in range(600 if ctx.thorough else 70):
        c = gen_tree(ctx.rng)
        if c:
            trees.append(c)
    spread_pairs(trees, 12 if ctx.thorough else 2)
    # the recorded witnesses of the open known findings ride along (replayed on the real code on every run)
    witnesses = [dict(e["witness"], witness_of=h) for h, e in known.items() if e.get("witness")]
    vlib.log(f"C11: proved/generated at {ctx.elapsed():.1f}s; {len(cases)} chains, {len(trees)} trees")
    res_all = evaluate(cases + trees + witnesses)
    vlib.log(f"C11: main stream done at {ctx.elapsed():.1f}s")
    res = res_all[: len(cases) + len(trees)]
    res_w = res_all[len(cases) + len(trees) :]

    # DataFrames with repeated column names (outside the single-table Lean model: the property itself is checked,
    # and the header against the Lean `uniqueFieldNames`)
    dups = [gen_dup(ctx.rng) for _ in range(300 if ctx.thorough else 40)]
    dimpl = vlib.parallel_map(run_dup, dups)
    dcols = [im.get("cols", []) for im in dimpl]
    dout = vlib.run_driver("C11", [{"case": i, "n": 0, "names": cols, "env": [{"cols": [], "rows": []}], "prog": {"base": {"i": 0}}} for i, cols in enumerate(dcols)])
    dup_viol = []
    for c, im, o in zip(dups, dimpl, dout):
        f = judge_dup(c, im, o["unique"])
        if f:
            dup_viol.append({"case": c, "failures": f, "implementation": im})

    def is_known(r: dict) -> bool:
        # a failure is a known finding iff the model predicts the implementation and every failure is
        # explained by a listed, violated hypothesis
        hyps = [h for h in r["scope"] if h.startswith("H_")]  # D_* entries mark theorem coverage, not defects
        if r["mismatch"] or not hyps or not all(h in known for h in hyps):
            return False
        return all("header" in f for f in r["fails"])

    new_viol = []
    for r in res:
        if r["fails"]:
            if is_known(r):
                for h in r["scope"]:
                    if h in known:
                        vlib.report_known(ctx, known[h], known[h]["summary"])
            else:
                new_viol.append(r)
    for r in res_w:
        e = known[r["case"]["witness_of"]]
        if r["fails"]:
            vlib.report_known(ctx, e, e["summary"])

    mism = [r for r in res if r["mismatch"]]
    if mism:
        ctx.broken.append(f"correspondence stream (actions of the implementation vs Impl/C11.lean, Impl/C11Tree.lean): {len(mism)} of {len(res)} cases differ, e.g. {mism[0]['mismatch']} on {show_case(mism[0]['case'])[:300]}")
    reported = 0
    for r in new_viol[:3]:
        c = shrink(r["case"], lambda rr: bool(rr["fails"]) and not is_known(rr), keep_pairs=all("alters the result" in f for f in r["fails"]))
        rr = evaluate([c], workers=1)[0]
        vlib.report_violation(
            ctx,
            {"kind": "actions disagree", "program": show_case(c), "case": c, "failures": rr["fails"], "implementation": rr["impl"], "model": rr["model"], "violated_scope_hypotheses": rr["scope"], "broken": ctx.broken},
        )
        reported += 1
    for v in dup_viol[: max(0, 3 - reported)]:
        vlib.report_violation(ctx, dict(v, kind="actions disagree on a DataFrame with repeated column names", program=f"l.join(r, l.id == r.id, {v['case']['how']!r})" + (".limit(50)" if v["case"]["then_limit"] else "")))
        reported += 1
    if ctx.broken and not reported:
        vlib.report_violation(
            ctx,
            {"kind": "proof obligation or correspondence no longer checks; no failing input found", "broken": ctx.broken, "searched": {"cases": len(res)},
             "first_model_mismatch": ({"program": show_case(mism[0]["case"]), "case": mism[0]["case"], "which": mism[0]["mismatch"], "implementation": mism[0]["impl"], "model": mism[0]["model"]} if mism else None)},
            no_input=True,
        )

    nontrivial = {vlib.digest([tree_of(r["case"]), r["case"]["n"]]) for r in res if "err" not in r["impl"] and r["impl"]["collect"]}
    tres = [r for r in res if is_tree(r["case"])]
    capped = [r for r in tres if "err" not in r["impl"] and r["impl"]["inner_limits"] and r["case"]["n"] > min(r["impl"]["inner_limits"]) and len(r["impl"]["collect"]) > min(r["impl"]["inner_limits"])]
    ctx.cov.update(
        {
            "evaluations": len(res),
            "distinct_nontrivial": len(nontrivial),
            "rule": "DataFrames built by random C01 chains (length 0..6, mostly ending in a total orderBy so that prefixes are determined) and by tree programs "
            "(grid: 12 row-combining operations x which operand carries orderBy+limit(k) x k in {0,1,2}; then random trees, some two levels deep, with further steps after "
            "the combination) x n in {0,1,2,3,4,7,20,k+1,k+2} x all actions (collect,count,isEmpty,head(),first(),head(n),limit(n).collect(),limit(n).count(),"
            "limit(10^6).collect(),toPandas,toArrow,show(n)) + adversarial duplicate field-name lists; non-trivial = distinct (program, tables, n) with a non-empty collect()",
            "tree_programs": len(tres),
            "tree_programs_in_lean_model": sum(1 for r in tres if r["model"].get("lean")),
            "tree_programs_inside_C11_tree": sum(1 for r in tres if r["model"].get("lean") and r["model"].get("wf")),
            "tree_families": {f: sum(1 for r in tres if r["case"].get("family", "").split(":")[1:2] == [f]) for f in GROW_KINDS},
            "statements_with_a_LIMIT_inside_a_CTE": sum(1 for r in res if "err" not in r["impl"] and r["impl"]["inner_limits"]),
            "actions_asked_for_more_rows_than_an_inner_LIMIT_on_a_larger_result": len(capped),
            "traces_validated_against_impl": sum(1 for r in res if not r["mismatch"]),
            "property_failures": sum(1 for r in res if r["fails"]),
            "ordered_cases": sum(1 for r in res if r["case"]["ordered"]),
            "empty_results": sum(1 for r in res if "err" not in r["impl"] and not r["impl"]["collect"]),
            "n_histogram": {str(k): sum(1 for r in res if r["case"]["n"] == k) for k in (0, 1, 2, 3, 7, 20)},
            "repeated_column_name_dataframes": len(dups),
            "duplicate_name_lists": sum(1 for r in res if len(set(r["case"]["names"])) != len(r["case"]["names"])),
            "samples": [{"program": show_case(r["case"]), "count": r["impl"].get("count"), "show": r["impl"].get("show")} for r in res[:: max(1, len(res) // 3)][:3]],
        }
    )
    ctx.assumptions += [
        "collect()'s rows are what Core/Sql.lean's block evaluation says (C01's assumption)",
        "pandas / arrow value conversion and PrettyTable's text layout are third-party: compared executably, not proved",
        "head/first/show prefixes are only compared exactly under a total ORDER BY (the engine's LIMIT without one is nondeterministic)",
        "tree programs with joins / crossJoin / groupBy are outside the Lean model: every action is compared with collect() of the same DataFrame only",
        "set operators are positional on the operands' rows (Impl/C07SetOps.lean evalSetop, C07's assumption); the order of a UNION's rows is compared only after a total orderBy",
    ]


def replay(ctx: Ctx, rp: dict) -> None:
    c = rp.get("case")
    if c and c.get("dup"):
        im = run_dup(c)
        o = vlib.run_driver("C11", [{"case": 0, "n": 0, "names": im.get("cols", []), "env": [{"cols": [], "rows": []}], "prog": {"base": {"i": 0}}}])[0]
        f = judge_dup(c, im, o["unique"])
        print(json.dumps({"failures": f}, indent=1))
        if f:
            vlib.report_violation(ctx, dict(rp, failures=f))
        return
    if not c:
        print("replay names a broken obligation, not an input:", rp.get("broken"))
        return
    r = evaluate([c], workers=1)[0]
    print(json.dumps({"program": show_case(c), "failures": r["fails"], "model_mismatch": r["mismatch"]}, indent=1))
    if r["fails"]:
        vlib.report_violation(ctx, dict(rp, failures=r["fails"], implementation=r["impl"]))
