"""
c20_child.py — runs ONE C20 case on the real implementation in a fresh interpreter state and prints one JSON line.

one-shot : stdin = one job (JSON), stdout = one result line
server   : `c20_child.py --serve` — a *zygote*: it imports the third-party libraries that sqlframe / pyspark need (never
           sqlframe or pyspark themselves: asserted), then reads one job per line and runs each in a forked child, so that
           every case starts from an interpreter in which neither sqlframe nor pyspark has ever been imported, without
           paying for numpy / pandas / pyarrow / sqlglot / duckdb again.  Answers `{"id": …, "res": …}` per line.
           (c20.py re-runs a sample of the cases one-shot and compares.)

job  : {"repo": path, "hide": bool, "stubs": [module names to stub], "events": [Event JSON as the Lean codec reads it],
        "tracked": [sys.modules keys to report], "conn_kinds": {"3": "closed", …}}
       or {"probe": "<module>", "tracked": [...]}   (what does a real `import <module>` do here?)
       or {"import_pkg": engine}                     (can the engine package be imported here?)
       or {"warm": true, …a case…}                   (additionally reports the third-party modules that were loaded)
result: {"trace": [{"outcome", "mods", "config", "caller", "fn"}]}  /  {"probe": {"raises": exc|null, "closure": [...]}}

Arguments of activate / activate_context: `conn=n` is a connection object per label n (the same object whenever the label
recurs; labels listed in conn_kinds are connections on which every use fails); `dialect=d` is
`config={'sqlframe.input.dialect': d}` where ONE dict object per value d is created on first use and handed to every
later activation with the same settings — the application's shared settings dict.  After each event the content of
every such dict is reported ("caller"): activate must only read it.

Nothing is imported from sqlframe before the events run except what `import sqlframe` pulls in.
"""
import importlib
import json
import os
import sys
import types
import warnings

warnings.filterwarnings("ignore")


def run_job(job: dict) -> dict:
    tracked = set(job.get("tracked", []))
    if "probe" in job:
        name = job["probe"]
        raises = None
        try:
            importlib.import_module(name)
        except BaseException as e:  # noqa
            raises = exc_name(e)
        clo = [k for k in sys.modules if k in tracked and not (raises and k == name and not job.get("keep_self"))]
        poison = []
        if raises and job.get("find_poison"):
            # what would deactivate()'s delete + re-import loop hit afterwards?
            keys = [k for k in sys.modules if k.startswith("pyspark")]
            for k in keys:
                sys.modules.pop(k, None)
            for k in keys:
                try:
                    importlib.import_module(k)
                except ImportError:
                    pass
                except BaseException as e:  # noqa
                    poison.append([k, exc_name(e)])
        return {"probe": {"raises": raises, "closure": clo, "poison": poison}}

    repo = job["repo"]
    sys.path.insert(0, repo)
    if job.get("hide"):

        class Blocker:
            def find_spec(self, name, path=None, target=None):
                if name == "pyspark":
                    raise ModuleNotFoundError("No module named 'pyspark' (hidden by the C20 harness)")
                return None

        sys.meta_path.insert(0, Blocker())

    class Stub(types.ModuleType):
        """stand-in for a database driver that is not installed: every attribute is a dummy class"""

        def __getattr__(self, n):
            if n.startswith("__"):
                raise AttributeError(n)
            return type(n, (Exception,), {})

    for s in job.get("stubs", []):
        parts = s.split(".")
        for i in range(1, len(parts) + 1):
            nm = ".".join(parts[:i])
            if nm not in sys.modules:
                m = Stub(nm)
                m.__path__ = []  # type: ignore
                sys.modules[nm] = m
                if i > 1:
                    setattr(sys.modules[".".join(parts[: i - 1])], parts[i - 1], m)

    if "import_pkg" in job:
        # can `import sqlframe.<engine>` run here at all (driver installed / stubbed)?
        try:
            importlib.import_module("sqlframe." + job["import_pkg"])
            return {"import_pkg": None}
        except BaseException as e:  # noqa
            return {"import_pkg": exc_name(e)}

    import sqlframe  # noqa

    engines = list(sqlframe.ENGINE_TO_PREFIX)
    sf_root = os.path.join(os.path.realpath(repo), "sqlframe") + os.sep
    from unittest.mock import MagicMock

    conns = {}
    conn_kinds = {int(k): v for k, v in (job.get("conn_kinds") or {}).items()}

    def conn(n):
        if n is None:
            return None
        if n not in conns:
            import duckdb

            kind = conn_kinds.get(n, "good")
            if kind == "dead":

                class Dead:
                    """a connection object every use of which fails"""

                    def __getattr__(self, name):
                        raise duckdb.ConnectionException(f"dead connection (C20 harness): {name}")

                c = Dead()
            else:
                c = duckdb.connect()
                if kind == "closed":
                    c.close()
                elif kind == "udfclash":
                    # the user has registered a Python function under a name sqlframe's DuckDB session wants to register
                    from duckdb.typing import VARCHAR

                    c.create_function("SOUNDEX", lambda s: s, return_type=VARCHAR)
                elif kind != "good":
                    raise ValueError(f"unknown connection kind {kind!r}")
            conns[n] = c
        return conns[n]

    def cfg_val(v):
        lab = [n for n, c in conns.items() if c is v]
        return {"conn": {"n": lab[0]}} if lab else {"str": {"s": v}} if isinstance(v, str) else {"other": repr(v)[:40]}

    caller_cfgs = {}  # dialect value -> the caller's dict object (created on first use, then reused)

    def caller_cfg(d):
        if d not in caller_cfgs:
            caller_cfgs[d] = {"sqlframe.input.dialect": d}
        return caller_cfgs[d]

    def desc(o):
        if isinstance(o, MagicMock):
            return "mock"
        if isinstance(o, types.ModuleType):
            name = o.__name__
            f = os.path.realpath(getattr(o, "__file__", None) or "")
            if name == "sqlframe.testing":
                return "testing"
            if name.startswith("sqlframe."):
                parts = name.split(".")
                if len(parts) == 2 and parts[1] in engines:
                    return {"pkg": {"e": parts[1]}}
                if len(parts) == 3 and parts[1] in engines:
                    return {"file": {"e": parts[1], "f": parts[2]}}
                return {"other": name}
            if f.startswith(sf_root):
                rel = f[len(sf_root) :].split(os.sep)
                if len(rel) == 2 and rel[0] in engines and rel[1].endswith(".py"):
                    return {"dup": {"e": rel[0], "f": rel[1][:-3]}}
                return {"other": name + "@" + f}
            if name.startswith("pyspark"):
                return {"real": {"name": name}}
            return {"other": name}
        mod = getattr(o, "__module__", None) or ""
        qn = getattr(o, "__qualname__", None) or getattr(o, "__name__", None) or type(o).__name__
        if mod.startswith("sqlframe.base"):
            return {"shared": {"n": qn}}
        if mod.startswith("sqlframe.testing"):
            return {"testingAttr": {"n": qn}}
        if mod.startswith("sqlframe."):
            parts = mod.split(".")
            if len(parts) >= 2 and parts[1] in engines:
                return {"cls": {"e": parts[1], "n": qn}}
        if mod.startswith("pyspark"):
            return {"realAttr": {"m": mod, "n": qn}}
        return {"other": f"{mod}:{qn}"}

    def snapshot():
        mods = [[k, desc(v)] for k, v in list(sys.modules.items()) if k.startswith("pyspark") and k in tracked]
        cfg = [[k, cfg_val(v)] for k, v in sqlframe.ACTIVATE_CONFIG.items()]
        fn = []
        for k in list(sys.modules):
            parts = k.split(".")
            if len(parts) == 2 and parts[0] == "sqlframe" and parts[1] in engines:
                m = sys.modules[k]
                a = m.__dict__.get("functions")
                fn.append([parts[1], [desc(a) if a is not None else None, (k + ".functions") in sys.modules]])
        caller = [[d, [[k, cfg_val(v)] for k, v in c.items()]] for d, c in caller_cfgs.items()]
        return {"mods": mods, "config": cfg, "caller": caller, "fn": fn}

    def act_args(d):
        cfg = caller_cfg(d["dialect"]) if d.get("dialect") is not None else None
        return d.get("eng"), conn(d.get("conn")), cfg

    def do_import(f):
        g = {}
        if "fromImport" in f:
            src = f"from {'.'.join(f['fromImport']['path'])} import {f['fromImport']['name']} as X"
        elif "importAs" in f:
            src = f"import {'.'.join(f['importAs']['path'])} as X"
        else:
            src = f"import importlib\nX = importlib.import_module({'.'.join(f['importModule']['path'])!r})"
        exec(src, g)
        return g["X"]

    stack = []
    trace = []
    for ev in job["events"]:
        out = "ok"
        try:
            if ev == "deactivate":
                sqlframe.deactivate()
            elif ev == "sessionCreate":
                g = {}
                exec("from pyspark.sql import SparkSession as X", g)
                cls = g["X"]
                d = desc(cls)
                if isinstance(d, dict) and "cls" in d:
                    s = cls.builder.getOrCreate()
                    c = getattr(s, "_connection", None)
                    lab = [n for n, cc in conns.items() if cc is c]
                    cv = {"given": {"n": lab[0]}} if lab else ("none" if c is None else "default")
                    tm = type(s).__module__.split(".")
                    out = {"session": {"engine": tm[1] if len(tm) > 1 else "?", "conn": cv, "dialect": type(s.input_dialect).__name__.lower()}}
                else:
                    out = {"obj": {"o": d}}
            elif "activate" in ev:
                e, c, cfg = act_args(ev["activate"])
                sqlframe.activate(e, c, cfg)
            elif "ctxEnter" in ev:
                e, c, cfg = act_args(ev["ctxEnter"])
                cm = sqlframe.activate_context(e, c, cfg)
                cm.__enter__()
                stack.append(cm)
            elif "ctxExit" in ev:
                if stack:
                    cm = stack.pop()
                    if ev["ctxExit"]["k"] == "normal":
                        cm.__exit__(None, None, None)
                    else:
                        # an Exception ("exn") or a BaseException that is not an Exception ("base": what
                        # KeyboardInterrupt / SystemExit / pytest.skip() raise) leaves the block
                        exc = RuntimeError("raised inside the activate_context block") if ev["ctxExit"]["k"] == "exn" else BlockLeft("left the block")
                        try:
                            raise exc
                        except BaseException as e:  # noqa
                            if not cm.__exit__(type(e), e, e.__traceback__):
                                raise
            elif "userImport" in ev:
                out = {"obj": {"o": desc(do_import(ev["userImport"]["f"]))}}
            else:
                raise ValueError(f"unknown event {ev!r}")
        except BaseException as e:  # noqa
            out = {"raised": {"x": exc_name(e)}, "msg": f"{type(e).__name__}: {str(e)[:160]}"}
        snap = snapshot()
        snap["outcome"] = out
        trace.append(snap)
    res = {"trace": trace}
    if job.get("warm"):
        res["third_party"] = [k for k in list(sys.modules) if not k.startswith(("pyspark", "sqlframe", "__main__")) and not any(k == s or k.startswith(s + ".") or s.startswith(k + ".") for s in job.get("stubs", []))]
    return res


class BlockLeft(BaseException):
    """stands for KeyboardInterrupt / SystemExit / pytest's Skipped: not an Exception subclass"""


def exc_name(e: BaseException) -> str:
    if not isinstance(e, Exception):
        return "baseException"
    for cls, nm in (
        (ModuleNotFoundError, "moduleNotFound"),
        (ImportError, "importError"),
        (AttributeError, "attributeError"),
        (ValueError, "valueError"),
        (RuntimeError, "runtimeError"),
    ):
        if type(e) is cls:
            return nm
    return "other:" + type(e).__name__


# ------------------------------------------------------------------------------------------------
# the zygote
# ------------------------------------------------------------------------------------------------


def _in_child(job: dict, wfd: int) -> None:
    try:
        os.dup2(2, 1)  # nothing a library prints may reach the protocol stream
        try:
            res = run_job(job)
        except BaseException as e:  # noqa
            import traceback

            res = {"error": f"{type(e).__name__}: {e}\n{traceback.format_exc()[-500:]}"}
        data = json.dumps(res).encode()
        while data:
            n = os.write(wfd, data)
            data = data[n:]
    finally:
        os._exit(0)


def _fork_job(job: dict, timeout: float) -> dict:
    import select
    import signal
    import time

    r, w = os.pipe()
    pid = os.fork()
    if pid == 0:
        os.close(r)
        _in_child(job, w)
    os.close(w)
    chunks = []
    t_end = time.time() + timeout
    timed_out = False
    while True:
        left = t_end - time.time()
        if left <= 0:
            timed_out = True
            break
        ready, _, _ = select.select([r], [], [], left)
        if not ready:
            timed_out = True
            break
        b = os.read(r, 1 << 16)
        if not b:
            break
        chunks.append(b)
    os.close(r)
    if timed_out:
        try:
            os.kill(pid, signal.SIGKILL)
        except OSError:
            pass
    os.waitpid(pid, 0)
    if timed_out:
        return {"error": f"timeout after {timeout}s"}
    try:
        return json.loads(b"".join(chunks).decode())
    except Exception as e:  # noqa
        return {"error": f"child died without a result: {e}"}


def serve() -> None:
    out = sys.stdout
    loaded_before = set(sys.modules)
    for line in sys.stdin:
        line = line.strip()
        if not line:
            continue
        job = json.loads(line)
        if "preload" in job:
            # import third-party modules (names reported by a warm-up case); never sqlframe / pyspark
            ok = 0
            for name in job["preload"]:
                if name.startswith(("pyspark", "sqlframe")):
                    continue
                try:
                    importlib.import_module(name)
                    ok += 1
                except BaseException:  # noqa
                    pass
            bad = [k for k in sys.modules if k == "pyspark" or k.startswith(("pyspark.", "sqlframe"))]
            import threading

            res = {"preloaded": ok, "polluted": bad, "threads": threading.active_count(), "new_modules": len(set(sys.modules) - loaded_before)}
        else:
            res = _fork_job(job, float(job.get("timeout", 120)))
        out.write(json.dumps({"id": job.get("id"), "res": res}) + "\n")
        out.flush()


def main() -> None:
    if len(sys.argv) > 1 and sys.argv[1] == "--serve":
        serve()
        return
    print(json.dumps(run_job(json.loads(sys.stdin.read()))))


if __name__ == "__main__":
    main()
