"""
C09 — Python values and declared types survive the trip through the engine; no string content can change
the statement's structure.

proof   : lean/SqlframeModel/Props/C09.lean over the regenerated Gen/Values.lean (tools/gen_c09.py)
tie     : every case is run on the REAL sqlframe + DuckDB; the statement that was really executed is lexed
          by the Lean scanner the theorems are about (`lex`), the literal text of every string is compared
          with the Lean `quote`, DuckDB itself reads each Lean-quoted literal back, `inferType`/`litOf`/
          `derivedNames`/`dictRowCells` are compared with df.schema / the literal AST / df.columns / values
search  : the same stream compares the implementation with the specification (collect() == input values
          with Python types, declared names and types)
"""
from __future__ import annotations

import datetime
import decimal
import json
import math
import os
import random
import struct
import typing as t

import vlib
from vlib import Ctx, log

ID = "C09"
LEVEL = "proof"
MODULES = ["SqlframeModel.Codec.C09", "SqlframeModel.Props.C09"]
GEN = ["Values"]
SOURCES = [
    "SqlframeModel/Props/C09.lean",
    "SqlframeModel/Lemmas/C09.lean",
    "SqlframeModel/Lemmas/C09Lex.lean",
    "SqlframeModel/Lemmas/C09Infer.lean",
    "SqlframeModel/Impl/C09Infer.lean",
    "SqlframeModel/Impl/C09Time.lean",
    "SqlframeModel/Impl/C09Lex.lean",
    "SqlframeModel/Impl/C09Values.lean",
    "SqlframeModel/Impl/C09Scope.lean",
]
UTC = datetime.timezone.utc

# ------------------------------------------------------------------------------------------------
# the real implementation (imported from vlib.REPO)
# ------------------------------------------------------------------------------------------------

_S: t.Dict[str, t.Any] = {}


def S() -> t.Dict[str, t.Any]:
    if not _S:
        sess = vlib.fresh_duckdb_session()
        from sqlframe.base import types as T
        from sqlframe.base.column import Column
        from sqlframe.duckdb import functions as F

        _S.update(sess=sess, F=F, T=T, Row=T.Row, Column=Column, log=[])
        orig = sess._execute

        def _exec(sql: str) -> None:
            _S["log"].append(sql)
            return orig(sql)

        sess._execute = _exec  # type: ignore
    return _S


# ------------------------------------------------------------------------------------------------
# values: JSON encoding, kinds, equality with Python types
# ------------------------------------------------------------------------------------------------


def enc(v: t.Any) -> t.Any:
    Row = S()["Row"]
    if v is None:
        return {"t": "none"}
    if isinstance(v, bool):
        return {"t": "bool", "v": v}
    if isinstance(v, int):
        return {"t": "int", "v": str(v)}
    if isinstance(v, float):
        return {"t": "float", "v": "nan" if math.isnan(v) else ("inf" if v == math.inf else ("-inf" if v == -math.inf else v.hex()))}
    if isinstance(v, decimal.Decimal):
        return {"t": "decimal", "v": str(v)}
    if isinstance(v, str):
        return {"t": "str", "v": [ord(c) for c in v]}
    if isinstance(v, (bytes, bytearray)):
        return {"t": "bytes", "v": bytes(v).hex()}
    if isinstance(v, datetime.datetime):
        return {"t": "ts", "v": v.isoformat()}
    if isinstance(v, datetime.date):
        return {"t": "date", "v": v.isoformat()}
    if isinstance(v, Row):
        return {"t": "row", "v": [[n, enc(x)] for n, x in zip(v.__fields__, v)]}
    if isinstance(v, (list, tuple)):
        return {"t": "list", "v": [enc(x) for x in v]}
    if isinstance(v, dict):
        return {"t": "dict", "v": [[enc(k), enc(x)] for k, x in v.items()]}
    return {"t": "other", "v": repr(v)}


def dec(j: t.Any) -> t.Any:
    Row = S()["Row"]
    k = j["t"]
    if k == "none":
        return None
    if k == "bool":
        return bool(j["v"])
    if k == "int":
        return int(j["v"])
    if k == "float":
        return {"nan": math.nan, "inf": math.inf, "-inf": -math.inf}[j["v"]] if j["v"] in ("nan", "inf", "-inf") else float.fromhex(j["v"])
    if k == "decimal":
        return decimal.Decimal(j["v"])
    if k == "str":
        return "".join(chr(c) for c in j["v"])
    if k == "bytes":
        return bytes.fromhex(j["v"])
    if k == "ts":
        return datetime.datetime.fromisoformat(j["v"])
    if k == "date":
        return datetime.date.fromisoformat(j["v"])
    if k == "row":
        return Row(**{n: dec(x) for n, x in j["v"]})
    if k == "list":
        return [dec(x) for x in j["v"]]
    raise ValueError(j)


def show(v: t.Any) -> str:
    r = repr(v)
    return r if len(r) <= 200 else r[:120] + f"…(+{len(r) - 120} chars)"


def pykind(v: t.Any) -> str:
    Row = S()["Row"]
    if v is None:
        return "none"
    if isinstance(v, bool):
        return "bool"
    if isinstance(v, int):
        return "int"
    if isinstance(v, float):
        return "floatNan" if math.isnan(v) else ("floatInf" if math.isinf(v) else "floatFinite")
    if isinstance(v, str):
        return "str"
    if isinstance(v, bytes):
        return "bytes"
    if isinstance(v, datetime.datetime):
        return "datetimeTz" if v.tzinfo else "datetimeNaive"
    if isinstance(v, datetime.date):
        return "date"
    if isinstance(v, Row):
        return "row"
    if isinstance(v, list):
        return "list"
    if isinstance(v, tuple):
        return "tuple"
    if isinstance(v, dict):
        return "dict"
    raise TypeError(v)


EPOCH = datetime.datetime(1970, 1, 1)
US = datetime.timedelta(microseconds=1)
ZONE: t.Dict[str, t.Any] = {"name": "UTC", "tz": UTC}  # the session zone of the case being run / judged
ZONES = {"UTC": 0, "Etc/GMT-5": 300, "Etc/GMT+8": -480, "Etc/GMT-14": 840, "Etc/GMT+12": -720}  # fixed offsets (minutes)


def use_zone(name: t.Optional[str]) -> None:
    """the zone `spec_value` reads instants in"""
    name = name or "UTC"
    ZONE["name"], ZONE["tz"] = name, datetime.timezone(datetime.timedelta(minutes=ZONES[name]))


def set_zone(name: t.Optional[str]) -> None:
    """… and the engine session's TimeZone setting"""
    name = name or "UTC"
    if name != _S.get("zone", "UTC"):
        S()["sess"]._conn.execute(f"SET TimeZone='{name}'")
        _S["zone"] = name
    use_zone(name)


def ts_wall(v: datetime.datetime) -> int:
    """the wall-clock reading of the datetime's own fields, in microseconds since 1970-01-01 00:00"""
    return (v.replace(tzinfo=None) - EPOCH) // US


def ts_off(v: datetime.datetime) -> t.Optional[int]:
    return None if v.tzinfo is None else v.utcoffset() // US


def wall_dt(w: int, off: t.Optional[int] = None) -> datetime.datetime:
    d = EPOCH + w * US
    return d if off is None else d.replace(tzinfo=datetime.timezone(off * US))


def ts_keys(lv: t.Iterable[t.Any]) -> t.List[t.Tuple[int, t.Optional[int]]]:
    """the distinct datetimes among the leaves, in a fixed order (request and answer of the driver are zipped)"""
    return sorted({ts_key(x) for x in lv if isinstance(x, datetime.datetime)}, key=lambda k: (k[0], k[1] is not None, k[1] or 0))


def ts_key(v: datetime.datetime) -> t.Tuple[int, t.Optional[int]]:
    return (ts_wall(v), ts_off(v))


def spec_value(v: t.Any) -> t.Any:
    """what PySpark's collect() gives back for the value (local = session time zone)"""
    Row = S()["Row"]
    if isinstance(v, datetime.datetime) and v.tzinfo:
        return v.astimezone(ZONE["tz"]).replace(tzinfo=None)
    if isinstance(v, Row):
        return Row(**{n: spec_value(x) for n, x in zip(v.__fields__, v)})
    if isinstance(v, list):
        return [spec_value(x) for x in v]
    return v


def aware_in_zone(v: t.Any) -> t.Any:
    return v.replace(tzinfo=ZONE["tz"]) if isinstance(v, datetime.datetime) and v.tzinfo is None else v


def model_value(v: t.Any, ts: t.Dict[t.Tuple[int, t.Optional[int]], dict]) -> t.Any:
    """what the MODEL says collect() gives back: datetimes by Lean `tsBack` (a `("lost",)` marker where the model has
    no reading), everything else as it went in"""
    Row = S()["Row"]
    if isinstance(v, tuple) and not isinstance(v, Row):
        return v  # a marker of the float model (`f32`)
    if isinstance(v, datetime.datetime):
        e = ts.get(ts_key(v))
        if e is None:
            return spec_value(v)
        return wall_dt(int(e["back"])) if e.get("back") is not None else ("lost",)
    if isinstance(v, Row):
        return Row(**{n: model_value(x, ts) for n, x in zip(v.__fields__, v)})
    if isinstance(v, list):
        return [model_value(x, ts) for x in v]
    return v


def to_tree(v: t.Any) -> t.Any:
    """the value as far as `get_default_data_type` looks at it (Lean `PyVal`)"""
    Row = S()["Row"]
    if isinstance(v, Row):
        return {"r": [list(v.__fields__), [to_tree(x) for x in v]]}
    if isinstance(v, (list, tuple)):
        return {"q": [pykind(v), [to_tree(x) for x in v]]}
    if isinstance(v, dict):
        return {"d": [[to_tree(k) for k in v], [to_tree(x) for x in v.values()]]}
    return {"s": [pykind(v), not v]}


def project(v: t.Any, ty: t.Any) -> t.Any:
    """what a CAST to the (model's) type keeps of a value: a struct is cast field by field, by name — fields the type
    does not name are gone (engine semantics: assumed, validated by the stream)"""
    Row = S()["Row"]
    if v is None or ty is None:
        return v
    if "s" in ty and isinstance(v, Row):
        have = dict(zip(v.__fields__, v))
        return Row(**{n: project(have.get(n), t_) for n, t_ in zip(ty["s"][0], ty["s"][1])})
    if "a" in ty and isinstance(v, list):
        return [project(x, ty["a"]) for x in v]
    return v


def ty_text(ty: t.Any) -> str:
    """a Lean `STy` (JSON) as the declared-type text of the generator (`_type_obj` reads it)"""
    if "p" in ty:
        return ty["p"]
    if "a" in ty:
        return f"array<{ty_text(ty['a'])}>"
    if "m" in ty:
        return f"map<{ty_text(ty['m'][0])},{ty_text(ty['m'][1])}>"
    return "struct<" + ",".join(f"{n}:{ty_text(x)}" for n, x in zip(ty["s"][0], ty["s"][1])) + ">"


def norm_type(text: t.Optional[str]) -> t.Optional[str]:
    """a Spark type text as the engine-dialect type sqlglot makes of it (third party; both sides of the CAST comparison
    go through it)"""
    if text is None:
        return None
    from sqlglot import exp

    return exp.DataType.build(text, dialect="spark").sql(dialect="duckdb")


def same(a: t.Any, b: t.Any) -> bool:
    """a (what came back) equals b (what is expected) as a value of the same Python type"""
    Row = S()["Row"]
    if b is None:
        return a is None
    if isinstance(b, tuple) and len(b) == 2 and b[0] == "f32":  # model prediction: rounded to 24 significand bits
        return isinstance(a, float) and abs(a - b[1]) <= abs(b[1]) * 2.0**-22
    if isinstance(b, tuple) and len(b) == 2 and b[0] == "ulp":  # model prediction: the engine's inexact DECIMAL -> DOUBLE
        return isinstance(a, float) and abs(a - b[1]) <= 4 * math.ulp(b[1])
    if isinstance(b, bool):
        return isinstance(a, bool) and a == b
    if isinstance(b, int):
        return isinstance(a, int) and not isinstance(a, bool) and a == b
    if isinstance(b, float):
        return isinstance(a, float) and (math.isnan(a) if math.isnan(b) else a == b)
    if isinstance(b, decimal.Decimal):
        return isinstance(a, decimal.Decimal) and a == b
    if isinstance(b, str):
        return isinstance(a, str) and a == b
    if isinstance(b, bytes):
        return isinstance(a, (bytes, bytearray)) and bytes(a) == b
    if isinstance(b, datetime.datetime):
        return isinstance(a, datetime.datetime) and a.tzinfo is None and a == b
    if isinstance(b, datetime.date):
        return type(a) is datetime.date and a == b
    if isinstance(b, Row):
        return isinstance(a, Row) and list(a.__fields__) == list(b.__fields__) and len(a) == len(b) and all(same(x, y) for x, y in zip(a, b))
    if isinstance(b, list):
        return isinstance(a, list) and len(a) == len(b) and all(same(x, y) for x, y in zip(a, b))
    return False


def leaves(v: t.Any) -> t.Iterator[t.Any]:
    Row = S()["Row"]
    if isinstance(v, Row):
        for x in v:
            yield from leaves(x)
    elif isinstance(v, (list, tuple)):
        for x in v:
            yield from leaves(x)
    else:
        yield v


def str_tokens(v: t.Any, ts: t.Optional[t.Dict[t.Tuple[int, t.Optional[int]], dict]] = None, top: bool = True) -> t.List[str]:
    """the string-literal tokens the value's literal puts into the statement, in order.  For str this is the
    Lean model's claim; for a datetime the fields and offset are the Lean model's (`litTs`) and their spelling is
    Python's `isoformat`; for the opaque kinds (date/bytes/NaN/inf) it is sqlglot's text, recorded here so that the
    whole statement can be compared token by token"""
    Row = S()["Row"]
    if v is None or isinstance(v, (bool, int)):
        return []
    if isinstance(v, float):
        if math.isinf(v):
            # through `lit` (top level): the string str(v) when the model says so; through `_lit`: the model's texts
            pr = probe()
            if top and pr["inf_top_string"]:
                return [str(v)]
            return [pr["inf_texts"][0 if v > 0 else 1]] if pr["inf_texts"] else []
        return ["NaN"] if math.isnan(v) else []
    if isinstance(v, str):
        return [v]
    if isinstance(v, bytes):
        return [v.hex()]
    if isinstance(v, datetime.datetime):
        e = (ts or {}).get(ts_key(v))
        if e is not None:
            return [wall_dt(int(e["litWall"]), None if e["litOff"] is None else int(e["litOff"])).isoformat(sep=" ")]
        return [(v.astimezone(UTC) if v.tzinfo else v).isoformat(sep=" ")]
    if isinstance(v, datetime.date):
        return [v.strftime("%Y-%m-%d")]
    if isinstance(v, Row):
        out: t.List[str] = []
        for n, x in zip(v.__fields__, v):
            out += [n] + str_tokens(x, ts, False)
        return out
    if isinstance(v, (list, tuple)):
        return [tok for x in v for tok in str_tokens(x, ts, False)]
    raise TypeError(v)


def decimal_typed(x: float) -> bool:
    """does DuckDB type the literal text `repr(x)` as DECIMAL (no exponent)?  lexical fact, outside the Lean model"""
    r = repr(x)
    return math.isfinite(x) and "e" not in r and "E" not in r


_PROBE: t.Dict[str, t.Any] = {}


def probe() -> t.Dict[str, t.Any]:
    """what the Lean model says about the two floats that have no number literal (asked once per process): how an
    infinity / a NaN is written by `lit` (top-level cells, `lit()`) and by `_lit` (nested cells, plain operands)"""
    if not _PROBE:
        req = {"case": 0, "strings": [], "sql": [], "ints": [], "kinds": ["floatInf", "floatNan"], "floats": [], "nans": [], "schema": None, "dict": None, "dicts": [], "zone": "0", "tss": [], "trees": [], "fdigits": []}
        out = vlib.run_driver("C09", [req])[0]
        ki, kn = out["kinds"]
        _PROBE.update(inf_top_string=ki["lit"] == "string", inf_texts=ki.get("infTexts"), inf_nested_double=bool(ki.get("infNestedDouble")), inf_operand=ki["operand"], nan_operand=kn["operand"])
    return _PROBE


def float_unscaled(x: float) -> int:
    """the digits of `repr(x)` read as an integer (what the engine's DECIMAL literal holds)"""
    return int("".join(ch for ch in repr(x) if ch.isdigit())) if decimal_typed(x) else 0


def float_leaves(v: t.Any) -> t.Iterator[float]:
    for x in leaves(v):
        if isinstance(x, float) and math.isfinite(x):
            yield x


def ulp_mark(v: t.Any, risky: t.Set[float]) -> t.Any:
    """the model's prediction for a float cell outside H_floatDigits: the value give or take the engine's DECIMAL ->
    DOUBLE conversion (observed: at most 2 units in the last place; accepted: 4)"""
    Row = S()["Row"]
    if isinstance(v, float) and v in risky:
        return ("ulp", v)
    if isinstance(v, Row):
        return Row(**{n: ulp_mark(x, risky) for n, x in zip(v.__fields__, v)})
    if isinstance(v, list):
        return [ulp_mark(x, risky) for x in v]
    return v


def nested_model(v: t.Any, nan_is_null: bool, top: bool = True) -> t.Any:
    """the model's prediction for a value whose NaNs INSIDE a list / Row are written by `Column._lit`
    (sqlglot's `convert` turns a NaN into NULL when `_lit` has no NaN case of its own)"""
    Row = S()["Row"]
    if isinstance(v, Row):
        return Row(**{n: nested_model(x, nan_is_null, False) for n, x in zip(v.__fields__, v)})
    if isinstance(v, list):
        return [nested_model(x, nan_is_null, False) for x in v]
    if not top and nan_is_null and isinstance(v, float) and math.isnan(v):
        return None
    return v


def group_type(vals: t.Iterable[t.Any]) -> str:
    """DuckDB's unified type of the float literals of one VALUES column / array as sqlframe writes them:
    DOUBLE if any literal has an exponent, else the NaN literal's type if there is a NaN, else DECIMAL
    (engine typing rule: assumed; validated because the model's predictions must match on every case)"""
    fl = [x for x in vals if isinstance(x, float)]
    if any((math.isfinite(x) and not decimal_typed(x)) or (math.isinf(x) and probe()["inf_nested_double"]) for x in fl):
        return "double"
    if any(math.isnan(x) for x in fl):
        return "nan"
    return "decimal" if fl else "none"


def inf_column_fails(vals: t.List[t.Any]) -> bool:
    """a VALUES column in which an infinity is the untyped string 'inf' (it went through `lit`) next to other float
    literals: the engine (assumed rule, validated whenever it is predicted) gives up when the string is the first
    non-NULL literal, and otherwise reads the string as the type the numeric literals unify to — which works for
    DOUBLE (some literal has an exponent or is the NaN cast) and fails for DECIMAL"""
    fl = [x for x in vals if isinstance(x, float)]
    if not any(math.isinf(x) for x in fl) or all(math.isinf(x) for x in fl):
        return False
    if math.isinf(fl[0]):
        return True
    return not any(math.isnan(x) or (math.isfinite(x) and not decimal_typed(x)) for x in fl)


def f32(x: t.Any) -> t.Any:
    return ("f32", x) if isinstance(x, float) and math.isfinite(x) else x


# ------------------------------------------------------------------------------------------------
# generators
# ------------------------------------------------------------------------------------------------

ADV = [
    "'", "''", "'''", "\\", "\\\\", "\\'", "'\\", "a'b", "--", "-- x\n", "--'", "/*", "*/", "/* x */", "/*'*/", ";", "'; DROP TABLE t; --",
    "\n", "\r\n", "\t", "\x0b", "\x01", "\x1f", "\x7f", "é", "☃", "𝄞", "\u202e", "\ufeff", "\u00a0", "", " ", "  x  ", "NULL", "null", "TRUE", "$$", "$t$x$t$",
    "E'x'", "\\n", "\\x41", "\\u0041", "%s", "%(a)s", "{}", "{0}", "?", ":a", "$1", '"', '""', "`", "``", "a\\", "'||'", "') --", "',('", "1); --", "\\''",
    "' OR '1'='1", "x'; SELECT 1; '", "U&'\\0041'", "\\\\'", "''''", "'\n'", "\\N",
]
NAMES = ["a", "b", "c", "d", "e", "k", "v", "w", "x1", "y_2", "col", "val"]
SCALAR_KINDS = ["int", "bool", "float", "floatinf", "str", "bytes", "date", "ts", "tstz"]
NESTED_KINDS = ["list_int", "list_str", "list_float", "list_list_int", "row", "row_nested", "list_row", "list_list_row", "list_tstz", "list_float_nan", "row_f"]
STRUCTY = ("row", "row_nested", "list_row", "list_list_row", "row_f")  # declared type text contains a comma
DECL = {
    "int": "bigint", "bool": "boolean", "float": "double", "floatinf": "double", "str": "string", "bytes": "binary", "date": "date",
    "ts": "timestamp", "tstz": "timestamp", "list_int": "array<bigint>", "list_str": "array<string>", "list_float": "array<double>",
    "list_list_int": "array<array<bigint>>", "row": "struct<a:bigint,b:string>", "row_nested": "struct<a:array<bigint>,b:struct<c:string>>",
    "list_row": "array<struct<a:bigint,b:string>>", "list_list_row": "array<array<struct<a:bigint,b:string>>>", "list_tstz": "array<timestamp>",
    "list_float_nan": "array<double>", "row_f": "struct<x:double,y:string>",
}


def gen_str(rng: random.Random, nul_ok: bool = False) -> str:
    r = rng.random()
    if r < 0.25:
        s = rng.choice(ADV)
    elif r < 0.6:
        s = "".join(rng.choice(ADV + ["abc", "x", " ", "1"]) for _ in range(rng.randint(2, 5)))
    elif r < 0.8:
        out = []
        for _ in range(rng.randint(1, 12)):
            c = rng.choice([rng.randint(1, 0x7F), rng.randint(0x80, 0x7FF), rng.randint(0x800, 0xFFFF), rng.randint(0x10000, 0x10FFFF)])
            if 0xD800 <= c <= 0xDFFF:
                c = 0x2603
            out.append(chr(c))
        s = "".join(out)
    elif r < 0.9:
        s = (rng.choice(ADV) + rng.choice(["x", "'", "\\", "é"])) * rng.randint(50, 400)
    else:
        s = "".join(rng.choice("abc xyz") for _ in range(rng.randint(0, 8)))
    if nul_ok and rng.random() < 0.5:
        i = rng.randint(0, len(s))
        s = s[:i] + "\x00" + s[i:]
    return s


def gen_int(rng: random.Random) -> int:
    r = rng.random()
    if r < 0.35:
        return rng.choice([0, 1, -1, 2**31 - 1, 2**31, -(2**31), -(2**31) - 1, 2**53, 2**53 + 1, 2**63 - 1, -(2**63), -(2**63) + 1, 10**18, -(10**18), 255, 256])
    if r < 0.7:
        return rng.randint(-(2**63), 2**63 - 1)
    return rng.randint(-1000, 1000)


def gen_float(rng: random.Random) -> float:
    r = rng.random()
    if r < 0.35:
        return rng.choice([0.0, -0.0, 1.5, 0.1, 1 / 3, 1e22, 1e-7, 5e-324, 2.2250738585072014e-308, 1.7976931348623157e308, -1.7976931348623157e308, 123456789.12345679, 1e16, 9007199254740993.0, 1e-5, 0.0001])
    if r < 0.7:
        while True:
            x = struct.unpack("<d", struct.pack("<Q", rng.getrandbits(64)))[0]
            if math.isfinite(x):
                return x
    return rng.uniform(-1e6, 1e6)


def gen_date(rng: random.Random) -> datetime.date:
    if rng.random() < 0.2:
        return rng.choice([datetime.date(1, 1, 1), datetime.date(9999, 12, 31), datetime.date(1970, 1, 1), datetime.date(2000, 2, 29), datetime.date(999, 12, 31), datetime.date(1582, 10, 10)])
    return datetime.date.fromordinal(rng.randint(1, datetime.date.max.toordinal()))


def gen_ts(rng: random.Random, tz: bool) -> datetime.datetime:
    if tz:
        d = datetime.datetime(rng.randint(1900, 2100), rng.randint(1, 12), rng.randint(1, 28), rng.randint(0, 23), rng.randint(0, 59), rng.randint(0, 59), rng.choice([0, 1, 999999, rng.randint(0, 999999)]))
        off = datetime.timedelta(minutes=rng.choice([0, 60, -60, 330, -720, 840, 345, -570, 1, -1439]))
        return d.replace(tzinfo=datetime.timezone(off))
    d = datetime.datetime(rng.choice([1, 1000, 1969, 1970, 2024, 9999, rng.randint(1, 9999)]), rng.randint(1, 12), rng.randint(1, 28), rng.randint(0, 23), rng.randint(0, 59), rng.randint(0, 59), rng.choice([0, 1, 999999, rng.randint(0, 999999)]))
    return d


def gen_val(rng: random.Random, kind: str, nul_ok: bool = False, lead_none: bool = False) -> t.Any:
    """`lead_none`: the column's type is declared, so an array may START with a NULL element"""
    Row = S()["Row"]
    if kind in ("list_row", "list_list_row", "list_tstz"):
        def one() -> t.Any:
            if kind == "list_row":
                return Row(a=gen_int(rng), b=gen_str(rng))
            if kind == "list_list_row":
                return [None if rng.random() < 0.2 else Row(a=gen_int(rng), b=gen_str(rng)) for _ in range(rng.randint(1, 2))] if not lead_none or rng.random() < 0.7 else [None, Row(a=gen_int(rng), b="z")]
            return gen_ts(rng, True)
        out = [one()] + [None if rng.random() < 0.25 else one() for _ in range(rng.randint(0, 2))]
        if kind == "list_list_row" and not lead_none and out[0] and out[0][0] is None:
            out[0][0] = Row(a=1, b="q")
        if lead_none and rng.random() < 0.6:
            out = [None] + out
        return out
    if kind == "list_float_nan":
        out = [gen_float(rng) for _ in range(rng.randint(1, 3))]
        out.insert(rng.randint(1, len(out)), math.nan)
        return out
    if kind == "row_f":
        return Row(x=math.nan if rng.random() < 0.5 else gen_float(rng), y=gen_str(rng))
    if kind == "int":
        return gen_int(rng)
    if kind == "bool":
        return rng.random() < 0.5
    if kind == "float":
        return math.nan if rng.random() < 0.15 else gen_float(rng)
    if kind == "floatinf":
        return rng.choice([math.inf, -math.inf])
    if kind == "str":
        return gen_str(rng, nul_ok)
    if kind == "bytes":
        return rng.choice([b"", b"\x00", b"'", b"\\", b"\xff\x00'\\--"]) if rng.random() < 0.3 else bytes(rng.getrandbits(8) for _ in range(rng.randint(0, 12)))
    if kind == "date":
        return gen_date(rng)
    if kind == "ts":
        return gen_ts(rng, False)
    if kind == "tstz":
        return gen_ts(rng, True)
    if kind == "list_int":
        return [gen_int(rng)] + [None if rng.random() < 0.15 else gen_int(rng) for _ in range(rng.randint(0, 3))]
    if kind == "list_str":
        return [gen_str(rng, nul_ok)] + [None if rng.random() < 0.15 else gen_str(rng) for _ in range(rng.randint(0, 3))]
    if kind == "list_float":
        return [gen_float(rng) for _ in range(rng.randint(1, 3))]
    if kind == "list_list_int":
        return [[gen_int(rng) for _ in range(rng.randint(1, 3))] for _ in range(rng.randint(1, 3))]
    if kind == "row":
        return Row(a=gen_int(rng), b=gen_str(rng, nul_ok))
    if kind == "row_nested":
        return Row(a=[gen_int(rng) for _ in range(rng.randint(1, 3))], b=Row(c=gen_str(rng)))
    raise ValueError(kind)


def gen_cdf(rng: random.Random, oos: t.Optional[str] = None, force: t.Optional[t.Tuple[str, str]] = None) -> dict:
    """one createDataFrame case; `oos` asks for a case violating that named hypothesis"""
    container = rng.choice(["tuple", "list", "dict", "Row"])
    form = rng.choice(["none", "names", "ddl", "dict", "struct"])
    if force:
        container, form = force
    ncols = rng.randint(1, 4)
    nrows = rng.randint(1, 4)
    kinds = [rng.choice(SCALAR_KINDS + NESTED_KINDS if rng.random() < 0.4 else SCALAR_KINDS) for _ in range(ncols)]
    names = rng.sample(NAMES, ncols)
    if container == "dict":
        names = sorted(names)  # PySpark sorts the keys of dict rows; only sorted keys are compared (see assumptions)
    if oos == "H_ddlSimple":
        form = "ddl"
        kinds[0] = rng.choice(["row", "row_nested"])
    elif form == "ddl":
        kinds = [k if k not in STRUCTY else "list_int" for k in kinds]
    if oos == "H_dictOrder":
        container, kinds, ncols = "dict", ["int"] * max(2, ncols), max(2, ncols)
        names = sorted(rng.sample(NAMES, ncols))
        nrows = max(2, nrows)
    if oos == "H_namesAreFields":
        container, form = rng.choice(["dict", "Row"]), "names"
    if oos == "H_trimmedNames":
        form = rng.choice(["names", "none"])
        if form == "none":
            container = rng.choice(["dict", "Row"])
        if container == "dict":
            container = "Row" if form == "none" else "tuple"
    cols = [{"name": n, "kind": k, "decl": DECL[k]} for n, k in zip(names, kinds)]
    rows = []
    for r in range(nrows):
        row = []
        for c in cols:
            nul = oos == "H_noNul" and c["kind"] in ("str", "list_str", "row") and r == 0
            v = gen_val(rng, c["kind"], nul_ok=nul, lead_none=form in ("dict", "struct"))
            if r > 0 and rng.random() < 0.15:
                v = None
            row.append(enc(v))
        rows.append(row)
    if oos == "H_nanWidth":
        cols[0]["kind"], cols[0]["decl"] = "float", "double"
        while len(rows) < 2:
            rows.append([enc(gen_val(rng, c["kind"])) for c in cols])
        for r in range(len(rows)):
            rows[r][0] = enc(rng.uniform(-1e6, 1e6) + 0.123456789)
        rows[rng.randint(1, len(rows) - 1)][0] = enc(math.nan)
    case: t.Dict[str, t.Any] = {"use": "cdf", "container": container, "form": form, "cols": cols, "rows": rows}
    if oos == "H_noNul" and not any(0 in x["v"] for row in rows for x in _str_leaves_enc(row)):
        cols[0]["kind"], cols[0]["decl"] = "str", "string"
        for r in range(nrows):
            rows[r][0] = enc(gen_str(rng, True) + ("\x00" if r == 0 else ""))
    # how each row is handed over: dict rows list their keys in an order of their own, may miss keys (rows after
    # the first), and with a typed schema the rows may be a mixture of tuples, lists, dicts and Rows
    typed = form in ("ddl", "dict", "struct")
    mixed = typed and not oos and rng.random() < 0.3
    if container == "dict" or mixed or oos == "H_dictOrder":
        shapes = []
        for r in range(len(rows)):
            cont = rng.choice(["tuple", "list", "dict", "dict", "Row"]) if mixed else container
            order = list(range(ncols))
            if cont == "dict":
                if (r > 0 or form != "none") and (rng.random() < 0.6 or oos == "H_dictOrder"):
                    rng.shuffle(order)
                if r > 0 and ncols > 1 and rng.random() < 0.2 and oos != "H_dictOrder":
                    order.remove(rng.choice(order))
            shapes.append({"cont": cont, "order": order})
        if form == "none":
            shapes[0]["order"] = list(range(ncols))
        if oos == "H_dictOrder" and all(sh["order"] == list(range(ncols)) for sh in shapes[1:]):
            shapes[-1]["order"] = list(reversed(range(ncols)))
        case["shapes"] = shapes
        case["container"] = shapes[0]["cont"]
    if oos == "H_namesAreFields":
        case["schema_names"] = [n + "_r" for n in names]
    if oos == "H_trimmedNames":
        i = rng.randrange(ncols)
        cols[i]["name"] = rng.choice([" " + cols[i]["name"], cols[i]["name"] + " ", " " + cols[i]["name"] + "  "])
    return case


def _str_leaves_enc(row: t.List[t.Any]) -> t.Iterator[t.Any]:
    for x in row:
        if x["t"] == "str":
            yield x
        elif x["t"] == "list":
            yield from _str_leaves_enc(x["v"])
        elif x["t"] == "row":
            yield from _str_leaves_enc([y for _, y in x["v"]])


def gen_lit(rng: random.Random, use: str, oos: t.Optional[str] = None) -> dict:
    kinds = SCALAR_KINDS + (["list_int", "list_str", "list_list_int", "row", "list_float", "list_row", "list_tstz", "list_float_nan", "row_f"] if use == "lit_select" else [])
    if use == "isin_where":
        kinds = ["int", "bool", "float", "str", "date", "ts", "tstz"]
    kind = rng.choice(kinds)
    if oos == "H_noNul":
        kind = "str"
    if oos == "H_infLiteral":
        kind = "floatinf"
    if oos == "H_listFloat":
        kind = "list_float"
    if use == "lit_select" and rng.random() < 0.05 and not oos:
        return {"use": use, "kind": "none", "v": enc(None)}
    v = gen_val(rng, kind, nul_ok=(oos == "H_noNul"), lead_none=True)
    if oos == "H_noNul" and "\x00" not in v:
        v += "\x00"
    if oos == "H_listFloat":
        v = [0.1] + v
    c = {"use": use, "kind": kind, "v": enc(v)}
    if use in ("lit_where", "isin_where"):
        for _ in range(20):
            w = gen_val(rng, kind)
            if kind == "str":
                w = rng.choice([v + "'", v + "\\", "'" + v, v + " ", v[:-1] if v else "x"]) if rng.random() < 0.7 else w
            if not same(spec_value(w), spec_value(v)) and not (isinstance(w, float) and math.isnan(w)):
                break
        c["w"] = enc(w)
    return c



# ------------------------------------------------------------------------------------------------
# value trees: every position the first-row inference looks at, with the values a class test cannot tell from
# "nothing" (0, 0.0, -0.0, False, '', b'') standing there
# ------------------------------------------------------------------------------------------------
# a type tree: ("p", name) | ("a", elem) | ("s", [(field, type), ...])

TREE_PRIMS = ["bigint", "double", "boolean", "string", "binary", "date", "timestamp"]
FALSY = {"bigint": [0], "double": [0.0, -0.0], "boolean": [False], "string": [""], "binary": [b""]}
FIELDS = ["a", "b", "c", "n", "s", "w", "ks", "x1"]


def tree_decl(ty: tuple) -> str:
    if ty[0] == "p":
        return ty[1]
    if ty[0] == "a":
        return f"array<{tree_decl(ty[1])}>"
    return "struct<" + ",".join(f"{n}:{tree_decl(x)}" for n, x in ty[1]) + ">"


def gen_tree(rng: random.Random, depth: int) -> tuple:
    r = rng.random()
    if depth <= 0 or r < 0.35:
        return ("p", rng.choice(TREE_PRIMS))
    if r < 0.65:
        return ("a", gen_tree(rng, depth - 1))
    return ("s", [(n, gen_tree(rng, depth - 1)) for n in rng.sample(FIELDS, rng.randint(1, 3))])


def tree_val(rng: random.Random, ty: tuple, mode: str) -> t.Any:
    """mode `falsy`: every scalar the inference looks at is the falsy value of its type (where the type has one);
    `first`: a first-row value (typed at every inference position); `later`: anything, None and empty lists included"""
    Row = S()["Row"]
    if mode == "later" and rng.random() < 0.12:
        return None
    if ty[0] == "p":
        if mode == "falsy" and ty[1] in FALSY:
            return rng.choice(FALSY[ty[1]])
        if mode == "later" and ty[1] in FALSY and rng.random() < 0.3:
            return rng.choice(FALSY[ty[1]])
        k = {"bigint": "int", "double": "float", "boolean": "bool", "string": "str", "binary": "bytes", "date": "date", "timestamp": rng.choice(["ts", "tstz"])}[ty[1]]
        v = gen_val(rng, k)
        while isinstance(v, float) and not math.isfinite(v):
            v = gen_val(rng, k)
        if isinstance(v, str) and len(v) > 40:
            v = v[:40]
        return v
    if ty[0] == "a":
        if mode == "later" and rng.random() < 0.2:
            return []
        return [tree_val(rng, ty[1], mode)] + [tree_val(rng, ty[1], "later") for _ in range(rng.randint(0, 2))]
    return Row(**{n: tree_val(rng, x, mode) for n, x in ty[1]})


def gen_tree_cdf(rng: random.Random, falsy: bool, tys: t.Optional[t.List[tuple]] = None, zone: t.Optional[str] = None) -> dict:
    tys = tys or [gen_tree(rng, rng.randint(0, 3)) for _ in range(rng.randint(1, 3))]
    names = sorted(rng.sample(NAMES, len(tys)))
    container = rng.choice(["tuple", "list", "dict", "Row"])
    form = rng.choice(["none", "names", "names", "dict", "struct"])
    cols = [{"name": n, "kind": "tree", "decl": tree_decl(ty)} for n, ty in zip(names, tys)]
    first = [enc(tree_val(rng, ty, "falsy" if falsy else "first")) for ty in tys]
    others = [[enc(tree_val(rng, ty, "later")) for ty in tys] for _ in range(rng.randint(0, 2))]
    c: t.Dict[str, t.Any] = {"use": "cdf", "container": container, "form": form, "cols": cols, "rows": [first] + others}
    if zone and zone != "UTC":
        c["zone"] = zone
    return c


def tree_sweep(rng: random.Random) -> t.List[dict]:
    """every falsy scalar at every kind of inference position: a cell, the first element of a list, a Row field (alone,
    first, last), the first element of a list inside a Row, a Row inside a list, two levels of lists"""
    out = []
    for prim in FALSY:
        p = ("p", prim)
        other = ("p", "string" if prim != "string" else "bigint")
        shapes = [
            [p], [("a", p)], [("s", [("n", p)])], [("s", [("n", p), ("s", other)])], [("s", [("s", other), ("n", p)])],
            [("s", [("w", p), ("ks", ("a", p))])], [("a", ("s", [("n", p), ("s", other)]))], [("a", ("a", p))], [p, other, ("a", p)],
        ]
        for tys in shapes:
            c = gen_tree_cdf(rng, True, tys)
            c["form"] = rng.choice(["none", "names"])
            if c["form"] == "none" and c["container"] == "dict":
                c["container"] = "Row"
            out.append(c)
    return out


def gen_first_row_untyped(rng: random.Random) -> dict:
    """outside H_firstRowTyped: the first row holds a None / an empty list at a position the inference looks at (a Row
    field, the first element of a list, a whole cell); a later row shows the type.  Only int / str / bool leaves, so
    that what comes back does not depend on how the engine types a literal it is not told the type of"""
    Row = S()["Row"]
    prims = [("p", "bigint"), ("p", "string"), ("p", "boolean")]
    p, q = rng.choice(prims), rng.choice(prims)
    shape = rng.choice(["field", "field", "elem", "cell", "empty", "field_in_list"])
    if shape == "field":
        ty: tuple = ("s", [("n", p), ("s", q)])
        full = tree_val(rng, ty, "first")
        first = Row(n=None, s=full[1]) if rng.random() < 0.7 else Row(n=full[0], s=None)
    elif shape == "elem":
        ty = ("a", p)
        full = tree_val(rng, ty, "first")
        first = [None] + full
    elif shape == "cell":
        ty = p
        first = None
    elif shape == "empty":
        ty = ("a", p)
        first = []
    else:
        ty = ("a", ("s", [("n", p), ("s", q)]))
        full = tree_val(rng, ("s", [("n", p), ("s", q)]), "first")
        first = [Row(n=None, s=full[1]), full]
    tys = [ty, ("p", "bigint")]
    names = sorted(rng.sample(NAMES, 2))
    cols = [{"name": n, "kind": "tree", "decl": tree_decl(x)} for n, x in zip(names, tys)]
    rows = [[enc(first), enc(1)], [enc(tree_val(rng, ty, "first")), enc(2)]]
    return {"use": "cdf", "container": rng.choice(["tuple", "list", "Row"]), "form": "names", "cols": cols, "rows": rows}


def inf_cases(rng: random.Random) -> t.List[dict]:
    """an infinity at every place a float can stand: alone in a column, next to other floats in a column (through `lit`:
    outside H_infLiteral), nested in a list / Row of a cell, in a list / Row given to lit(), as lit() in select / where,
    as a plain operand of every comparison entry point"""
    Row = S()["Row"]
    out: t.List[dict] = []
    pinf, ninf = math.inf, -math.inf
    f = lambda: gen_val(rng, "list_float")[0]  # noqa: E731  a finite float
    fcol = {"name": "f", "kind": "float", "decl": "double"}
    for rows in ([[pinf], [ninf], [None]], [[pinf], [f()]], [[f()], [ninf]], [[1e300], [pinf]], [[ninf], [math.nan]]):
        out.append({"use": "cdf", "container": rng.choice(["tuple", "list", "Row", "dict"]), "form": rng.choice(["names", "dict", "struct", "ddl"]), "cols": [dict(fcol)], "rows": [[enc(x) for x in r] for r in rows]})
    cols = [{"name": "l", "kind": "tree", "decl": "array<double>"}, {"name": "r", "kind": "tree", "decl": "struct<x:double,y:string>"}, {"name": "ll", "kind": "tree", "decl": "array<array<double>>"}]
    for form in ("names", rng.choice(["dict", "struct"])):
        rows = [[enc([rng.choice([pinf, ninf]), f()]), enc(Row(x=rng.choice([pinf, ninf]), y="q")), enc([[f(), pinf], [ninf]])],
                [enc([f(), ninf, None]), enc(Row(x=f(), y="")), enc([[pinf]])]]
        out.append({"use": "cdf", "container": rng.choice(["tuple", "Row"]), "form": form, "cols": [dict(x) for x in cols], "rows": rows})
    for v in ([pinf, f()], [f(), ninf], [ninf], Row(x=pinf, y="s"), [pinf, math.nan, f()]):
        out.append({"use": "lit_select", "kind": "row_f" if isinstance(v, Row) else "list_float", "v": enc(v)})
    for v in (pinf, ninf):
        for use in ("lit_select", "lit_where", "operand_where", "isin_where"):
            c = {"use": use, "kind": "floatinf", "v": enc(v)}
            if use in ("lit_where", "isin_where"):
                c["w"] = enc(-v)
            out.append(c)
    for op in ("eq", "ne", "gt", "ge", "lt", "le", "between", "between_same", "isin", "isin_list", "eqNullSafe", "req"):  # Column operators: the operand goes through `_lit` alone
        a, b = f(), f()
        while same(a, b) or float_unscaled(a) > 2**53 or float_unscaled(b) > 2**53:
            a, b = f(), rng.uniform(-1000, 1000)
        x, y = rng.choice([(pinf, ninf), (ninf, pinf), (pinf, a), (b, ninf)])
        out.append({"use": "entry", "op": op, "kind": "float", "v": enc(a), "w": enc(b), "x": enc(x), "y": enc(y)})
    return out


def gen_many_digits(rng: random.Random) -> dict:
    """outside H_floatDigits: float cells (top level, in a list, in a Row) whose `repr` has no exponent and more digits
    than a double holds exactly as an integer"""
    Row = S()["Row"]

    def one() -> float:
        while True:
            x = rng.choice([rng.uniform(-1, 1), rng.uniform(-1e-3, 1e-3), rng.uniform(-100, 100)])
            if float_unscaled(x) > 2**53:
                return x

    cols = [{"name": "f", "kind": "tree", "decl": "double"}, {"name": "l", "kind": "tree", "decl": "array<double>"}, {"name": "r", "kind": "tree", "decl": "struct<x:double,y:string>"}]
    rows = [[enc(one()), enc([one(), 1.5]), enc(Row(x=one(), y="q"))] for _ in range(rng.randint(1, 3))]
    return {"use": "cdf", "container": rng.choice(["tuple", "list", "Row", "dict"]), "form": rng.choice(["names", "dict", "struct"]), "cols": cols, "rows": rows}


TZ_OFFSETS = [0, 60, -60, 300, 330, 345, -210, -570, 765, 840, -720, 1, -1, 1439, -1439]  # minutes


def gen_aware(rng: random.Random) -> datetime.datetime:
    """an aware datetime whose offset matters: any offset up to +-23:59, often one that moves the date, the month or
    the year when the instant is read in UTC"""
    off = datetime.timedelta(minutes=rng.choice(TZ_OFFSETS) if rng.random() < 0.8 else rng.randint(-1439, 1439))
    r = rng.random()
    if r < 0.3:
        d = datetime.datetime(rng.randint(1900, 2100), rng.choice([1, 12]), rng.choice([1, 31]), rng.choice([0, 23]), rng.choice([0, 59]), rng.randint(0, 59), rng.choice([0, 999999]))
    elif r < 0.4:
        d = datetime.datetime(rng.choice([2000, 2024, 1900, 2100]), rng.choice([2, 3]), rng.choice([28, 1]), rng.choice([0, 23]), rng.randint(0, 59), 0)
    else:
        d = gen_ts(rng, False).replace(year=rng.randint(1900, 2100))
    return d.replace(tzinfo=datetime.timezone(off))


def gen_zone_cases(rng: random.Random, zone: str) -> t.List[dict]:
    """the same uses under another session time zone (configuration): cells, nested cells, lit() in select / where,
    plain operands"""
    out: t.List[dict] = []
    v, w = gen_aware(rng), gen_aware(rng)
    n = gen_ts(rng, False)
    Row = S()["Row"]
    cols = [{"name": "a", "kind": "tstz", "decl": "timestamp"}, {"name": "b", "kind": "ts", "decl": "timestamp"}, {"name": "c", "kind": "tree", "decl": "array<timestamp>"},
            {"name": "d", "kind": "tree", "decl": "struct<t:timestamp,u:timestamp>"}]
    rows = [[enc(v), enc(n), enc([v, n, None]), enc(Row(t=w, u=n))], [enc(w), enc(None), enc([w]), enc(Row(t=None, u=n))]]
    out.append({"use": "cdf", "container": rng.choice(["tuple", "Row"]), "form": rng.choice(["names", "dict", "struct"]), "cols": cols, "rows": rows})
    for use in ("lit_select", "lit_where", "operand_where", "isin_where"):
        x = gen_aware(rng) if rng.random() < 0.7 else gen_ts(rng, False)
        c = {"use": use, "kind": "tstz" if x.tzinfo else "ts", "v": enc(x)}
        if use in ("lit_where", "isin_where"):
            c["w"] = enc(x + datetime.timedelta(hours=rng.choice([1, -1, 5, 24])))
        out.append(c)
    for c in out:
        if zone != "UTC":
            c["zone"] = zone
    return out


# ------------------------------------------------------------------------------------------------
# literal lifting at every public entry point that takes a plain Python value where a Column could stand
# ------------------------------------------------------------------------------------------------
# Frame: columns c (the value's type) and k (string), rows (v, 'kk') and (w, 'zz').  The column names are
# deliberately words a careless path would resolve as identifiers ('c', 'k').  Every operation has a Python
# oracle over these two rows (the literal's VALUE semantics) and, where the entry point also accepts a Column,
# the same call with the value wrapped in F.lit() must give the same rows.

SQLISH = ["k", "c", "c + 1", "k || k", "(SELECT 'zzz')", "(SELECT 1)", "1=1", "NULL", "null", "TRUE", "*", "c.k", "`k`", '"k"', "'k'", "k -- x", "k /* x */",
          "lit('x')", "CAST(k AS INT)", "c AND k", "kk", "zz", "x' OR '1'='1", "1", "-1", "1e3", "0x10", "date '2020-01-01'", "$1", "?", ":c", "@k", "k;", "k\n", " c", "c "]


def _cmp(op: str) -> t.Callable[[t.Any, t.Any], bool]:
    import operator

    return {"eq": operator.eq, "ne": operator.ne, "gt": operator.gt, "ge": operator.ge, "lt": operator.lt, "le": operator.le}[op]


def _rows2(v: t.Any, w: t.Any) -> t.List[t.Tuple[t.Any, str]]:
    return [(v, "kk"), (w, "zz")]


def _pad(s: str, n: int, pad: str, left: bool) -> str:
    if len(s) >= n:
        return s[:n]
    fill = (pad * n)[: n - len(s)]
    return fill + s if left else s + fill


# name -> (kinds, apply(df, F, x, y, wrap), oracle(v, w, x, y) -> list of result tuples, accepts a Column)
# x, y are the plain values handed to the entry point (x is v or derived from it); `wrap` is identity or F.lit
def _entry_ops() -> t.Dict[str, t.Tuple[str, t.Callable, t.Callable, bool]]:
    ops: t.Dict[str, t.Tuple[str, t.Callable, t.Callable, bool]] = {}
    for name, sym in [("eq", "__eq__"), ("ne", "__ne__"), ("gt", "__gt__"), ("ge", "__ge__"), ("lt", "__lt__"), ("le", "__le__")]:
        ops[name] = ("any", (lambda sym: lambda df, F, x, y, wr: df.where(getattr(F.col("c"), sym)(wr(x))))(sym), (lambda name: lambda v, w, x, y: [r for r in _rows2(v, w) if _cmp(name)(r[0], x)])(name), True)
    ops["between"] = ("any", lambda df, F, x, y, wr: df.where(F.col("c").between(wr(min(x, y)), wr(max(x, y)))), lambda v, w, x, y: [r for r in _rows2(v, w) if min(x, y) <= r[0] <= max(x, y)], True)
    ops["between_same"] = ("any", lambda df, F, x, y, wr: df.where(F.col("c").between(wr(x), wr(x))), lambda v, w, x, y: [r for r in _rows2(v, w) if r[0] == x], True)
    ops["isin"] = ("any", lambda df, F, x, y, wr: df.where(F.col("c").isin(wr(x), wr(y))), lambda v, w, x, y: [r for r in _rows2(v, w) if r[0] in (x, y)], False)
    ops["isin_list"] = ("any", lambda df, F, x, y, wr: df.where(F.col("c").isin([wr(x)])), lambda v, w, x, y: [r for r in _rows2(v, w) if r[0] == x], False)
    ops["eqNullSafe"] = ("any", lambda df, F, x, y, wr: df.where(F.col("c").eqNullSafe(wr(x))), lambda v, w, x, y: [r for r in _rows2(v, w) if r[0] == x], True)
    ops["req"] = ("any", lambda df, F, x, y, wr: df.where(wr(x) == F.col("c")), lambda v, w, x, y: [r for r in _rows2(v, w) if r[0] == x], False)
    ops["startswith"] = ("str", lambda df, F, x, y, wr: df.where(F.col("c").startswith(wr(x))), lambda v, w, x, y: [r for r in _rows2(v, w) if r[0].startswith(x)], True)
    ops["endswith"] = ("str", lambda df, F, x, y, wr: df.where(F.col("c").endswith(wr(x))), lambda v, w, x, y: [r for r in _rows2(v, w) if r[0].endswith(x)], True)
    ops["like"] = ("strlike", lambda df, F, x, y, wr: df.where(F.col("c").like(x)), lambda v, w, x, y: [r for r in _rows2(v, w) if r[0] == x], False)
    ops["when"] = ("any", lambda df, F, x, y, wr: df.select(F.when(F.col("k") == "kk", wr(x)).otherwise(wr(y)).alias("r")), lambda v, w, x, y: [(x,), (y,)], True)
    ops["when_no_else"] = ("any", lambda df, F, x, y, wr: df.select(F.when(F.col("k") == "zz", wr(x)).alias("r")), lambda v, w, x, y: [(None,), (x,)], True)
    ops["when_cond_value"] = ("any", lambda df, F, x, y, wr: df.select(F.when(F.col("c") == wr(x), "hit").otherwise("miss").alias("r")), lambda v, w, x, y: [("hit" if v == x else "miss",), ("hit" if w == x else "miss",)], True)
    ops["fillna"] = ("fill", lambda df, F, x, y, wr: df.select(F.when(F.col("k") == "kk", F.lit(None)).otherwise(F.col("c")).alias("c"), "k").fillna(x, subset=["c"]), lambda v, w, x, y: [(x, "kk"), (w, "zz")], False)
    ops["fillna_dict"] = ("fill", lambda df, F, x, y, wr: df.select(F.when(F.col("k") == "kk", F.lit(None)).otherwise(F.col("c")).alias("c"), "k").fillna({"c": x}), lambda v, w, x, y: [(x, "kk"), (w, "zz")], False)
    ops["replace_new"] = ("str", lambda df, F, x, y, wr: df.replace("kk", x, subset=["k"]), lambda v, w, x, y: [(v, x), (w, "zz")], False)
    ops["replace_old"] = ("fill", lambda df, F, x, y, wr: df.replace(x, y, subset=["c"]), lambda v, w, x, y: [(y if v == x else v, "kk"), (y if w == x else w, "zz")], False)
    ops["replace_dict"] = ("str", lambda df, F, x, y, wr: df.replace({x: y}, subset=["c"]), lambda v, w, x, y: [(y if v == x else v, "kk"), (y if w == x else w, "zz")], False)
    ops["concat_ws"] = ("str", lambda df, F, x, y, wr: df.select(F.concat_ws(x, F.col("k"), F.col("k")).alias("r")), lambda v, w, x, y: [("kk" + x + "kk",), ("zz" + x + "zz",)], False)
    ops["instr"] = ("str1", lambda df, F, x, y, wr: df.select(F.instr(F.col("c"), x).alias("r")), lambda v, w, x, y: [(v.find(x) + 1,), (w.find(x) + 1,)], False)
    ops["locate"] = ("str1", lambda df, F, x, y, wr: df.select(F.locate(x, F.col("c")).alias("r")), lambda v, w, x, y: [(v.find(x) + 1,), (w.find(x) + 1,)], False)
    ops["lpad"] = ("str1", lambda df, F, x, y, wr: df.select(F.lpad(F.col("k"), 5, x).alias("r")), lambda v, w, x, y: [(_pad("kk", 5, x, True),), (_pad("zz", 5, x, True),)], False)
    ops["rpad"] = ("str1", lambda df, F, x, y, wr: df.select(F.rpad(F.col("k"), 5, x).alias("r")), lambda v, w, x, y: [(_pad("kk", 5, x, False),), (_pad("zz", 5, x, False),)], False)
    ops["array_contains"] = ("any", lambda df, F, x, y, wr: df.select(F.array_contains(F.array(F.col("c"), F.col("c")), wr(x)).alias("r")), lambda v, w, x, y: [(v == x,), (w == x,)], True)
    ops["lit_concat"] = ("str", lambda df, F, x, y, wr: df.select(F.concat(F.col("k"), F.lit(x)).alias("r")), lambda v, w, x, y: [("kk" + x,), ("zz" + x,)], False)
    ops["withColumn_value"] = ("any", lambda df, F, x, y, wr: df.withColumn("n", F.lit(x)).select("n", "k"), lambda v, w, x, y: [(x, "kk"), (x, "zz")], False)
    return ops


ENTRY_OPS: t.Dict[str, t.Tuple[str, t.Callable, t.Callable, bool]] = {}


def entry_ops() -> t.Dict[str, t.Tuple[str, t.Callable, t.Callable, bool]]:
    if not ENTRY_OPS:
        ENTRY_OPS.update(_entry_ops())
    return ENTRY_OPS


ENTRY_KINDS = ["str", "str", "str", "int", "float", "date", "ts", "tstz", "bool"]


def gen_entry_str(rng: random.Random, nul_ok: bool = False) -> str:
    r = rng.random()
    if r < 0.45:
        return rng.choice(SQLISH)
    if r < 0.6:
        return rng.choice(SQLISH) + rng.choice(["'", "\\", " --", ";", "/*", "\n", "é"])
    return gen_str(rng, nul_ok)


def gen_entry_aware(rng: random.Random, op: str, zone: t.Optional[str] = None) -> dict:
    """aware datetimes at an entry point that takes a plain value: the literal is the same instant written with another
    offset than the stored value, and (frame `naive`) the frame may hold the instants as NAIVE timestamps, the way data
    read from a table does — so that a literal that moves the instant cannot cancel against a cell moved the same way"""
    zone = zone or "UTC"
    use_zone(zone)
    a, b = gen_aware(rng), gen_aware(rng)
    while a == b:
        b = gen_aware(rng)

    def respell(d: datetime.datetime) -> datetime.datetime:
        return d.astimezone(datetime.timezone(datetime.timedelta(minutes=rng.choice(TZ_OFFSETS))))

    c: t.Dict[str, t.Any] = {"use": "entry", "op": op, "kind": "tstz", "x": enc(respell(a)), "y": enc(respell(b))}
    if rng.random() < 0.5:
        c.update(frame="naive", v=enc(spec_value(a)), w=enc(spec_value(b)))
    else:
        c.update(v=enc(a), w=enc(b))
    if zone != "UTC":
        c["zone"] = zone
    use_zone(None)
    return c


def gen_entry(rng: random.Random, op: t.Optional[str] = None, oos: t.Optional[str] = None) -> t.Optional[dict]:
    ops = entry_ops()
    op = op or rng.choice(sorted(ops))
    need = ops[op][0]
    kind = "str" if need in ("str", "strlike", "str1") or oos == "H_noNul" else rng.choice(ENTRY_KINDS)
    if need == "fill" and kind not in ("str", "int", "float"):
        kind = "str"
    if kind == "tstz":
        return gen_entry_aware(rng, op)
    for _ in range(30):
        if kind == "str":
            v, w = gen_entry_str(rng, oos == "H_noNul"), gen_entry_str(rng)
            if oos == "H_noNul" and "\x00" not in v:
                v += "\x00"
        else:
            v, w = gen_val(rng, kind), gen_val(rng, kind)
        if kind == "float" and (math.isnan(v) or math.isnan(w) or float_unscaled(v) > 2**53 or float_unscaled(w) > 2**53):
            continue  # what the frame's cells come back as is H_floatDigits' business (createDataFrame stream)
        if kind == "str" and len(v) > 300:
            v = v[:300]
        if kind == "str" and len(w) > 300:
            w = w[:300]
        if same(v, w):
            continue
        x, y = (v, w)
        if rng.random() < 0.25 and kind == "str":
            x = v[: max(1, len(v) // 2)] if need in ("str", "str1") and op in ("startswith", "instr", "locate") else v
        if need == "strlike" and any(ch in x for ch in "%_\\"):
            continue
        if need == "str1" and not x:
            continue
        if op in ("replace_old", "replace_dict", "fillna", "fillna_dict") and kind == "str" and (x == "" or y == ""):
            continue
        return {"use": "entry", "op": op, "kind": kind, "v": enc(v), "w": enc(w), "x": enc(x), "y": enc(y)}
    return None


Y_USED = {"between", "isin", "when", "replace_old", "replace_dict"}


def _entry_uses(op: str, is_y: bool) -> bool:
    """is the (second) value part of the statement for this operation?"""
    return (not is_y) or op in Y_USED


def run_entry(c: dict, out: dict) -> None:
    st = S()
    sess, F = st["sess"], st["F"]
    v, w, x, y = dec(c["v"]), dec(c["w"]), dec(c["x"]), dec(c["y"])
    _, apply, _, colok = entry_ops()[c["op"]]
    df = sess.createDataFrame([(v, "kk"), (w, "zz")], ["c", "k"])
    out["stage"] = "plain"
    rows = apply(df, F, x, y, lambda z: z).collect()
    out["sql"] = st["log"][-1]
    out["rows"] = [tuple(r) for r in rows]
    if colok:
        out["stage"] = "lit"
        out["rows_lit"] = [tuple(r) for r in apply(df, F, x, y, F.lit).collect()]
    out["stage"] = "done"


def bag_same(a: t.List[tuple], b: t.List[tuple], conv: t.Callable[[t.Any], t.Any] = spec_value) -> bool:
    if len(a) != len(b):
        return False
    rest = list(b)
    for ra in a:
        for i, rb in enumerate(rest):
            if len(ra) == len(rb) and all(same(p, conv(q)) for p, q in zip(ra, rb)):
                del rest[i]
                break
        else:
            return False
    return True

# ------------------------------------------------------------------------------------------------
# running one case on the real code
# ------------------------------------------------------------------------------------------------


def _type_obj(text: str) -> t.Any:
    T = S()["T"]
    prim = {"bigint": T.LongType, "int": T.IntegerType, "boolean": T.BooleanType, "double": T.DoubleType, "string": T.StringType, "binary": T.BinaryType, "date": T.DateType, "timestamp": T.TimestampType}
    if text in prim:
        return prim[text]()
    if text.startswith("array<"):
        return T.ArrayType(_type_obj(text[6:-1]))
    if text.startswith("struct<"):
        fields, depth, cur = [], 0, ""
        for ch in text[7:-1]:
            if ch == "," and depth == 0:
                fields.append(cur)
                cur = ""
            else:
                depth += ch == "<"
                depth -= ch == ">"
                cur += ch
        fields.append(cur)
        return T.StructType([T.StructField(f.split(":", 1)[0], _type_obj(f.split(":", 1)[1])) for f in fields])
    raise ValueError(text)


def row_shapes(c: dict) -> t.List[dict]:
    """per data row: the container it is given in and, for dict rows, the keys in insertion order (a column
    index that is absent is a missing key)"""
    n = len(c["cols"])
    if "shapes" in c:
        return c["shapes"]
    out = []
    for ri in range(len(c["rows"])):
        order = list(c["perm"]) if c.get("perm_row") == ri and "perm" in c else list(range(n))
        out.append({"cont": c["container"], "order": order})
    return out


def effective_rows(c: dict) -> t.List[t.List[t.Any]]:
    """the values the rows really carry (a key missing from a dict row is a NULL)"""
    out = []
    for row, sh in zip(c["rows"], row_shapes(c)):
        vals = [dec(x) for x in row]
        if sh["cont"] == "dict":
            vals = [v if i in sh["order"] else None for i, v in enumerate(vals)]
        out.append(vals)
    return out


def build_cdf_args(c: dict) -> t.Tuple[t.Any, t.Any]:
    st = S()
    Row, T = st["Row"], st["T"]
    names = [x["name"] for x in c["cols"]]
    data = []
    for row, sh in zip(c["rows"], row_shapes(c)):
        vals = [dec(x) for x in row]
        if sh["cont"] == "tuple":
            data.append(tuple(vals))
        elif sh["cont"] == "list":
            data.append(list(vals))
        elif sh["cont"] == "dict":
            data.append({names[i]: vals[i] for i in sh["order"]})
        else:
            data.append(Row(**dict(zip(names, vals))))
    f = c["form"]
    if f == "none":
        schema = None
    elif f == "names":
        schema = list(c.get("schema_names") or names)
    elif f == "ddl":
        schema = ", ".join(f"{x['name']} {x['decl']}" for x in c["cols"])
    elif f == "dict":
        schema = {x["name"]: x["decl"] for x in c["cols"]}
    else:
        schema = T.StructType([T.StructField(x["name"], _type_obj(x["decl"])) for x in c["cols"]])
    return data, schema


def lit_class(e: t.Any) -> str:
    from sqlglot import exp

    if isinstance(e, exp.Null):
        return "null"
    if isinstance(e, exp.Boolean):
        return "boolean"
    if isinstance(e, exp.Neg):
        return lit_class(e.this)
    if isinstance(e, exp.Literal):
        return "string" if e.is_string else "number"
    if isinstance(e, exp.HexString):
        return "binary"
    if isinstance(e, (exp.DateStrToDate, exp.TsOrDsToDate)):
        return "cast:DATE"
    if isinstance(e, exp.Cast):
        return "cast:" + e.to.this.name
    if isinstance(e, exp.Array):
        return "array"
    if isinstance(e, exp.Tuple):
        return "tuple"
    if isinstance(e, exp.Struct):
        return "struct"
    if isinstance(e, exp.VarMap):
        return "varmap"
    return type(e).__name__


def select_casts(df: t.Any) -> t.List[t.Optional[str]]:
    """per select item of the DataFrame's statement: the type it is CAST to (engine dialect text), None = no CAST"""
    from sqlglot import exp

    out: t.List[t.Optional[str]] = []
    for e in df.expression.selects:
        u = e.unalias()
        out.append(u.to.sql(dialect="duckdb") if isinstance(u, exp.Cast) else None)
    return out


def run_impl(c: dict) -> dict:
    st = S()
    sess, F, Column = st["sess"], st["F"], st["Column"]
    st["log"].clear()
    out: t.Dict[str, t.Any] = {}
    try:
        set_zone(c.get("zone"))
        if c["use"] == "cdf":
            data, schema = build_cdf_args(c)
            out["stage"] = "createDataFrame"
            df = sess.createDataFrame(data, schema)
            out["names"] = list(df.columns)
            out["casts"] = select_casts(df)
            out["stage"] = "collect"
            rows = df.collect()
            out["sql"] = st["log"][-1]
            out["rows"] = rows
            out["fields"] = list(rows[0].__fields__) if rows else None
            out["stage"] = "schema"
            sch = df.schema
            out["schema"] = [[f.name, f.dataType.simpleString()] for f in sch]
            out["stage"] = "done"
        elif c["use"] == "entry":
            run_entry(c, out)
        else:
            v = dec(c["v"])
            e = F.lit(v).column_expression
            out["lit"] = lit_class(e)
            if not isinstance(v, str):
                out["operand"] = lit_class(Column(v).expression)
            if c["use"] == "lit_select":
                df = sess.createDataFrame([(1,)], ["k"]).select(F.lit(v).alias("l"))
                rows = df.collect()
                out["sql"] = st["log"][-1]
                out["value"] = rows[0][0]
                out["n"] = len(rows)
            else:
                base = sess.createDataFrame([(v,)], ["c"])
                rhs = F.lit(v) if c["use"] == "lit_where" else v
                pred = F.col("c").isin(v, dec(c["w"])) if c["use"] == "isin_where" else F.col("c") == rhs
                rows = base.where(pred).collect()
                out["sql"] = st["log"][-1]
                out["n"] = len(rows)
                out["value"] = rows[0][0] if rows else None
                if c["use"] == "lit_where":
                    out["n_other"] = len(base.where(F.col("c") == F.lit(dec(c["w"]))).collect())
            out["stage"] = "done"
    except Exception as e:  # noqa
        out["err"] = f"{type(e).__name__}: {str(e)[:160]}"
        if st["log"] and "sql" not in out:
            out["sql"] = st["log"][-1]
    return out


# ------------------------------------------------------------------------------------------------
# the Lean side
# ------------------------------------------------------------------------------------------------

MAX_SQL = 40000


def case_values(c: dict) -> t.List[t.Any]:
    if c["use"] == "cdf":
        return [x for row in effective_rows(c) for x in row]
    return [dec(c["v"])] + ([dec(c["w"])] if "w" in c else []) + ([dec(c["x"]), dec(c["y"])] if c.get("use") == "entry" else [])


def cell_floats(c: dict, vals: t.List[t.Any]) -> t.List[float]:
    """the finite floats that are written into a VALUES cell (at any depth) and CAST to DOUBLE by the engine"""
    if c["use"] == "cdf":
        return [x for v in vals for x in float_leaves(v)]
    if c["use"] == "entry":
        return [x for v in vals[:2] for x in float_leaves(v)]
    return []


def lean_req(i: int, c: dict, impl: dict) -> dict:
    vals = case_values(c)
    lv = [x for v in vals for x in leaves(v)]
    strings = [x for x in lv if isinstance(x, str)]
    lv_main = lv if c["use"] == "cdf" else list(leaves(vals[0]))
    ints = [str(x) for x in lv_main if isinstance(x, int) and not isinstance(x, bool)][:40]
    sql = impl.get("sql") or ""
    req: t.Dict[str, t.Any] = {
        "case": i,
        "strings": [[ord(ch) for ch in s] for s in strings],
        "sql": [ord(ch) for ch in sql] if len(sql) <= MAX_SQL else [],
        "ints": ints,
        "kinds": [],
        "floats": [],
        "nans": [],
        "schema": None,
        "dict": None,
        "dicts": [],
        "zone": str(ZONES[c.get("zone") or "UTC"] * 60_000_000),
        "tss": [{"wall": str(w), "off": None if o is None else str(o)} for w, o in ts_keys(lv)],
        "trees": [],
        "fdigits": [[decimal_typed(x), str(float_unscaled(x))] for x in cell_floats(c, vals)],
    }
    try:
        return _lean_req_fill(req, c, vals)
    finally:
        req["kinds"] = list(req["kinds"]) + ["floatNan"]  # probe: how a NaN that is not the whole literal is written


def _lean_req_fill(req: dict, c: dict, vals: t.List[t.Any]) -> dict:
    if c["use"] == "cdf":
        first = effective_rows(c)[0]
        req["kinds"] = [pykind(v) for v in first]
        names = [x["name"] for x in c["cols"]]
        shape = {"positional": {"n": len(names)}} if c["container"] in ("tuple", "list") else {"keyed": {"keys": names}}
        f = c["form"]
        if f == "none":
            form: t.Any = "none"
        elif f == "names":
            form = {"names": {"ns": list(c.get("schema_names") or names)}}
        elif f == "ddl":
            form = {"ddl": {"fields": [[x["name"], x["decl"]] for x in c["cols"]]}}
        elif f == "dict":
            form = {"dict": {"fields": [[x["name"], x["decl"]] for x in c["cols"]]}}
        else:
            form = {"structType": {"fields": [[x["name"], x["decl"]] for x in c["cols"]]}}
        req["schema"] = {"form": form, "shape": shape}
        req["dicts"] = [{"cols": names, "keys": [names[j] for j in sh["order"]]} for sh in row_shapes(c) if sh["cont"] == "dict" and sh["order"] != list(range(len(names)))]
        rows_in = effective_rows(c)
        req["nans"] = [group_type(r[j] for r in rows_in) == "nan" for j, col in enumerate(c["cols"]) if col["kind"] == "float"]
        req["trees"] = [to_tree(v) for v in first]
    else:
        v = vals[0]
        req["kinds"] = [pykind(v)]
        if isinstance(v, list):
            g = group_type(v)
            req["floats"] = [[g == "decimal", False] for x in v if isinstance(x, float)]
            req["nans"] = [g == "nan"]
        elif isinstance(v, float) and math.isfinite(v):
            req["floats"] = [[decimal_typed(v), True]]
    return req


KIND_CLASS = {"boolean": "BooleanType", "bigint": "LongType", "double": "DoubleType", "string": "StringType", "binary": "BinaryType", "date": "DateType", "timestamp": "TimestampType", "timestamptz": "TimestampType", "array": "ArrayType", "struct": "StructType", "map": "MapType"}


def judge(c: dict, impl: dict, L: dict) -> dict:
    """compare implementation, model (Lean outputs + the harness's literal-text table) and specification"""
    st = S()
    use_zone(c.get("zone"))
    vals = case_values(c)
    lv = [x for v in vals for x in leaves(v)]
    strings = [x for x in lv if isinstance(x, str)]
    scope: t.List[str] = []
    if not all(L["noNul"]):
        scope.append("H_noNul")
    model_notes: t.List[str] = []  # disagreements implementation vs model
    spec_notes: t.List[str] = []  # disagreements implementation vs specification
    cf = cell_floats(c, vals)
    risky = {x for x, ok in zip(cf, L.get("fdigits", [])) if not ok}
    if risky:
        scope.append("H_floatDigits")
    # timestamps: the Lean model's literal (fields, offset, CAST type) and what comes back, per distinct datetime
    tsm: t.Dict[t.Tuple[int, t.Optional[int]], dict] = dict(zip(ts_keys(lv), L.get("tss", [])))
    for k, e in tsm.items():
        if "err" in e:
            raise RuntimeError(f"driver rejected a timestamp: {e}")
        if e["back"] is not None and e["back"] != e["spec"]:
            model_notes.append(f"Lean: tsBack {k} = {e['back']}, PySpark's reading {e['spec']} (the datetime branch of _lit moves the instant)")
        if wall_dt(int(e["spec"])) != spec_value(wall_dt(*k)):
            model_notes.append(f"Lean specTsBack {k} = {e['spec']} differs from Python's own arithmetic {spec_value(wall_dt(*k))}")
    sql = impl.get("sql") or ""
    lexed = bool(sql) and len(sql) <= MAX_SQL
    sql_strs = ["".join(chr(x) for x in s) for s in L["sqlStrs"]]

    # the lexer theorems evaluated on these strings
    for s, q, unq, tok, nn in zip(strings, L["quoted"], L["unq"], L["tokOk"], L["noNul"]):
        if nn and not (unq and tok):
            model_notes.append(f"Lean: quote/lex round trip fails on a NUL-free string {show(s)}")
    # integers
    for x in L["ints"]:
        if x.get("in64") and x["read"] != x["text"]:
            model_notes.append(f"Lean: readInt(renderInt {x['text']}) = {x['read']}")
        if lexed and x["text"].lstrip("-") not in sql:
            model_notes.append(f"integer text {x['text']} (Lean renderInt) not found in the statement")

    if c["use"] == "cdf":
        names = [x["name"] for x in c["cols"]]
        sch = L["schema"]
        scope += sch["violated"]
        for dct in L["dicts"]:
            scope += dct["violated"]
        m_names = sch["derived"]
        spec_names = sch["spec"]
        rows_in = effective_rows(c)
        nan_is_null = L["kinds"][-1]["operand"] == "null"
        inferred = c["form"] in ("none", "names")
        trees = L.get("trees", []) if inferred else []
        for tr in trees:
            if "err" in tr:
                raise RuntimeError(f"driver rejected a value tree: {tr}")
        if any(not tr["ok"] for tr in trees):
            scope.append("H_firstRowTyped")
        # model rows: dict rows may be laid out positionally; nested NaNs go through `_lit`; a column is CAST to the
        # type inferred from its first-row value (a struct type that leaves a field out removes it from every row)
        m_rows = [[nested_model(x, nan_is_null) for x in r] for r in rows_in]
        values_len_err = False
        dit = iter(L["dicts"])
        for ri, sh in enumerate(row_shapes(c)):
            if sh["cont"] == "dict" and sh["order"] != list(range(len(names))):
                dct = next(dit)
                in_key_order = [m_rows[ri][j] for j in sh["order"]]
                m_rows[ri] = [None if j is None else in_key_order[j] for j in dct["model"]]
                if len(m_rows[ri]) != len(names):
                    values_len_err = True  # positional layout of a dict with a missing key: a shorter VALUES tuple
        if any(not x["ok"] for x in L["nans"]):
            scope.append("H_nanWidth")
        exp_toks = [tok for r in m_rows for v in r for tok in str_tokens(v, tsm)]
        if trees and len(trees) == len(names) and not values_len_err:
            m_rows = [[project(x, trees[j]["ty"]) if trees[j]["cast"] else x for j, x in enumerate(r)] for r in m_rows]
        if risky:
            m_rows = [[ulp_mark(x, risky) for x in r] for r in m_rows]
        fcols = [j for j, col in enumerate(c["cols"]) if col["kind"] == "float"]
        for j, nn in zip(fcols, L["nans"]):
            if values_len_err:
                break
            if nn["bits"] == 24 and group_type(r[j] for r in m_rows) == "nan":
                for r in m_rows:
                    r[j] = f32(r[j])
        parser_err = "H_noNul" in scope
        # `lit(inf)` is an untyped string (Lean `litOf`): a VALUES column that also holds another float literal cannot be
        # typed by the engine (VARCHAR with DECIMAL / DOUBLE: assumed engine rule, validated whenever it is predicted)
        mix_err = probe()["inf_top_string"] and any(inf_column_fails([r[j] for r in rows_in]) for j in range(len(names)))
        if mix_err:
            scope.append("H_infLiteral")
        if values_len_err and m_names is not None and not parser_err:
            if "err" not in impl:
                model_notes.append("model: a dict row with a missing key laid out positionally gives VALUES tuples of different lengths; implementation: no error")
        elif m_names is None:
            # the model says createDataFrame raises before any statement is built
            if "err" not in impl or impl.get("stage") != "createDataFrame":
                model_notes.append(f"model: createDataFrame raises (names underivable); implementation: {impl.get('err', 'no error')} at {impl.get('stage')}")
        elif parser_err:
            if "err" not in impl or "unterminated" not in impl["err"]:
                model_notes.append(f"model: the engine's scanner ends inside a literal (NUL); implementation: {impl.get('err', 'no error')}")
            if lexed and not L["unterminated"]:
                model_notes.append("Lean lex of the executed statement does not report an unterminated token")
        elif mix_err:
            if "err" not in impl or not any(w in impl["err"] for w in ("Cannot combine types", "Could not convert string")) or impl.get("stage") != "collect":
                model_notes.append(f"model: the engine cannot type a column of the string 'inf' and float literals; implementation: {impl.get('err', 'no error')} at {impl.get('stage')}")
        else:
            if "err" in impl:
                model_notes.append(f"model: no error; implementation: {impl['err']} at {impl.get('stage')}")
            else:
                if impl["names"] != m_names:
                    model_notes.append(f"names {impl['names']} vs model {m_names}")
                if impl["fields"] is not None and impl["fields"] != m_names:
                    model_notes.append(f"Row fields {impl['fields']} vs model {m_names}")
                if lexed and sql_strs != exp_toks:
                    k = next((i for i, (a, b) in enumerate(zip(sql_strs + [None] * len(exp_toks), exp_toks + [None] * len(sql_strs))) if a != b), -1)
                    model_notes.append(f"string tokens of the executed statement (Lean lex) differ from the expected literals at #{k}: {show(sql_strs[k:k+1])} vs {show(exp_toks[k:k+1])}")
                if lexed and L["unterminated"]:
                    model_notes.append("Lean lex reports an unterminated token in a statement DuckDB executed")
                for s, q in zip(strings, L["quoted"]):
                    if lexed and "".join(chr(x) for x in q) not in sql:
                        model_notes.append(f"Lean quote of {show(s)} does not occur in the executed statement")
                if len(impl["rows"]) != len(m_rows) or not all(len(a) == len(b) and all(same(x, model_value(y, tsm)) for x, y in zip(a, b)) for a, b in zip(impl["rows"], m_rows)):
                    model_notes.append("values differ from the model's prediction")
                # inferred / declared types: the CAST of every select item (Lean `inferTy` on the first-row value for the
                # inferred forms, the declaration as it stands for the typed forms) and what df.schema reports
                casts = impl.get("casts") or []
                for j, (col, k) in enumerate(zip(c["cols"], L["kinds"])):
                    rep = impl["schema"][j][1] if impl.get("schema") and j < len(impl["schema"]) else None
                    got_cast = casts[j] if j < len(casts) else None
                    if inferred:
                        tr = trees[j] if j < len(trees) else None
                        if tr is not None:
                            want_cast = norm_type(tr["text"]) if tr["cast"] else None
                            if got_cast != want_cast:
                                model_notes.append(f"column {col['name']}: CAST to {got_cast} in the statement, Lean inferTy gives {tr['text']} ({want_cast})")
                        if tr is None or tr["ok"]:
                            want_obj = _type_obj(col["decl"])
                            if k["infer"] is None:
                                model_notes.append(f"model infers no type for kind {k['kind']}")
                            elif KIND_CLASS.get(k["infer"]) != type(want_obj).__name__:
                                model_notes.append(f"Lean inferType({k['kind']}) = {k['infer']}, the kind table expects {type(want_obj).__name__}")
                            elif rep is not None and rep != want_obj.simpleString():
                                model_notes.append(f"column {col['name']}: schema type {rep}, inferred {k['infer']} expects {want_obj.simpleString()}")
                            if tr is not None and tr["spec"] is not None and _type_obj(ty_text(tr["spec"])) != want_obj:
                                model_notes.append(f"column {col['name']}: Lean specTy {ty_text(tr['spec'])} differs from the generator's declared type {col['decl']}")
                            if not k["cast"]:
                                model_notes.append("model: typed column without CAST")
                    else:
                        if got_cast != norm_type(col["decl"]):
                            model_notes.append(f"column {col['name']}: CAST to {got_cast}, declared {col['decl']} ({norm_type(col['decl'])})")
                        if not k["cast"]:
                            model_notes.append("model: typed column without CAST")
                if lexed and "CAST(" not in sql and not (inferred and trees and all(tr["text"] is None for tr in trees)):
                    model_notes.append("no CAST in the executed statement")
        # specification
        if "err" in impl:
            spec_notes.append(f"raises {impl['err']}")
        else:
            if impl["names"] != spec_names:
                spec_notes.append(f"df.columns {impl['names']} != declared {spec_names}")
            if impl["fields"] is not None and impl["fields"] != spec_names:
                spec_notes.append(f"Row fields {impl['fields']} != declared {spec_names}")
            if impl.get("schema") is not None and [n for n, _ in impl["schema"]] != spec_names:
                spec_notes.append(f"schema names {[n for n, _ in impl['schema']]} != declared {spec_names}")
            if len(impl["rows"]) != len(rows_in):
                spec_notes.append(f"{len(impl['rows'])} rows back, {len(rows_in)} in")
            else:
                for ri, (a, b) in enumerate(zip(impl["rows"], rows_in)):
                    for ci, (x, y) in enumerate(zip(a, b)):
                        if not same(x, spec_value(y)):
                            spec_notes.append(f"row {ri} column {ci}: {show(x)} back, {show(y)} in")
            if impl.get("schema") is not None:
                for (n, ty), col in zip(impl["schema"], c["cols"]):
                    want = _type_obj(col["decl"]).simpleString()
                    if ty != want:
                        spec_notes.append(f"schema type of {n}: {ty}, declared/inferred {want}")
    elif c["use"] == "entry":
        v, w, x, y = dec(c["v"]), dec(c["w"]), dec(c["x"]), dec(c["y"])
        # a frame stored as NAIVE timestamps (the session zone's reading) compared with AWARE literals: the value
        # semantics compares instants
        fv, fw = (aware_in_zone(v), aware_in_zone(w)) if c.get("frame") == "naive" else (v, w)
        want = entry_ops()[c["op"]][2](fv, fw, x, y)
        if "H_noNul" in scope:
            if "err" not in impl or "unterminated" not in impl["err"]:
                model_notes.append(f"model: scanner ends inside a literal; implementation: {impl.get('err', 'no error')}")
            spec_notes.append(f"raises {impl.get('err')}")
        elif "err" in impl:
            model_notes.append(f"model: no error; implementation {impl['err']} at {impl.get('stage')}")
            spec_notes.append(f"raises {impl['err']}")
        else:
            if not bag_same(impl["rows"], want, lambda q: model_value(ulp_mark(q, risky), tsm)):
                model_notes.append(f"rows {show(impl['rows'])} vs the value semantics {show(want)} with the model's reading of every datetime")
            if not bag_same(impl["rows"], want):
                spec_notes.append(f"{c['op']} with the plain value {show(x)} gives {show(impl['rows'])}; treating it as a literal gives {show(want)}")
            if "rows_lit" in impl and not bag_same(impl["rows"], impl["rows_lit"]):
                spec_notes.append(f"{c['op']}({show(x)}) gives {show(impl['rows'])} but {c['op']}(lit({show(x)})) gives {show(impl['rows_lit'])}")
                model_notes.append("plain value and lit(value) differ")
            # every str handed in must stand in the executed statement as ONE string-literal token (Lean scanner)
            if lexed:
                for z, is_y in ((x, False), (y, True)):
                    if isinstance(z, str) and _entry_uses(c["op"], is_y) and sql_strs.count(z) < [v, w].count(z) + 1:
                        model_notes.append(f"the value {show(z)} is not a string-literal token of the executed statement (Lean lex)")
                if L["unterminated"]:
                    model_notes.append("Lean lex reports an unterminated token in a statement DuckDB executed")
    else:
        v = vals[0]
        k = L["kinds"][0]
        if not k["hinf"] and c["use"] == "lit_select":
            scope.append("H_infLiteral")  # the value went through `lit`
        if not k.get("hinfop", True) and c["use"] in ("operand_where", "isin_where"):
            scope.append("H_infOperand")  # the value went through `_lit` alone
        if any(not f["ok"] for f in L["floats"]) and c["use"] == "lit_select":
            scope.append("H_listFloat")
        if any(not x["ok"] for x in L["nans"]) and c["use"] == "lit_select":
            scope.append("H_nanWidth")
        # literal classes
        if impl.get("lit") is not None and impl["lit"].lower() != k["lit"].lower():
            model_notes.append(f"lit class {impl['lit']} vs model {k['lit']}")
        if impl.get("operand") is not None and impl["operand"].lower() != k["operand"].lower():
            model_notes.append(f"operand class {impl['operand']} vs model {k['operand']}")
        if "H_noNul" in scope:
            if "err" not in impl or "unterminated" not in impl["err"]:
                model_notes.append(f"model: scanner ends inside a literal; implementation: {impl.get('err', 'no error')}")
            spec_notes.append(f"raises {impl.get('err')}")
        elif c["use"] == "lit_select":
            if k["kind"] == "floatInf" and k["lit"] == "string":
                m_val: t.Any = str(v)
            elif isinstance(v, list) and L["floats"]:
                it = iter(L["floats"])
                m_val = [(decimal.Decimal(repr(x)) if next(it)["back"] == "decimal" else x) if isinstance(x, float) else x for x in v]
                if L["nans"] and L["nans"][0]["bits"] == 24 and group_type(v) == "nan":
                    m_val = [f32(x) for x in v]
            else:
                m_val = model_value(nested_model(v, L["kinds"][-1]["operand"] == "null"), tsm)
            if "err" in impl:
                model_notes.append(f"model: no error; implementation {impl['err']}")
                spec_notes.append(f"raises {impl['err']}")
            else:
                if not same(impl["value"], m_val):
                    model_notes.append(f"value {show(impl['value'])} vs model {show(m_val)}")
                if not same(impl["value"], spec_value(v)):
                    spec_notes.append(f"select(lit(v)) gives {show(impl['value'])} for {show(v)}")
                exp_toks = str_tokens(v, tsm)
                if lexed and sql_strs != exp_toks:
                    model_notes.append(f"string tokens {show(sql_strs)} vs expected {show(exp_toks)}")
        else:
            binder = c["use"] in ("operand_where", "isin_where") and k["kind"] == "floatInf" and k["operand"] == "number"
            if binder:
                if "err" not in impl:
                    model_notes.append("model: the bare word inf is not a number for the engine; implementation: no error")
                spec_notes.append(f"raises {impl.get('err')}")
            elif "err" in impl:
                model_notes.append(f"model: no error; implementation {impl['err']}")
                spec_notes.append(f"raises {impl['err']}")
            else:
                want = 0 if v is None else 1
                # a NaN operand written as NULL matches nothing (model); Spark: NaN = NaN is true
                m_want = 0 if (c["use"] in ("operand_where", "isin_where") and k["kind"] == "floatNan" and k["operand"] == "null") else want
                if impl["n"] != m_want or (c["use"] == "lit_where" and impl.get("n_other") != 0):
                    model_notes.append(f"where matched {impl['n']}/{impl.get('n_other')} rows, model {m_want}")
                if impl["n"] != want or (c["use"] == "lit_where" and impl.get("n_other") != 0):
                    spec_notes.append(f"where(col == literal) matched {impl['n']} rows (other value: {impl.get('n_other')})")
    return {"scope": sorted(set(scope)), "model_notes": model_notes, "spec_notes": spec_notes}


def evaluate(cases: t.List[dict]) -> t.List[dict]:
    impls = [run_impl(c) for c in cases]
    outs = vlib.run_driver("C09", [lean_req(i, c, impl) for i, (c, impl) in enumerate(zip(cases, impls))])
    res = []
    for c, impl, L in zip(cases, impls, outs):
        if "err" in L:
            raise RuntimeError(f"driver rejected a case: {L}")
        try:
            j = judge(c, impl, L)
        except Exception as e:  # noqa: an implementation result of a shape the judge does not expect: never a silent pass
            try:
                sn = spec_notes_only(c, impl)
            except Exception as e2:  # noqa
                sn = [f"the result cannot be compared with the values put in: {type(e2).__name__}: {str(e2)[:120]}"]
            j = {"scope": [], "model_notes": [f"the judge could not evaluate the case: {type(e).__name__}: {str(e)[:160]}"], "spec_notes": sn}
        res.append({"case": c, "impl": impl, "lean": L, **j})
    set_zone(None)
    return res


def engine_reads(strings: t.List[str], quoted: t.List[str]) -> t.List[str]:
    """DuckDB's own reading of the Lean-quoted literal, on a private connection"""
    import duckdb

    con = duckdb.connect(":memory:")
    bad = []
    for s, q in zip(strings, quoted):
        try:
            got = con.execute("SELECT " + q + " AS s, 1 AS k").fetchall()
            if got != [(s, 1)]:
                bad.append(f"DuckDB reads {show(q)} as {show(got)}")
        except Exception as e:  # noqa
            bad.append(f"DuckDB rejects {show(q)}: {type(e).__name__}")
    return bad


# ------------------------------------------------------------------------------------------------
# reporting helpers
# ------------------------------------------------------------------------------------------------


def show_case(c: dict) -> str:
    if c["use"] == "cdf":
        try:
            data, schema = build_cdf_args(c)
            return f"createDataFrame({show(data)}, {show(schema)})"
        except Exception as e:  # noqa
            return f"<unbuildable: {e}>"
    v = dec(c["v"])
    if c["use"] == "entry":
        return f"createDataFrame([({show(v)}, 'kk'), ({show(dec(c['w']))}, 'zz')], ['c', 'k']) . {c['op']} with plain values x={show(dec(c['x']))}, y={show(dec(c['y']))}"
    if c["use"] == "lit_select":
        return f"df.select(lit({show(v)}))"
    if c["use"] == "lit_where":
        return f"createDataFrame([({show(v)},)], ['c']).where(col('c') == lit({show(v)}))"
    if c["use"] == "isin_where":
        return f"createDataFrame([({show(v)},)], ['c']).where(col('c').isin({show(v)}, {show(dec(c['w']))}))"
    return f"createDataFrame([({show(v)},)], ['c']).where(col('c') == {show(v)})"


def public_impl(impl: dict) -> dict:
    out = {k: v for k, v in impl.items() if k in ("err", "stage", "names", "fields", "schema", "n", "n_other", "lit", "operand")}
    if "rows" in impl:
        out["rows"] = [[show(x) for x in r] for r in impl["rows"]][:6]
    if "value" in impl:
        out["value"] = show(impl["value"])
    if impl.get("sql"):
        out["sql"] = impl["sql"][:600]
    return out


def nontrivial(c: dict) -> bool:
    vals = case_values(c)
    for x in (y for v in vals for y in leaves(v)):
        if isinstance(x, str) and (any(ch in "'\\-/*;\n\r\t\"`\x00" or ord(ch) > 126 or ord(ch) < 32 for ch in x) or len(x) > 100):
            return True
        if isinstance(x, bool):
            continue
        if isinstance(x, int) and abs(x) >= 2**31:
            return True
        if isinstance(x, float) and (not math.isfinite(x) or x != 0 and (abs(x) > 1e15 or abs(x) < 1e-5)):
            return True
        if isinstance(x, (bytes, datetime.date)):
            return True
    return any(pykind(v) in ("list", "row") for v in vals)


def valid(c: dict) -> bool:
    """the generator's invariants (a shrunk case must stay inside them)"""
    if c["use"] != "cdf":
        return True
    if not c["rows"] or not c["cols"]:
        return False
    if "shapes" in c:
        sh0 = c["shapes"][0]
        n = len(c["cols"])
        if sorted(sh0["order"]) != list(range(n)):
            return False
        if c["form"] in ("none", "names") and (sh0["order"] != list(range(n)) or len({sh["cont"] in ("tuple", "list") for sh in c["shapes"]}) > 1):
            return False
    return all(x["t"] != "none" for x in c["rows"][0])


def _drop_field(decl: str, name: str) -> t.Optional[str]:
    """the declared type `struct<…>` without one top-level field (None when the text is not a plain struct)"""
    try:
        T = S()["T"]
        obj = _type_obj(decl)
        if not isinstance(obj, T.StructType):
            return None
        keep = [f for f in obj if f.name != name]
        if not keep or len(keep) == len(list(obj)):
            return None
        return "struct<" + ",".join(f"{f.name}:{_decl_of(f.dataType)}" for f in keep) + ">"
    except Exception:  # noqa
        return None


def _decl_of(obj: t.Any) -> str:
    T = S()["T"]
    if isinstance(obj, T.ArrayType):
        return f"array<{_decl_of(obj.elementType)}>"
    if isinstance(obj, T.StructType):
        return "struct<" + ",".join(f"{f.name}:{_decl_of(f.dataType)}" for f in obj) + ">"
    return {"LongType": "bigint", "IntegerType": "int", "BooleanType": "boolean", "DoubleType": "double", "StringType": "string", "BinaryType": "binary", "DateType": "date", "TimestampType": "timestamp"}[type(obj).__name__]


def note_kinds(notes: t.List[str]) -> t.Set[str]:
    """what kind of difference a note reports, without the values (a shrunk case must still fail the same way)"""
    import re

    return {" ".join(re.sub(r"\d+", "", n.split(":")[0]).split()[:3]) for n in notes}


def shrink(c: dict, failing: t.Callable[[dict], bool], budget: int = 60) -> dict:
    best = c
    improved = True
    while improved and budget > 0:
        improved = False
        cands: t.List[dict] = []
        if best["use"] == "cdf":
            if len(best["rows"]) > 1 and "perm_row" not in best:
                for i in range(len(best["rows"])):
                    cand = dict(best, rows=best["rows"][:i] + best["rows"][i + 1 :])
                    if "shapes" in best:
                        cand["shapes"] = best["shapes"][:i] + best["shapes"][i + 1 :]
                        cand["container"] = cand["shapes"][0]["cont"]
                    cands.append(cand)
            if len(best["cols"]) > 1 and "perm" not in best and "schema_names" not in best:
                for i in range(len(best["cols"])):
                    cand = dict(best, cols=best["cols"][:i] + best["cols"][i + 1 :], rows=[r[:i] + r[i + 1 :] for r in best["rows"]])
                    if "shapes" in best:
                        cand["shapes"] = [dict(sh, order=[j - (j > i) for j in sh["order"] if j != i]) for sh in best["shapes"]]
                    cands.append(cand)
            for ri, row in enumerate(best["rows"]):
                for ci, x in enumerate(row):
                    if x["t"] == "list" and len(x["v"]) > 1:
                        for k in range(len(x["v"]) - 1, 0, -1):
                            rows = [list(r) for r in best["rows"]]
                            rows[ri][ci] = {"t": "list", "v": x["v"][:k] + x["v"][k + 1 :]}
                            cands.append(dict(best, rows=rows))
                    if x["t"] == "row" and len(x["v"]) > 1 and best["form"] in ("none", "names") and all(r[ci]["t"] in ("row", "none") for r in best["rows"]):
                        for k in range(len(x["v"])):
                            name = x["v"][k][0]
                            rows = [list(r) for r in best["rows"]]
                            for r in rows:
                                if r[ci]["t"] == "row":
                                    r[ci] = {"t": "row", "v": [f for f in r[ci]["v"] if f[0] != name]}
                            if all(r[ci]["t"] == "none" or r[ci]["v"] for r in rows):
                                cols = [dict(col) for col in best["cols"]]
                                cols[ci]["decl"] = _drop_field(cols[ci]["decl"], name)
                                if cols[ci]["decl"]:
                                    cands.append(dict(best, rows=rows, cols=cols))
                    if x["t"] == "str" and len(x["v"]) > 1:
                        for piece in (x["v"][: len(x["v"]) // 2], x["v"][len(x["v"]) // 2 :], x["v"][1:], x["v"][:-1]):
                            rows = [list(r) for r in best["rows"]]
                            rows[ri][ci] = {"t": "str", "v": piece}
                            cands.append(dict(best, rows=rows))
        elif best["use"] == "entry":
            pass
        else:
            x = best["v"]
            if x["t"] == "str" and len(x["v"]) > 1:
                for piece in (x["v"][: len(x["v"]) // 2], x["v"][len(x["v"]) // 2 :], x["v"][1:], x["v"][:-1]):
                    cands.append(dict(best, v={"t": "str", "v": piece}))
            if x["t"] == "list" and len(x["v"]) > 1:
                cands += [dict(best, v={"t": "list", "v": x["v"][:i] + x["v"][i + 1 :]}) for i in range(len(x["v"]))]
        cands = [x for x in cands if valid(x)]
        for cand in cands[:12]:
            budget -= 1
            try:
                r = evaluate([cand])[0]
            except Exception:  # noqa
                continue
            if failing(r):
                best = cand
                improved = True
                break
    return best


# ------------------------------------------------------------------------------------------------
# the check
# ------------------------------------------------------------------------------------------------

OOS = ["H_noNul", "H_infLiteral", "H_listFloat", "H_nanWidth", "H_dictOrder", "H_trimmedNames", "H_namesAreFields", "H_ddlSimple", "H_firstRowTyped", "H_floatDigits"]


def known_entries() -> t.Dict[str, dict]:
    known = {e["id"]: e for e in vlib.known_findings(ID)}
    p = os.path.join(vlib.VERIF, "tools", "props", "c09.known.json")
    if os.path.exists(p):
        for e in json.load(open(p)).get("findings", []):
            if e.get("property") == ID and e.get("status") == "open":
                known.setdefault(e["id"], e)
    return known


def cases_for(ctx: Ctx) -> t.List[dict]:
    rng = ctx.rng
    cases: t.List[dict] = []
    d = os.path.join(vlib.VERIF, "corpus", ID)
    if os.path.isdir(d):
        for fn in sorted(os.listdir(d)):
            if fn.endswith(".json"):
                c = json.load(open(os.path.join(d, fn)))
                c["origin"] = "corpus:" + fn
                cases.append(c)
    # every adversarial string once, as a cell, as lit() in select and in where
    for i in range(0, len(ADV), 6):
        chunk = ADV[i : i + 6]
        cases.append({"use": "cdf", "container": "tuple", "form": "names", "cols": [{"name": f"s{j}", "kind": "str", "decl": "string"} for j in range(len(chunk))], "rows": [[enc(s) for s in chunk], [enc(s + "'") for s in chunk]], "origin": "adv"})
    for s in ADV:
        cases.append({"use": "lit_select", "kind": "str", "v": enc(s), "origin": "adv"})
        cases.append({"use": "lit_where", "kind": "str", "v": enc(s), "w": enc(s + "'"), "origin": "adv"})
    # every container x every schema form, twice
    for cont in ["tuple", "list", "dict", "Row"]:
        for form in ["none", "names", "ddl", "dict", "struct"]:
            for _ in range(3 if ctx.thorough else 2):
                c = gen_cdf(rng, force=(cont, form))
                c["origin"] = "matrix"
                cases.append(c)
    n = 1500 if ctx.thorough else 130
    for _ in range(n):
        c = gen_cdf(rng)
        c["origin"] = "random"
        cases.append(c)
    for _ in range(n):
        c = gen_lit(rng, rng.choice(["lit_select", "lit_select", "lit_where", "operand_where", "isin_where"]))
        c["origin"] = "random"
        cases.append(c)
    # value trees: every falsy scalar at every inference position; random type trees with falsy / ordinary first rows
    for c in tree_sweep(rng):
        c["origin"] = "tree-sweep"
        cases.append(c)
    for i in range(400 if ctx.thorough else 40):
        c = gen_tree_cdf(rng, falsy=i % 2 == 0)
        c["origin"] = "tree-random"
        cases.append(c)
    # the falsy scalars as literals: lit() in select / where, plain operands, isin
    for fv in [0, 0.0, -0.0, False, "", b""]:
        for use in ("lit_select", "lit_where", "operand_where", "isin_where"):
            if use == "isin_where" and isinstance(fv, bytes):
                continue
            c = {"use": use, "kind": {int: "int", float: "float", bool: "bool", str: "str", bytes: "bytes"}[type(fv)], "v": enc(fv), "origin": "falsy-literal"}
            if use in ("lit_where", "isin_where"):
                c["w"] = enc({int: 1, float: 1.5, bool: True, str: "x", bytes: b"x"}[type(fv)])
            cases.append(c)
    # infinities: through `lit` (top-level cells, lit()) and through `_lit` alone (nested cells, plain operands)
    for _ in range(3 if ctx.thorough else 1):
        for c in inf_cases(rng):
            c["origin"] = "infinity"
            cases.append(c)
    # aware datetimes: offsets that move the date / month / year, at every use; other session time zones
    for _ in range(40 if ctx.thorough else 6):
        for use in ("lit_select", "lit_where", "operand_where", "isin_where"):
            x = gen_aware(rng)
            c = {"use": use, "kind": "tstz", "v": enc(x), "origin": "aware"}
            if use in ("lit_where", "isin_where"):
                c["w"] = enc(x + datetime.timedelta(minutes=rng.choice([1, -1, 60, 300, 1440])))
            cases.append(c)
    for op in sorted(entry_ops()):
        if entry_ops()[op][0] == "any":
            for _ in range(3 if ctx.thorough else 1):
                c = gen_entry_aware(rng, op, rng.choice(list(ZONES)) if rng.random() < 0.3 else None)
                c["origin"] = "entry-aware"
                cases.append(c)
    for zone in ZONES:
        for _ in range(6 if ctx.thorough else 1):
            for c in gen_zone_cases(rng, zone):
                c["origin"] = "zone:" + zone
                cases.append(c)
        c = gen_tree_cdf(rng, falsy=False, zone=zone)
        c["origin"] = "zone:" + zone
        cases.append(c)
    # literal lifting: every entry point that takes a plain value, with strings that look like SQL
    for op in sorted(entry_ops()):
        for _ in range(4 if ctx.thorough else 2):
            c = gen_entry(rng, op)
            if c:
                c["origin"] = "entry-sweep"
                cases.append(c)
    for _ in range(600 if ctx.thorough else 70):
        c = gen_entry(rng)
        if c:
            c["origin"] = "entry-random"
            cases.append(c)
    for _ in range(2):
        c = gen_entry(rng, oos="H_noNul")
        if c:
            c["origin"] = "out-of-scope:H_noNul"
            cases.append(c)
    # inputs outside the scope hypotheses (each must be classified, never silently skipped)
    for h in OOS:
        for _ in range(12 if ctx.thorough else 3):
            if h == "H_firstRowTyped":
                c = gen_first_row_untyped(rng)
            elif h == "H_floatDigits":
                c = gen_many_digits(rng)
            elif h in ("H_infLiteral", "H_listFloat"):
                c = gen_lit(rng, rng.choice(["lit_select", "operand_where"]) if h == "H_infLiteral" else "lit_select", oos=h)
            elif h == "H_noNul" and rng.random() < 0.5:
                c = gen_lit(rng, rng.choice(["lit_select", "lit_where", "operand_where"]), oos=h)
            else:
                c = gen_cdf(rng, oos=h)
            c["origin"] = "out-of-scope:" + h
            cases.append(c)
    return cases


def adjacent_observations() -> t.List[dict]:
    """behaviours next to the property's wording (not counted as failures): recorded in the evidence as observed"""
    st = S()
    sess, F, Row = st["sess"], st["F"], st["Row"]
    obs = []

    def rec(what: str, f: t.Callable[[], t.Any], note: str) -> None:
        try:
            r = show(f())
        except Exception as e:  # noqa
            r = f"raises {type(e).__name__}: {str(e)[:100]}"
        obs.append({"input": what, "observed": r, "note": note})

    rec("createDataFrame([({'a': 1}, 1)], ['v','k']).collect()", lambda: sess.createDataFrame([({"a": 1}, 1)], ["v", "k"]).collect(), "map values are not in the property's value set; a map with string keys comes back as Row (DuckDB returns MAP and STRUCT both as dict); PySpark: {'a': 1}")
    rec("createDataFrame([((1, 'a'), 1)], ['v','k']).collect()", lambda: sess.createDataFrame([((1, "a"), 1)], ["v", "k"]).collect(), "a plain tuple as a cell is inferred as array but written as a row value; PySpark: struct<_1,_2>")
    rec("createDataFrame([{'b': 1, 'a': 'x'}]).columns", lambda: sess.createDataFrame([{"b": 1, "a": "x"}]).columns, "column order of dict rows: insertion order; PySpark sorts the keys (['a','b']); the stream uses sorted keys")
    rec("repr(createDataFrame([(-0.0,)], ['f']).collect()[0][0])", lambda: repr(sess.createDataFrame([(-0.0,)], ["f"]).collect()[0][0]), "the sign of a negative zero is lost (equal as a value, -0.0 == 0.0)")
    rec("createDataFrame([(None,), (float('inf'),)], ['f']).collect()", lambda: sess.createDataFrame([(None,), (float("inf"),)], ["f"]).collect(), "types are inferred from the first row only (PySpark merges all rows); a first-row None leaves the column untyped: the stream keeps the first row non-null")
    rec("createDataFrame([(1, 'x')], 'a: int, b: string').columns", lambda: sess.createDataFrame([(1, "x")], "a: int, b: string").columns, "the `name: type` DDL spelling (H_ddlSimple): PySpark ['a','b']")
    return obs


def py_risky(c: dict) -> bool:
    """could a named scope hypothesis apply to this case?  (decided without the Lean model, conservatively)"""
    vals = case_values(c)
    for x in (y for v in vals for y in leaves(v)):
        if isinstance(x, str) and "\x00" in x:
            return True
        if isinstance(x, float) and math.isinf(x):
            return True
    if c["use"] == "cdf":
        if "schema_names" in c or any(col["name"].strip() != col["name"] for col in c["cols"]):
            return True
        if c["form"] == "ddl" and any(col["kind"] in STRUCTY for col in c["cols"]):
            return True
    elif c["use"] == "lit_select" and isinstance(vals[0], list) and any(isinstance(x, float) and math.isfinite(x) for x in vals[0]):
        return True
    return False


def same_loose(a: t.Any, b: t.Any) -> bool:
    """`same`, but a finite float may be off by single-precision rounding (H_nanWidth cannot be decided here)"""
    Row = S()["Row"]
    if isinstance(b, float) and math.isfinite(b):
        return isinstance(a, float) and abs(a - b) <= abs(b) * 2.0**-22
    if isinstance(b, Row):
        return isinstance(a, Row) and list(a.__fields__) == list(b.__fields__) and len(a) == len(b) and all(same_loose(x, y) for x, y in zip(a, b))
    if isinstance(b, list):
        return isinstance(a, list) and len(a) == len(b) and all(same_loose(x, y) for x, y in zip(a, b))
    return same(a, b)


def spec_notes_only(c: dict, impl: dict) -> t.List[str]:
    notes: t.List[str] = []
    use_zone(c.get("zone"))
    vals = case_values(c)
    if "err" in impl:
        return [f"raises {impl['err']}"]
    if c["use"] == "entry":
        v, w, x, y = dec(c["v"]), dec(c["w"]), dec(c["x"]), dec(c["y"])
        fv, fw = (aware_in_zone(v), aware_in_zone(w)) if c.get("frame") == "naive" else (v, w)
        want = entry_ops()[c["op"]][2](fv, fw, x, y)
        if not bag_same(impl["rows"], want):
            notes.append(f"{c['op']} with the plain value {show(x)} gives {show(impl['rows'])}; treating it as a literal gives {show(want)}")
        if "rows_lit" in impl and not bag_same(impl["rows"], impl["rows_lit"]):
            notes.append(f"{c['op']}({show(x)}) gives {show(impl['rows'])} but {c['op']}(lit({show(x)})) gives {show(impl['rows_lit'])}")
        return notes
    if c["use"] == "cdf":
        names = [x["name"] for x in c["cols"]]
        want = names if not (c["form"] == "none" and c["container"] in ("tuple", "list")) else [f"_{i + 1}" for i in range(len(names))]
        if impl["names"] != want:
            notes.append(f"df.columns {impl['names']} != {want}")
        rows_in = effective_rows(c)
        if len(impl["rows"]) != len(rows_in):
            notes.append(f"{len(impl['rows'])} rows back, {len(rows_in)} in")
        else:
            for ri, (a, b) in enumerate(zip(impl["rows"], rows_in)):
                for ci, (x, y) in enumerate(zip(a, b)):
                    if not same_loose(x, spec_value(y)):
                        notes.append(f"row {ri} column {ci}: {show(x)} back, {show(y)} in")
        if impl.get("fields") is not None and impl["fields"] != want:
            notes.append(f"Row fields {impl['fields']} != {want}")
        if impl.get("schema") is not None:
            if [n for n, _ in impl["schema"]] != want:
                notes.append(f"schema names {[n for n, _ in impl['schema']]} != {want}")
            for (n, ty), col in zip(impl["schema"], c["cols"]):
                if ty != _type_obj(col["decl"]).simpleString():
                    notes.append(f"schema type of {n}: {ty}, declared/inferred {_type_obj(col['decl']).simpleString()}")
    elif c["use"] == "lit_select":
        if not same_loose(impl["value"], spec_value(vals[0])):
            notes.append(f"select(lit(v)) gives {show(impl['value'])} for {show(vals[0])}")
    else:
        want_n = 0 if vals[0] is None else 1
        if impl["n"] != want_n or (c["use"] == "lit_where" and impl.get("n_other") != 0):
            notes.append(f"where(col == / isin literal) matched {impl['n']} rows, expected {want_n} (other value: {impl.get('n_other')})")
    return notes


def case_size(c: dict) -> int:
    return len(json.dumps(c))


def spec_only_stream(ctx: Ctx, cases: t.Optional[t.List[dict]] = None) -> None:
    cases = [c for c in (cases or cases_for(ctx)) if not c.get("origin", "").startswith("out-of-scope") and not py_risky(c)]
    bad = []
    for c in cases:
        impl = run_impl(c)
        try:
            notes = spec_notes_only(c, impl)
        except Exception as e:  # noqa: a result of a shape the comparison does not expect is a difference, not a crash
            notes = [f"the result cannot be compared with the values put in: {type(e).__name__}: {str(e)[:120]}"]
        if notes:
            bad.append((c, impl, notes))
    bad.sort(key=lambda x: case_size(x[0]))
    for c, impl, notes in bad[:3]:
        vlib.report_violation(
            ctx,
            {
                "kind": "a value / name does not survive the trip through the engine (specification side only: the regenerated model is unavailable)",
                "program": show_case(c),
                "case": c,
                "implementation": public_impl(impl),
                "differs_from_specification": notes[:5],
                "broken": ctx.broken,
            },
        )
    if not bad:
        vlib.report_violation(ctx, {"kind": "the regenerated model is unavailable: a construct the proofs hinge on left the translated shape", "broken": ctx.broken, "searched": {"cases": len(cases)}}, no_input=True)
    ctx.cov.update({"evaluations": len(cases), "distinct_nontrivial": len({vlib.digest({k: v for k, v in c.items() if k != "origin"}) for c in cases if nontrivial(c)}),
                    "rule": "specification-side stream only (Gen.Values could not be regenerated): the in-scope part of the usual stream, implementation vs the values put in",
                    "samples": [show_case(c) for c in cases[:3]], "traces_validated_against_impl": 0, "spec_only_failures": len(bad)})


def run(ctx: Ctx) -> None:
    idx = vlib.props_index()[ID]
    vlib.prove(ctx, MODULES, GEN, idx["theorems"], SOURCES)
    known = known_entries()
    cases = cases_for(ctx)
    stale = any("untranslatable" in b or "bad import" in b for b in ctx.broken)
    try:
        # when the source has left the translator's sub-language, the model that runs is the last committed
        # translation (lean/GenBaseline/Values.lean): it still says what the UNCHANGED tree does, and the stream still
        # compares the implementation with the specification on every case, with every observable
        res = evaluate(cases)
    except Exception as e:  # noqa
        if not ctx.broken:
            raise
        # no runnable model at all (the driver does not load): the specification side alone, implementation vs the
        # values put in, on the conservative subset of the stream that no named hypothesis can touch
        log(f"the model cannot be run ({type(e).__name__}: {str(e)[:300]}); specification-side stream only")
        spec_only_stream(ctx, cases)
        return
    if stale:
        log("Gen.Values is the baseline translation: model mismatches below describe the difference to the unchanged tree")

    # DuckDB's own reading of every Lean-quoted NUL-free string
    seen: t.Dict[str, str] = {}
    for r in res:
        vals = case_values(r["case"])
        strings = [x for v in vals for x in leaves(v) if isinstance(x, str)]
        for s, q, nn in zip(strings, r["lean"]["quoted"], r["lean"]["noNul"]):
            if nn:
                seen.setdefault(s, "".join(chr(x) for x in q))
    engine_bad = engine_reads(list(seen.keys()), list(seen.values()))
    if engine_bad:
        ctx.broken.append(f"lexer model vs DuckDB: {len(engine_bad)} of {len(seen)} literals read differently, e.g. {engine_bad[0]}")

    model_mismatch = [r for r in res if r["model_notes"]]
    spec_mismatch = [r for r in res if r["spec_notes"]]
    new_viol = []
    # a KNOWN-FINDING line is printed for a hypothesis only when a failure is attributable to it: it is the only
    # violated hypothesis of some failing case, its recorded witness fails (below), or none of a failing case's
    # violated hypotheses is attributable on its own
    explained = [r for r in spec_mismatch if r["scope"] and all(h in known for h in r["scope"]) and not r["model_notes"]]
    alone = {r["scope"][0] for r in explained if len(r["scope"]) == 1}
    for r in spec_mismatch:
        if r in explained:
            for h in [h for h in r["scope"] if h in alone] or r["scope"]:
                vlib.report_known(ctx, known[h], known[h]["summary"])
        else:
            new_viol.append(r)
    # an in-scope hypothesis violation that does NOT fail would mean the hypothesis is not needed: fine, no report

    # replay the recorded witnesses of the open known findings on the real code
    for h, e in known.items():
        w = e.get("witness")
        if isinstance(w, dict) and "use" in w:
            r = evaluate([w])[0]
            if r["spec_notes"]:
                vlib.report_known(ctx, e, e["summary"])
            else:
                log(f"known finding {h}: the recorded witness no longer fails")

    if model_mismatch:
        r0 = model_mismatch[0]
        ctx.broken.append(f"correspondence stream (implementation vs Lean model): {len(model_mismatch)} of {len(res)} cases differ, e.g. {show_case(r0['case'])}: {r0['model_notes'][0]}")

    reported = 0
    # in-scope failures first, small ones first, and different kinds of difference rather than three of a kind
    new_viol.sort(key=lambda r: (bool(r["scope"]), case_size(r["case"])))
    picked: t.List[dict] = []
    for r in new_viol:
        if len(picked) < 3 and not any(note_kinds(r["spec_notes"]) == note_kinds(q["spec_notes"]) and r["case"]["use"] == q["case"]["use"] for q in picked):
            picked.append(r)
    picked += [r for r in new_viol if r not in picked][: 3 - len(picked)]
    for r in picked:
        kinds0, scope0 = note_kinds(r["spec_notes"]), r["scope"]

        def failing(rr: dict) -> bool:
            # the same kind of difference under the same hypotheses: a shrunk case must not drift to another failure
            return bool(note_kinds(rr["spec_notes"]) & kinds0) and rr["scope"] == scope0 and not (rr["scope"] and all(h in known for h in rr["scope"]) and not rr["model_notes"])

        c = shrink(r["case"], failing)
        rr = evaluate([c])[0]
        vlib.report_violation(
            ctx,
            {
                "kind": "a value / name / type does not survive the trip through the engine",
                "program": show_case(c),
                "case": c,
                "implementation": public_impl(rr["impl"]),
                "differs_from_specification": rr["spec_notes"][:5],
                "differs_from_model": rr["model_notes"][:5],
                "violated_scope_hypotheses": rr["scope"],
                "broken": ctx.broken,
            },
        )
        reported += 1
    if ctx.broken and not reported:
        r0 = model_mismatch[0] if model_mismatch else None
        vlib.report_violation(
            ctx,
            {
                "kind": "proof obligation or correspondence no longer checks; no failing input found",
                "broken": ctx.broken,
                "searched": {"cases": len(res)},
                "first_model_mismatch": ({"program": show_case(r0["case"]), "case": r0["case"], "implementation": public_impl(r0["impl"]), "notes": r0["model_notes"][:5]} if r0 else None),
            },
            no_input=True,
        )

    hist: t.Dict[str, int] = {}
    kinds_hist: t.Dict[str, int] = {}
    matrix: t.Dict[str, int] = {}
    nontriv = set()
    nstr = 0
    origins: t.Dict[str, int] = {}
    for r in res:
        c = r["case"]
        hist[c["use"]] = hist.get(c["use"], 0) + 1
        origins[c.get("origin", "?").split(":")[0]] = origins.get(c.get("origin", "?").split(":")[0], 0) + 1
        if c["use"] == "cdf":
            key = f"{c['container']}x{c['form']}"
            matrix[key] = matrix.get(key, 0) + 1
            for col in c["cols"]:
                kinds_hist[col["kind"]] = kinds_hist.get(col["kind"], 0) + 1
        else:
            kinds_hist[c.get("kind", "?")] = kinds_hist.get(c.get("kind", "?"), 0) + 1
        nstr += len(r["lean"]["quoted"])
        if nontrivial(c) and "err" not in r["impl"]:
            nontriv.add(vlib.digest({k: v for k, v in c.items() if k != "origin"}))
    samples = [{"program": show_case(r["case"]), "result": public_impl(r["impl"]), "scope": r["scope"]} for r in res[:: max(1, len(res) // 5)][:5]]
    ctx.cov.update(
        {
            "evaluations": len(res),
            "distinct_nontrivial": len(nontriv),
            "rule": "corpus; every adversarial string as a cell / lit() in select / lit() in where; every row container x schema form; random typed columns "
            "(per-type generators, adversarial strings, 64-bit boundaries, NaN/inf, date/timestamp extremes, bytes, nested lists/Rows); random lit()/operand literals; "
            "value trees: every falsy scalar (0, 0.0, -0.0, False, '', b'') at every inference position (cell, first list element, Row field alone/first/last, list in Row, "
            "Row in list, list of lists) and random type trees to depth 3 with falsy / ordinary first rows and None / empty lists in later rows; the falsy scalars as literals; "
            "aware datetimes with offsets up to +-23:59 (moving the date / month / year) as cells, nested cells, lit(), operands, isin, and at every entry point that takes a "
            "plain value (literal respelled with another offset; frame stored as naive timestamps); the same under four other fixed-offset session time zones; "
            "a few inputs outside each named hypothesis. non-trivial = distinct case that ran without error and contains a string with quote/backslash/comment/control/"
            "non-ASCII characters or > 100 chars, an integer beyond 32 bits, a non-finite or extreme float, bytes/date/timestamp, or a nested value",
            "traces_validated_against_impl": len(res) - len(model_mismatch),
            "impl_vs_spec_agree": len(res) - len(spec_mismatch),
            "out_of_scope_cases": sum(1 for r in res if r["scope"]),
            "string_literals_lexed_by_lean": nstr,
            "distinct_strings_read_back_by_duckdb": len(seen),
            "use_histogram": hist,
            "origin_histogram": origins,
            "zones": sorted({r["case"].get("zone", "UTC") for r in res}),
            "kind_histogram": kinds_hist,
            "container_x_form": matrix,
            "samples": samples,
            "adjacent_observations": adjacent_observations(),
            "not_decided": "the lexical forms of float / date / bytes literals and the calendar arithmetic of timestamps are sqlglot's, Python's and the engine's; the Lean model "
            "treats them as opaque tokens of the right kind (a timestamp: wall-clock microseconds + offset) — such values are only run through the real code here",
        }
    )
    ctx.assumptions += [
        "DuckDB's scanner treats '…' literals as Impl/C09Lex.lean says ('' is the only escape, backslash is ordinary, NUL ends the input) — validated on every run: DuckDB reads each Lean-quoted literal back",
        "sqlglot's DuckDB generator writes string literals as Lean `quote` and integers as str(int) — validated on every run against the executed statement",
        "sqlglot exp.convert's literal per Python type (Lean `convertClass`) and Python's class hierarchy (`PyKind.classes`) — validated on every run against the literal AST",
        "the DuckDB session time zone is UTC or a fixed-offset zone set per case; an aware datetime comes back as the naive reading of its instant in that zone (what PySpark gives "
        "when the session / local zone is that zone); engine: CAST('…+hh:mm' AS TIMESTAMPTZ) is the instant, a TIMESTAMPTZ is handed back in the session zone (Impl/C09Time.lean: assumed, "
        "validated on every datetime of the stream)",
        "dict rows are compared with sorted keys only; -0.0 == 0.0 counts as equal; where the first row shows no type at an inference position the case is outside H_firstRowTyped",
        "engine: a struct is CAST field by field, by name (fields the target type does not name are dropped) — harness-side rule `project`, validated on every H_firstRowTyped case",
        "engine: a DECIMAL literal is converted to DOUBLE exactly when its digits fit 2^53 (H_floatDigits), within 4 units in the last place otherwise — validated on every float cell",
        "PySpark's behaviour for the schema-form matrix, dict rows by key, Row/dict renaming by a names list, DDL strings with commas/colons, lit(inf), NUL in strings was confirmed on live PySpark 3.5.9 during construction",
    ]


def replay(ctx: Ctx, rp: dict) -> None:
    c = rp.get("case")
    if not c:
        print("replay names a broken obligation, not an input:", rp.get("broken"))
        return
    r = evaluate([c])[0]
    print(json.dumps({"program": show_case(c), "implementation": public_impl(r["impl"]), "differs_from_specification": r["spec_notes"], "differs_from_model": r["model_notes"], "scope": r["scope"]}, indent=1, default=str))
    if r["spec_notes"]:
        vlib.report_violation(ctx, dict(rp, implementation=public_impl(r["impl"]), differs_from_specification=r["spec_notes"]))
