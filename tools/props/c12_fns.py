"""
c12_fns.py — the FUNCTION part of C12's validation stream ("forall engine-supported functions from a per-engine table").

A case is one call  df.select("id", F.<fn>(<args>).alias("o"))  over a small typed table.  What is explored:

  * every function of RECIPES (string / numeric / date / time-format functions; all those whose body has `_is_<engine>`
    branches or goes through a session-level dialect helper are in the FOCUS set and are enumerated on every run);
  * every ARGUMENT FORM the function's own signature admits — read from the annotation of the running function, not from a
    hand-written list: a `ColumnOrName` parameter is passed as a column name and as a Column; `Union[ColumnOrName, int]` also
    as a Python int and as lit(int); `Optional[...]` also omitted; `str` / `int` as a Python literal.  Forms are varied one
    parameter at a time around a base call, and pairwise for the FOCUS functions;
  * data: per-role pools (with NULLs), time texts rendered from the case's own Spark-style format.

The case then goes through the ordinary C12 machinery (c12.reference / c12.run_engine): every engine's statements must
parse in the engine's dialect, be a fixed point of re-rendering and denote the rows of the DuckDB session.

ASSUMED engine primitives (`apply_prims`, mirrored by Impl/C12Fns.lean): functions an engine runs natively and DuckDB does not
have are read by their documented definition before the parse is written for DuckDB:
    OVERLAY(s PLACING r FROM p [FOR l])           = SUBSTRING(s, 1, p - 1) || r || SUBSTRING(s, p + COALESCE(l, LENGTH(r)))   (SQL standard)
    TRY_TO_TIMESTAMP(x, f)   (Spark, Databricks, Redshift; Postgres: pg_temp.try_to_timestamp, by the definition the session installs)
                                                  = NULL-on-error parse of x with f READ IN THE ENGINE'S OWN FORMAT LANGUAGE
    SAFE.PARSE_TIMESTAMP(f, x)  (BigQuery)        = the same, f in BigQuery's format language
    PARSE_DATETIME(f, x) (BigQuery), TO_TIMESTAMP_NTZ(x[, f]) (Spark, Databricks, Snowflake, Redshift)
                                                  = parse of x with f read in the engine's own format language / CAST(x AS TIMESTAMP)
    REGEXP_REPLACE(s, p, r[, pos])  (Spark, Databricks, BigQuery, Snowflake, Redshift)
                                                  = EVERY match replaced (DuckDB: only with the 'g' option), searching from position pos
    SEQUENCE(a, b) without a step (Spark, Databricks) = step 1 if a <= b, otherwise -1
    ARRAY_TO_STRING([..], sep) (BigQuery)         = NULL elements omitted, '' when all are NULL (DuckDB gives NULL then)
    RINT / LOG1P / EXPM1 / ISNULL (Spark, Databricks) = ROUND_EVEN(x, 0) / LN(1 + x) / EXP(x) - 1 / x IS NULL
    TIMESTAMP WITH LOCAL TIME ZONE                = TIMESTAMPTZ
    CONCAT(a, b, ..) on a dialect whose CONCAT is strict (sqlglot: CONCAT_COALESCE = False)
                                                  = a || b || ..  (NULL if an operand is NULL; DuckDB's CONCAT skips NULL operands)
The format languages are sqlglot's TIME_MAPPING tables (third party; modelled in Impl/C12Fns.lean and compared with the live
tables by the check).

(function, engine) pairs that are NOT compared are listed in SKIP with the reason (oracle artefacts: sqlglot's writer for DuckDB
does not carry the engine's meaning); nothing is claimed about them.
"""
from __future__ import annotations

import datetime
import inspect
import random
import re
import typing as t

ENGINES = ["bigquery", "snowflake", "postgres", "databricks", "spark", "redshift", "duckdb"]

# ------------------------------------------------------------------------------------------------
# ASSUMED engine primitives (oracle side)
# ------------------------------------------------------------------------------------------------

TRY_TS_NAMES = {"TRY_TO_TIMESTAMP"}
PRIM_DIALECTS_TRY_TS = {"spark", "databricks", "redshift"}  # Snowflake: read by sqlglot itself; Postgres has no such function (only the session's pg_temp one)
REGEXP_GLOBAL_DIALECTS = {"spark", "databricks", "bigquery", "snowflake", "redshift"}
SEQUENCE_DIALECTS = {"spark", "databricks"}
NTZ_DIALECTS = {"spark", "databricks", "snowflake", "redshift"}


SPARK_NATIVE_DIALECTS = {"spark", "databricks"}


def _spark_native() -> t.Dict[str, t.Tuple[int, t.Callable[..., t.Any]]]:
    from sqlglot import exp

    one = exp.Literal.number(1)
    return {
        "RINT": (1, lambda x: exp.Anonymous(this="ROUND_EVEN", expressions=[x, exp.Literal.number(0)])),  # ties to even
        "LOG1P": (1, lambda x: exp.Ln(this=exp.paren(exp.Add(this=one.copy(), expression=x)))),
        "EXPM1": (1, lambda x: exp.paren(exp.Sub(this=exp.Exp(this=x), expression=one.copy()))),
        "ISNULL": (1, lambda x: exp.paren(exp.Is(this=x, expression=exp.Null()))),
    }


SPARK_NATIVE = _spark_native()


def _fmt_literal(node: t.Any) -> t.Optional[str]:
    from sqlglot import exp

    if isinstance(node, exp.Literal) and node.is_string:
        return node.this
    return None


def apply_prims(tree: t.Any, dialect: str, used: t.List[str]) -> t.Any:
    """the parse of a dialect-E text with E's native primitives that DuckDB lacks replaced by their documented definition"""
    from sqlglot import exp
    from sqlglot.dialects.dialect import Dialect

    D = Dialect.get_or_raise(dialect)

    def parse_time(x: t.Any, f: t.Any, what: str, safe: bool = True) -> t.Optional[t.Any]:
        s = _fmt_literal(f)
        if s is None:
            return None
        strf = D.format_time(exp.Literal.string(s))
        used.append(what)
        return exp.StrToTime(this=x.copy(), format=strf, safe=safe)

    def tr(node: t.Any) -> t.Any:
        if isinstance(node, exp.Overlay):
            s, r, p, l = node.this, node.expression, node.args["from"], node.args.get("for")
            ln = exp.Length(this=r.copy()) if l is None else l.copy()
            head = exp.Substring(this=s.copy(), start=exp.Literal.number(1), length=exp.Sub(this=exp.paren(p.copy()), expression=exp.Literal.number(1)))
            tail = exp.Substring(this=s.copy(), start=exp.Add(this=exp.paren(p.copy()), expression=exp.paren(ln)))
            used.append("OVERLAY")
            return exp.DPipe(this=exp.DPipe(this=head, expression=r.copy()), expression=tail)
        if isinstance(node, exp.Dot) and isinstance(node.expression, exp.Anonymous):
            fn = node.expression
            owner = node.this.name.upper() if isinstance(node.this, exp.Identifier) else ""
            if dialect == "postgres" and owner == "PG_TEMP" and fn.name.upper() in TRY_TS_NAMES and len(fn.expressions) == 2:
                return parse_time(fn.expressions[0], fn.expressions[1], "PG_TEMP.TRY_TO_TIMESTAMP") or node
            if dialect == "bigquery" and owner == "SAFE" and fn.name.upper() == "PARSE_TIMESTAMP" and len(fn.expressions) == 2:
                return parse_time(fn.expressions[1], fn.expressions[0], "SAFE.PARSE_TIMESTAMP") or node
        if isinstance(node, exp.Anonymous) and not isinstance(node.parent, exp.Dot):
            nm = node.name.upper()
            if nm in TRY_TS_NAMES and dialect in PRIM_DIALECTS_TRY_TS and len(node.expressions) == 2:
                return parse_time(node.expressions[0], node.expressions[1], "TRY_TO_TIMESTAMP") or node
            if dialect in SPARK_NATIVE_DIALECTS and nm in SPARK_NATIVE and len(node.expressions) == SPARK_NATIVE[nm][0]:
                # functions Spark / Databricks run natively and DuckDB does not have, by Spark's documented definition
                used.append(nm)
                return SPARK_NATIVE[nm][1](*[x.copy() for x in node.expressions])
            if nm == "PARSE_DATETIME" and dialect == "bigquery" and len(node.expressions) == 2:
                return parse_time(node.expressions[1], node.expressions[0], "PARSE_DATETIME", safe=False) or node
            if nm == "TO_TIMESTAMP_NTZ" and dialect in NTZ_DIALECTS:
                if len(node.expressions) == 2:
                    return parse_time(node.expressions[0], node.expressions[1], "TO_TIMESTAMP_NTZ", safe=False) or node
                if len(node.expressions) == 1:
                    used.append("TO_TIMESTAMP_NTZ")
                    return exp.Cast(this=node.expressions[0].copy(), to=exp.DataType(this=exp.DataType.Type.TIMESTAMP))
        if type(node) is exp.Concat and not D.CONCAT_COALESCE and len(node.expressions) >= 2 and not node.args.get("coalesce"):
            # the engine's CONCAT is strict (NULL if an operand is NULL); DuckDB's skips NULL operands: write it as a || chain
            acc = node.expressions[0].copy()
            for x in node.expressions[1:]:
                acc = exp.DPipe(this=acc, expression=x.copy())
            used.append("CONCAT(strict)")
            return exp.paren(acc)
        if isinstance(node, exp.ArrayToString) and dialect == "bigquery" and isinstance(node.this, exp.Array) and node.args.get("null") is None:
            # BigQuery's ARRAY_TO_STRING omits NULL elements; when every element is NULL the result is '' (DuckDB's is NULL)
            used.append("ARRAY_TO_STRING(bigquery)")
            return exp.Coalesce(this=node.copy(), expressions=[exp.Literal.string("")])
        if isinstance(node, exp.RegexpReplace) and dialect in REGEXP_GLOBAL_DIALECTS:
            # the engine's REGEXP_REPLACE replaces EVERY match (DuckDB's only the first unless the 'g' option is given);
            # a start position p leaves the first p - 1 characters alone
            pos = node.args.get("position")
            node = node.copy()
            node.set("position", None)
            node.set("occurrence", None)
            node.set("modifiers", exp.Literal.string("g"))
            used.append("REGEXP_REPLACE(all)")
            if pos is not None and not (isinstance(pos, exp.Literal) and not pos.is_string and pos.this == "1"):
                s = node.this
                head = exp.Substring(this=s.copy(), start=exp.Literal.number(1), length=exp.Sub(this=exp.paren(pos.copy()), expression=exp.Literal.number(1)))
                node.set("this", exp.Substring(this=s.copy(), start=pos.copy()))
                return exp.DPipe(this=head, expression=node)
            return node
        if isinstance(node, exp.GenerateSeries) and dialect in SEQUENCE_DIALECTS and node.args.get("step") is None and not node.args.get("is_end_exclusive"):
            # Spark / Databricks SEQUENCE(a, b): "if step is not set, incrementing by 1 if start <= stop, otherwise -1"
            a, b = node.args["start"], node.args["end"]
            node = node.copy()
            node.set("step", exp.case().when(exp.LTE(this=a.copy(), expression=b.copy()), exp.Literal.number(1)).else_(exp.Literal.number(-1)))
            used.append("SEQUENCE(default step)")
            return node
        if isinstance(node, exp.DataType) and node.this == exp.DataType.Type.TIMESTAMPLTZ:
            used.append("TIMESTAMPLTZ")
            return exp.DataType(this=exp.DataType.Type.TIMESTAMPTZ)
        return node

    return tree.transform(tr)


# ------------------------------------------------------------------------------------------------
# roles: which column a parameter reads, its type, the pool its data / its Python literals come from
# ------------------------------------------------------------------------------------------------

_D = datetime.date
_T = datetime.datetime

DATES = [_D(2024, 1, 31), _D(2023, 3, 5), _D(2020, 2, 29), _D(1999, 12, 31), _D(2021, 7, 4), _D(2022, 11, 15)]
STAMPS = [_T(2024, 1, 31, 10, 30, 5), _T(2023, 3, 5, 23, 45, 10), _T(2020, 2, 29, 0, 0, 0), _T(1997, 2, 28, 10, 30, 0), _T(2021, 7, 4, 12, 0, 59), _T(2001, 9, 9, 1, 46, 40)]

# role -> (column, ddl type, data pool, python-literal pool)
ROLES: t.Dict[str, t.Tuple[str, str, t.List[t.Any], t.List[t.Any]]] = {
    "s": ("s", "string", ["SPARK_SQL", "hello world", "Hello", "a_b_c", "abcabc", "xYz", "Straße", "  pad  "], ["SPARK_SQL", "abc"]),
    "r": ("r", "string", ["CORE", "ab", "X", "SQL", "l", "abc"], ["CORE", "ab"]),
    "q": ("q", "string", ["b", "SQL", "l", "_", "o w", "c"], ["b", "l"]),
    "p": ("p", "int", [1, 2, 3, 7, 5], [1, 2, 7]),
    "n": ("n", "int", [0, 1, 2, 4, 3], [0, 2, 4]),
    "k": ("k", "int", [0, 1, 2, 3, 5], [1, 2, 3]),
    "i": ("i", "int", [0, 1, 3, 12, -4, 7], [2, 3]),
    "j": ("j", "int", [1, 2, 5, -3, 12], [2, 5]),
    "x": ("x", "double", [0.5, 2.25, -1.5, 3.0, 10.75, 0.0], [1.5]),
    "y": ("y", "double", [1.0, 0.25, 2.5, 4.0], [2.0]),
    "xp": ("xp", "double", [0.5, 2.25, 1.0, 3.0, 10.75, 100.0], [1.5]),
    "d": ("d", "date", DATES, []),
    "e": ("e", "date", DATES, []),
    "ts": ("ts", "timestamp", STAMPS, []),
    "u": ("u", "bigint", [0, 86400, 1700000000, 951782400, 1000000000], []),
    "a1": ("a1", "int", [1, 3, 5, -2, 0], []),
    "b1": ("b1", "int", [1, 4, -1, 2, 6], []),
    "st": ("st", "int", [1, 2, 3], []),
    "m": ("m", "string", ["a,b,c", "hello world", "x1y22z333", "aXbXc", "no match", "llama"], []),
    "yy": ("yy", "int", [2020, 2023, 1999, 2024], []),
    "mo": ("mo", "int", [1, 2, 12, 7], []),
    "dy": ("dy", "int", [1, 15, 28, 9], []),
    "arr": ("arr", "array<int>", [[1, 2, 3], [3, 1], [5], [2, 2, 4], [4, 1, 3, 2]], []),
    "sarr": ("sarr", "array<string>", [["a", "b"], ["x"], ["b", "c", "a"]], []),
    # texts: filled per case from the case's format (see gen_case)
    "t": ("t", "string", [], []),
    "tb": ("tb", "string", [], []),
    "dt": ("dt", "string", [], []),
}

# Spark-style formats used by the time families: (format, strftime rendering used to WRITE the data, is-date-only)
TS_FORMATS = [
    ("yyyy-MM-dd HH:mm:ss", "%Y-%m-%d %H:%M:%S"),
    ("yyyy/MM/dd HH:mm:ss", "%Y/%m/%d %H:%M:%S"),
    ("dd-MM-yyyy HH:mm:ss", "%d-%m-%Y %H:%M:%S"),
    ("yyyy-MM-dd HH:mm", "%Y-%m-%d %H:%M"),
    ("MM/dd/yyyy HH:mm:ss", "%m/%d/%Y %H:%M:%S"),
]
D_FORMATS = [
    ("yyyy-MM-dd", "%Y-%m-%d"),
    ("dd/MM/yyyy", "%d/%m/%Y"),
    ("MM-dd-yyyy", "%m-%d-%Y"),
    ("yyyy/MM/dd", "%Y/%m/%d"),
]
DEFAULT_TS = TS_FORMATS[0]
DEFAULT_D = D_FORMATS[0]
BAD_TEXTS = ["not a timestamp", "", "1997-13-45 99:99:99", "10:30:00"]

# ------------------------------------------------------------------------------------------------
# recipes: parameter name -> role (a role starting with '=' is a Python-literal pool given inline; 'fmt_ts' / 'fmt_d' are the
# case's format).  'forms' overrides the forms read from the annotation for one parameter (where PySpark's documented type is
# narrower / wider than the annotation).  `focus` = the body takes a per-engine decision or uses a session dialect helper.
# ------------------------------------------------------------------------------------------------

RECIPES: t.Dict[str, t.Dict[str, t.Any]] = {
    # --- per-engine emulation vs native
    "overlay": {"params": {"src": "s", "replace": "r", "pos": "p", "len": "n"}, "focus": True},
    # --- time formats (session.format_time / format_execution_time / default_time_format)
    "try_to_timestamp": {"params": {"col": "tb", "format": "fmt_ts"}, "forms": {"format": ["none", "lit"]}, "focus": True},
    "to_timestamp": {"params": {"col": "t", "format": "fmt_ts"}, "focus": True},
    "to_date": {"params": {"col": "dt", "format": "fmt_d"}, "focus": True},
    "date_format": {"params": {"col": "ts", "format": "fmt_ts"}, "focus": True},
    "from_unixtime": {"params": {"col": "u", "format": "fmt_ts"}, "focus": True},
    "unix_timestamp": {"params": {"timestamp": "t", "format": "fmt_ts"}, "forms": {"timestamp": ["name", "col"]}, "focus": True},
    "to_timestamp_ntz": {"params": {"timestamp": "t", "format": "fmt_ts"}, "forms": {"format": ["none", "lit"]}, "focus": True},
    # --- date parts / arithmetic
    "year": {"params": {"col": "d"}},
    "quarter": {"params": {"col": "d"}},
    "month": {"params": {"col": "d"}},
    "dayofmonth": {"params": {"col": "d"}},
    "dayofyear": {"params": {"col": "d"}},
    "dayofweek": {"params": {"col": "d"}},
    "weekofyear": {"params": {"col": "d"}},
    "hour": {"params": {"col": "ts"}},
    "minute": {"params": {"col": "ts"}},
    "second": {"params": {"col": "ts"}},
    "last_day": {"params": {"col": "d"}},
    "date_add": {"params": {"col": "d", "days": "n"}},
    "date_sub": {"params": {"col": "d", "days": "n"}},
    "date_diff": {"params": {"end": "d", "start": "e"}},
    "datediff": {"params": {"end": "d", "start": "e"}},
    "add_months": {"params": {"start": "d", "months": "n"}},
    "trunc": {"params": {"col": "d", "format": "=month,year"}},
    "unix_seconds": {"params": {"col": "ts"}},
    "make_date": {"params": {"year": "yy", "month": "mo", "day": "dy"}},
    "day": {"params": {"col": "d"}},
    # --- arrays (only the functions whose native forms the oracle can read)
    "array_size": {"params": {"col": "arr"}},
    "size": {"params": {"col": "arr"}},
    "array_join": {"params": {"col": "sarr", "delimiter": "=-"}},
    "array_append": {"params": {"col": "arr", "value": "=7"}, "forms": {"value": ["py", "lit"]}},
    # --- strings
    "instr": {"params": {"col": "s", "substr": "=SQL,l,b"}},
    "left": {"params": {"str": "s", "len": "n"}},
    "right": {"params": {"str": "s", "len": "n"}},
    "startswith": {"params": {"str": "s", "prefix": "r"}},
    "endswith": {"params": {"str": "s", "suffix": "q"}},
    "contains": {"params": {"left": "s", "right": "q"}},
    "replace": {"params": {"src": "s", "search": "q", "replace": "r"}, "forms": {"replace": ["name", "col"]}},  # the two-argument REPLACE is not DuckDB's
    "position": {"params": {"substr": "q", "str": "s", "start": "p"}},
    "locate": {"params": {"substr": "=SQL,l,b", "str": "s", "pos": "=1,2,5"}},
    "substring": {"params": {"str": "s", "pos": "p", "len": "n"}},
    "substr": {"params": {"str": "s", "pos": "p", "len": "n"}},
    "lpad": {"params": {"col": "s", "len": "=3,8,12", "pad": "=*,ab"}},
    "rpad": {"params": {"col": "s", "len": "=3,8,12", "pad": "=*,ab"}},
    "repeat": {"params": {"col": "r", "n": "=0,1,3"}},
    "translate": {"params": {"srcCol": "s", "matching": "=SL,abc", "replace": "=sl,xy"}},
    "regexp_replace": {"params": {"str": "m", "pattern": ["l+", "[0-9]+", "X", ","], "replacement": "=#,--", "position": "=1"}, "focus": True},
    "sequence": {"params": {"start": "a1", "stop": "b1", "step": "st"}, "focus": True, "fix_row": "sequence"},
    "split": {"params": {"str": "s", "pattern": "=_,l"}},
    "concat_ws": {"params": {"sep": "=-,", "*": ["s", "r"]}},
    "levenshtein": {"params": {"left": "s", "right": "r"}},
    "length": {"params": {"col": "s"}},
    "char_length": {"params": {"str": "s"}},
    "bit_length": {"params": {"col": "s"}},
    "upper": {"params": {"col": "s"}},
    "lower": {"params": {"col": "s"}},
    "ucase": {"params": {"str": "s"}},
    "lcase": {"params": {"str": "s"}},
    "trim": {"params": {"col": "s"}},
    "ltrim": {"params": {"col": "s"}},
    "rtrim": {"params": {"col": "s"}},
    "reverse": {"params": {"col": "s"}},
    "ascii": {"params": {"col": "s"}},
    "md5": {"params": {"col": "s"}},
    # --- numbers
    "isnan": {"params": {"col": "x"}},
    "isnull": {"params": {"col": "x"}},
    "abs": {"params": {"col": "x"}},
    "ceil": {"params": {"col": "x"}},
    "floor": {"params": {"col": "x"}},
    "signum": {"params": {"col": "x"}},
    "sign": {"params": {"col": "x"}},
    "sqrt": {"params": {"col": "xp"}},
    "log1p": {"params": {"col": "xp"}},
    "expm1": {"params": {"col": "x"}},
    "rint": {"params": {"col": "x"}},
    "degrees": {"params": {"col": "x"}},
    "radians": {"params": {"col": "x"}},
    "pow": {"params": {"col1": "x", "col2": "=2,3"}, "forms": {"col1": ["name", "col"], "col2": ["py"]}},
    "nanvl": {"params": {"col1": "x", "col2": "y"}},
    "greatest": {"params": {"*": ["i", "j"]}},
    "least": {"params": {"*": ["i", "j"]}},
    "coalesce": {"params": {"*": ["i", "j"]}},
    "ifnull": {"params": {"col1": "i", "col2": "j"}},
    "nvl": {"params": {"col1": "i", "col2": "j"}},
    "nullif": {"params": {"col1": "i", "col2": "j"}},
    "shiftleft": {"params": {"col": "k", "numBits": "=1,3"}},
    "shiftright": {"params": {"col": "i", "numBits": "=1,2"}},
    "factorial": {"params": {"col": "k"}},
    "hex": {"params": {"col": "k"}},
}

# (function, engine) pairs not compared; see module docstring.  "*" = every engine rendering of that function form is skipped.
_NATIVE = "the engine runs the function natively; sqlglot writes the call unchanged for DuckDB, which does not have it"
SKIP: t.Dict[t.Tuple[str, str], str] = {
    **{(f, "redshift"): _NATIVE for f in ("isnull", "log1p", "expm1", "rint", "nanvl")},
    **{("nanvl", e): _NATIVE for e in ("databricks", "spark")},
    **{("endswith", e): _NATIVE for e in ("snowflake", "databricks", "spark", "redshift")},
    ("sequence", "redshift"): "Redshift's GENERATE_SERIES is a set-returning function; what sqlframe sends is not an array expression there (not compared)",
    ("sequence", "snowflake"): "third party: sqlglot's Snowflake writer is not idempotent on ARRAY_GENERATE_RANGE",
    ("add_months", "snowflake"): _NATIVE,
    ("hex", "bigquery"): "sqlglot writes BigQuery's CAST(int AS BYTES) as a DuckDB cast that does not exist",
    ("hex", "snowflake"): _NATIVE,
    ("degrees", "bigquery"): "bqutil.fn.* community UDF: no definition available offline",
    ("radians", "bigquery"): "bqutil.fn.* community UDF: no definition available offline",
    ("weekofyear", "bigquery"): "DuckDB has no ISOWEEK extract specifier",
    **{("dayofweek", e): "sqlglot writes the engine's 1-based DAYOFWEEK as DuckDB's 0-based one" for e in ("bigquery", "databricks", "spark", "redshift")},
    ("date_format", "bigquery"): "third party: sqlglot's BigQuery generator writes FORMAT_DATE over a DATETIME",
    ("unix_timestamp", "snowflake"): "third party: sqlglot's Snowflake writer alternates EXTRACT(epoch_second ..) / DATE_PART(EPOCH_SECOND ..) on re-rendering",
    ("date_sub", "redshift"): "third party: sqlglot's Redshift generator writes a column-valued day count inside the INTERVAL literal ('n DAY')",
    ("add_months", "redshift"): "third party: sqlglot's Redshift generator writes a column-valued month count inside the INTERVAL literal ('n MONTH')",
    ("concat_ws", "redshift"): "third party: sqlglot's Redshift generator writes CONCAT_WS as a || chain (NULL if any operand is NULL)",
}


# ------------------------------------------------------------------------------------------------
# argument forms, read from the running function's own signature
# ------------------------------------------------------------------------------------------------


def _norm_ann(a: t.Any) -> str:
    s = a if isinstance(a, str) else getattr(a, "__name__", str(a))
    return re.sub(r"\s+", "", s).replace("typing.", "t.")


def forms_of_annotation(ann: str) -> t.Optional[t.List[str]]:
    """the ways PySpark lets a caller pass a parameter of this declared type (None: a type this harness does not know)"""
    a = _norm_ann(ann)
    m = re.fullmatch(r"t\.Optional\[(.*)\]", a)
    if m:
        inner = forms_of_annotation(m.group(1))
        return None if inner is None else ["none"] + inner
    if a == "ColumnOrName":
        return ["name", "col"]
    if a in ("t.Union[ColumnOrName,int]", "t.Union[int,ColumnOrName]"):
        return ["name", "col", "py", "lit"]
    if a in ("ColumnOrLiteral",):
        return ["col", "py", "lit"]
    if a in ("str", "int", "float"):
        return ["py"]
    if a in ("t.Union[Column,int]", "t.Union[int,Column]", "t.Union[Column,str]"):
        return ["col", "py", "lit"]
    return None


class HarnessError(Exception):
    pass


def param_forms(F: t.Any, fn: str) -> t.List[t.Tuple[str, t.List[str]]]:
    """[(parameter, forms)] for the recipe's parameters, in the function's own parameter order"""
    rec = RECIPES[fn]
    f = getattr(F, fn, None)
    if f is None:
        raise HarnessError(f"functions.{fn} does not exist")
    sig = inspect.signature(f)
    out: t.List[t.Tuple[str, t.List[str]]] = []
    for name, prm in sig.parameters.items():
        if prm.kind == inspect.Parameter.VAR_POSITIONAL:
            if "*" in rec["params"]:
                out.append(("*", ["name", "col"]))
            continue
        if name not in rec["params"]:
            if prm.default is inspect.Parameter.empty:
                raise HarnessError(f"functions.{fn} has a required parameter {name!r} the recipe does not know")
            continue
        forms = rec.get("forms", {}).get(name)
        if forms is None:
            forms = forms_of_annotation(prm.annotation)
            if forms is None:
                raise HarnessError(f"functions.{fn}: parameter {name!r} has annotation {prm.annotation!r}, which this harness cannot enumerate")
            if prm.default is not inspect.Parameter.empty and prm.default is None and "none" not in forms:
                forms = ["none"] + forms
        role = rec["params"][name]
        if isinstance(role, list) or (isinstance(role, str) and (role.startswith("=") or role.startswith("fmt_"))):
            forms = [x for x in forms if x in ("none", "py", "lit")] or ["py"]
        out.append((name, list(forms)))
    missing = [p for p in rec["params"] if p not in [n for n, _ in out]]
    if missing:
        raise HarnessError(f"functions.{fn} no longer has the parameter(s) {missing}")
    return out


def form_vectors(pf: t.List[t.Tuple[str, t.List[str]]], pairwise: bool) -> t.List[t.Tuple[str, ...]]:
    """two base calls — every optional parameter GIVEN (in its first form) and every optional parameter OMITTED — each with every
    single-parameter deviation; (pairwise) every two-parameter deviation of the first base as well"""
    given = tuple(fs[0] if fs[0] != "none" or len(fs) == 1 else fs[1] for _, fs in pf)
    omitted = tuple("none" if "none" in fs else g for (_, fs), g in zip(pf, given))
    seen: t.List[t.Tuple[str, ...]] = []

    def add(v: t.Tuple[str, ...]) -> None:
        if v not in seen:
            seen.append(v)

    for base in (given, omitted):
        add(base)
        for i, (_, fs) in enumerate(pf):
            for f in fs:
                add(base[:i] + (f,) + base[i + 1 :])
    if pairwise:
        for i, (_, fi) in enumerate(pf):
            for j in range(i + 1, len(pf)):
                for a in fi:
                    for b in pf[j][1]:
                        v = list(given)
                        v[i], v[j] = a, b
                        add(tuple(v))
    return seen


# ------------------------------------------------------------------------------------------------
# cases
# ------------------------------------------------------------------------------------------------


def _enc(v: t.Any) -> t.Any:
    if isinstance(v, datetime.datetime):
        return {"ts": v.strftime("%Y-%m-%d %H:%M:%S")}
    if isinstance(v, datetime.date):
        return {"date": v.isoformat()}
    return v


def _dec(v: t.Any) -> t.Any:
    if isinstance(v, dict):
        if "ts" in v:
            return datetime.datetime.strptime(v["ts"], "%Y-%m-%d %H:%M:%S")
        if "date" in v:
            return datetime.date.fromisoformat(v["date"])
    return v


def _literal_pool(role: t.Any, fmt: t.Optional[t.Tuple[str, str]]) -> t.List[t.Any]:
    if isinstance(role, list):
        return list(role)
    if role.startswith("="):
        vals: t.List[t.Any] = []
        for x in role[1:].split(","):
            vals.append(int(x) if re.fullmatch(r"-?\d+", x) else x)
        return vals
    if role in ("fmt_ts", "fmt_d"):
        return [fmt[0]] if fmt else []
    return list(ROLES[role][3])


def gen_case(rng: random.Random, F: t.Any, fn: str, forms: t.Tuple[str, ...], pf: t.List[t.Tuple[str, t.List[str]]]) -> dict:
    """one call of `fn` with the given argument forms over freshly drawn data"""
    rec = RECIPES[fn]
    uses = [r for r in rec["params"].values() if isinstance(r, str)]
    fmt: t.Optional[t.Tuple[str, str]] = None
    fmt_form = next((f for (n, _), f in zip(pf, forms) if rec["params"].get(n) in ("fmt_ts", "fmt_d")), None)
    if "fmt_ts" in uses:
        fmt = DEFAULT_TS if fmt_form == "none" else rng.choice(TS_FORMATS)
    elif "fmt_d" in uses:
        fmt = DEFAULT_D if fmt_form == "none" else rng.choice(D_FORMATS)
    args: t.List[dict] = []
    cols: t.Dict[str, str] = {}
    roles_of_col: t.Dict[str, str] = {}

    def use(role: str) -> str:
        c, ty, _, _ = ROLES[role]
        cols[c] = ty
        roles_of_col[c] = role
        return c

    for (name, _), form in zip(pf, forms):
        role = rec["params"][name]
        if name == "*":
            for r in role:
                args.append({"param": "*", "form": form, "column": use(r)})
            continue
        if form == "none":
            args.append({"param": name, "form": "none"})
        elif form in ("name", "col"):
            args.append({"param": name, "form": form, "column": use(role)})
        else:
            args.append({"param": name, "form": form, "value": rng.choice(_literal_pool(role, fmt))})
    nrows = rng.randint(3, 4) if rec.get("focus") else rng.randint(2, 4)
    lits = {a["param"]: a["value"] for a in args if "value" in a}
    forced = boundary_rows(rec.get("fix_row") or fn, lits, fmt)
    rows: t.List[t.List[t.Any]] = []
    for i in range(nrows):
        d: t.Dict[str, t.Any] = {}
        for c in cols:
            role = roles_of_col[c]
            if role in ("t", "tb"):
                v: t.Any = rng.choice(STAMPS).strftime((fmt or DEFAULT_TS)[1])
                if role == "tb" and i > 0 and rng.random() < 0.3:
                    v = rng.choice(BAD_TEXTS)
            elif role == "dt":
                v = rng.choice(DATES).strftime((fmt or DEFAULT_D)[1])
            else:
                v = rng.choice(ROLES[role][2])
            if i > 0 and rng.random() < 0.12:  # the first row never carries a NULL
                v = None
            d[c] = v
        if i < len(forced):
            d.update({c: v for c, v in forced[i].items() if c in d})
        fix_row(rec.get("fix_row"), d)
        rows.append([i] + [_enc(d[c]) for c in cols])
    return {"fam": "fncall", "fn": fn, "args": args, "cols": cols, "rows": rows, "fmt": list(fmt) if fmt else None}


REGEX_WITNESS = {"l+": "hello world", "[0-9]+": "x1y22z333", "X": "aXbXc", ",": "a,b,c"}


def boundary_rows(kind: str, lits: t.Dict[str, t.Any], fmt: t.Optional[t.Tuple[str, str]]) -> t.List[t.Dict[str, t.Any]]:
    """the first rows of a case's data: inputs on which the branches of the function differ (the documented examples of the
    function: a replaced span shorter / longer than the replacement, an ascending / a descending / a one-element range,
    a text with several matches of the pattern, a Sunday)"""
    if kind == "overlay":
        return [{"s": "SPARK_SQL", "r": "CORE", "p": 7, "n": 0}, {"s": "SPARK_SQL", "r": "CORE", "p": 7, "n": 2}, {"s": "SPARK_SQL", "r": "CORE", "p": 7, "n": 4}]
    if kind == "sequence":
        return [{"a1": 1, "b1": 4, "st": 1}, {"a1": 3, "b1": 1, "st": 1}, {"a1": 2, "b1": 2, "st": 2}]
    if kind == "regexp_replace":
        w = REGEX_WITNESS.get(lits.get("pattern"))
        return [{"m": w}] if w else []
    if kind in ("dayofweek", "weekofyear"):
        return [{"d": _D(2023, 3, 4)}, {"d": _D(2023, 3, 5)}, {"d": _D(2023, 3, 6)}]
    if kind == "rint":
        return [{"x": 0.5}, {"x": 2.5}, {"x": 1.5}, {"x": -2.5}]
    if kind == "factorial":
        return [{"k": 0}, {"k": 1}, {"k": 5}]
    return []


def fix_row(kind: t.Optional[str], row: t.Dict[str, t.Any]) -> None:
    """constraints a call puts on one row of its data (so that the reference itself is defined)"""
    if kind == "sequence" and row.get("st") is not None and row.get("a1") is not None and row.get("b1") is not None:
        # a step must point from start towards stop (anything else is an error in Spark)
        row["st"] = abs(row["st"]) * (1 if row["a1"] <= row["b1"] else -1)


DDL = {"string": "string", "int": "int", "bigint": "bigint", "double": "double", "date": "date", "timestamp": "timestamp", "array<int>": "array<int>", "array<string>": "array<string>"}


def build(p: dict, session: t.Any, F: t.Any) -> t.Any:
    ddl = "id bigint" + "".join(f", {c} {DDL[ty]}" for c, ty in p["cols"].items())
    df = session.createDataFrame([tuple(_dec(v) for v in r) for r in p["rows"]], schema=ddl)
    pos: t.List[t.Any] = []
    kw: t.Dict[str, t.Any] = {}
    for a in p["args"]:
        form = a["form"]
        if form == "none":
            continue
        v = a["column"] if form == "name" else F.col(a["column"]) if form == "col" else a["value"] if form == "py" else F.lit(a["value"])
        if a["param"] == "*":
            pos.append(v)
        else:
            kw[a["param"]] = v
    f = getattr(F, p["fn"])
    # parameters before a var-positional one cannot be passed by keyword together with positional arguments
    if pos:
        sig = inspect.signature(f)
        lead = []
        for name, prm in sig.parameters.items():
            if prm.kind == inspect.Parameter.VAR_POSITIONAL:
                break
            if name in kw:
                lead.append(kw.pop(name))
        c = f(*lead, *pos, **kw)
    else:
        c = f(**kw)
    return df.select("id", c.alias("o"))


def show(p: dict) -> str:
    def a(x: dict) -> str:
        f = x["form"]
        pre = "" if x["param"] == "*" else x["param"] + "="
        if f == "none":
            return ""
        if f == "name":
            return pre + repr(x["column"])
        if f == "col":
            return pre + f"col({x['column']!r})"
        if f == "py":
            return pre + repr(x["value"])
        return pre + f"lit({x['value']!r})"

    cols = ", ".join(f"{c} {ty}" for c, ty in p["cols"].items())
    return f"createDataFrame({p['rows']}, 'id bigint, {cols}').select('id', F.{p['fn']}({', '.join(s for s in map(a, p['args']) if s)}).alias('o'))"


# ------------------------------------------------------------------------------------------------
# the cases of one run
# ------------------------------------------------------------------------------------------------


def gen_cases(rng: random.Random, BF: t.Any, thorough: bool, branchy: t.Optional[t.Set[str]] = None) -> t.Tuple[t.List[dict], t.List[str], t.Dict[str, t.Any]]:
    """(cases, harness problems, statistics).  FOCUS functions = those whose body, in the tree under test, mentions an
    `_is_<engine>` flag or a session time-format helper (`branchy`, read from the source by gen_c12_fns.fn_flags) plus those
    marked in RECIPES: every form vector on every run (pairwise for the marked ones in the thorough tier); the other functions:
    every vector in the thorough tier, a seeded sample in the quick tier"""
    cases: t.List[dict] = []
    problems: t.List[str] = []
    stats: t.Dict[str, t.Any] = {"functions": 0, "focus_functions": 0, "form_vectors_total": 0, "form_vectors_run": 0}
    rest: t.List[t.Tuple[str, t.Tuple[str, ...], t.Any]] = []
    if branchy is not None:
        stats["engine_specific_functions_in_source"] = len(branchy)
        stats["engine_specific_functions_without_recipe"] = sorted(branchy - set(RECIPES))
    for fn, rec in RECIPES.items():
        try:
            pf = param_forms(BF, fn)
        except HarnessError as e:
            problems.append(f"function stream: {e}")
            continue
        stats["functions"] += 1
        focus = bool(rec.get("focus")) or (branchy is not None and fn in branchy)
        stats["focus_functions"] += int(focus)
        vs = form_vectors(pf, pairwise=bool(rec.get("focus")) and thorough)
        stats["form_vectors_total"] += len(vs)
        for v in vs:
            if focus:
                for _ in range(2 if thorough else 1):
                    cases.append(gen_case(rng, BF, fn, v, pf))
            else:
                rest.append((fn, v, pf))
    if not thorough:
        rest = rng.sample(rest, min(len(rest), 24))
    for fn, v, pf in rest:
        cases.append(gen_case(rng, BF, fn, v, pf))
    stats["form_vectors_run"] = len(cases)
    return cases, problems, stats


# ------------------------------------------------------------------------------------------------
# open findings of the function stream: (function, engines, which calls, which rows) — a failure is excused only when every
# differing row is of the stated kind
# ------------------------------------------------------------------------------------------------

BLOB = " ##"


def _arg(p: dict, param: str) -> t.Optional[dict]:
    return next((a for a in p["args"] if a["param"] == param), None)


def _given(p: dict, param: str) -> bool:
    a = _arg(p, param)
    return a is not None and a["form"] != "none"


def _val(p: dict, row: t.Dict[str, t.Any], param: str) -> t.Any:
    """the value a parameter has on one row (its column's value, or its literal)"""
    a = _arg(p, param)
    if a is None or a["form"] == "none":
        return None
    return _dec(row.get(a["column"])) if "column" in a else a["value"]


def _rows_by_id(p: dict) -> t.Dict[int, t.Dict[str, t.Any]]:
    return {r[0]: dict(zip(p["cols"], r[1:])) for r in p["rows"]}


FINDINGS: t.Dict[str, t.Dict[str, t.Any]] = {
    "H_overlayNullOnDuckdb": {
        "fn": "overlay",
        "engines": ["postgres", "databricks", "spark", "redshift", "bigquery", "snowflake"],
        "row": lambda p, row, duck, eng: eng is None and duck is not None and any(_given(p, a["param"]) and "column" in a and row.get(a["column"]) is None for a in p["args"]),
    },
    "H_dayofweekPostgresSunday": {
        "fn": "dayofweek",
        "engines": ["postgres"],
        "row": lambda p, row, duck, eng: duck == 1 and eng == 8,
    },
    "H_endswithLikeWildcards": {
        "fn": "endswith",
        "engines": ["postgres"],
        "row": lambda p, row, duck, eng: eng is True and ((duck is False and any(ch in (_val(p, row, "suffix") or "") for ch in "_%")) or (duck is None and _val(p, row, "suffix") is None and _val(p, row, "str") is not None)),
    },
    "H_positionNotFoundBigquery": {
        "fn": "position",
        "engines": ["bigquery"],
        "call": lambda p: _given(p, "start"),
        "row": lambda p, row, duck, eng: duck == 0 and eng is not None and _val(p, row, "start") is not None and eng == _val(p, row, "start") - 1,
    },
    "H_factorialZeroBigquery": {
        "fn": "factorial",
        "engines": ["bigquery"],
        "row": lambda p, row, duck, eng: duck == 1 and eng is None and _val(p, row, "col") == 0,
    },
    "H_sequenceDescendingNoStep": {
        "fn": "sequence",
        "engines": ["bigquery"],
        "call": lambda p: not _given(p, "step"),
        "row": lambda p, row, duck, eng: eng == [] and _val(p, row, "start") is not None and _val(p, row, "stop") is not None and _val(p, row, "start") > _val(p, row, "stop"),
    },
    "H_bitLengthBigqueryChars": {
        "fn": "bit_length",
        "engines": ["bigquery"],
        "row": lambda p, row, duck, eng: isinstance(_val(p, row, "col"), str) and eng == 8 * len(_val(p, row, "col")) and duck == 8 * len(_val(p, row, "col").encode("utf-8")),
    },
    "H_rintHalfAwayEmulation": {
        "fn": "rint",
        "engines": ["bigquery", "postgres", "snowflake"],
        "row": lambda p, row, duck, eng: isinstance(_val(p, row, "col"), float) and (_val(p, row, "col") * 2) % 2 == 1 and isinstance(duck, int) and isinstance(eng, int) and abs(eng - duck) == 1 and duck % 2 == 0,
    },
    "H_toDateFormatBigquery": {
        "fn": "to_date",
        "engines": ["bigquery"],
        "call": lambda p: _given(p, "format"),
        "text": "strptime(TIMESTAMP",
    },
    "H_toTimestampNtzFormatUntranslated": {
        "fn": "to_timestamp_ntz",
        "engines": ["snowflake", "redshift"],
        "call": lambda p: _given(p, "format"),
        "text": "",
    },
}


def classify_failure(p: dict, f: str) -> t.Optional[str]:
    """the id of the open finding that names this failure line exactly, or None"""
    import json

    m = re.match(r"\[([a-z]+)-session\.collect\(\)\] ", f)
    if not m:
        return None
    engine = m.group(1)
    for hid, spec in FINDINGS.items():
        if spec["fn"] != p.get("fn") or engine not in spec["engines"]:
            continue
        if "call" in spec and not spec["call"](p):
            continue
        if "row" in spec:
            if "rows differ from the DuckDB session's" not in f or BLOB not in f:
                continue
            try:
                blob = json.loads(f.split(BLOB, 1)[1])
            except ValueError:
                continue
            eng_rows = {r[0]: r[1] for r in blob["rows"] if len(r) == 2}
            duck_rows = {r[0]: r[1] for r in blob["ref"] if len(r) == 2}
            if set(eng_rows) != set(duck_rows):
                continue
            data = _rows_by_id(p)
            diff = [i for i in duck_rows if eng_rows[i] != duck_rows[i]]
            if diff and all(i in data and spec["row"](p, data[i], duck_rows[i], eng_rows[i]) for i in diff):
                return hid
        else:
            if spec["text"] in f and "column names" not in f:
                return hid
    return None


WITNESSES: t.Dict[str, dict] = {
    "H_overlayNullOnDuckdb": {"fam": "fncall", "fn": "overlay", "args": [{"param": "src", "form": "name", "column": "s"}, {"param": "replace", "form": "name", "column": "r"}, {"param": "pos", "form": "py", "value": 7}, {"param": "len", "form": "none"}], "cols": {"s": "string", "r": "string"}, "rows": [[0, "SPARK_SQL", "CORE"], [1, None, "CORE"], [2, "SPARK_SQL", None]], "fmt": None},
    "H_dayofweekPostgresSunday": {"fam": "fncall", "fn": "dayofweek", "args": [{"param": "col", "form": "name", "column": "d"}], "cols": {"d": "date"}, "rows": [[0, {"date": "2023-03-04"}], [1, {"date": "2023-03-05"}], [2, {"date": "2023-03-06"}]], "fmt": None},
    "H_endswithLikeWildcards": {"fam": "fncall", "fn": "endswith", "args": [{"param": "str", "form": "name", "column": "s"}, {"param": "suffix", "form": "name", "column": "q"}], "cols": {"s": "string", "q": "string"}, "rows": [[0, "abcabc", "_"], [1, "abcabc", "c"], [2, "100", "%"], [3, "abc", None]], "fmt": None},
    "H_positionNotFoundBigquery": {"fam": "fncall", "fn": "position", "args": [{"param": "substr", "form": "name", "column": "q"}, {"param": "str", "form": "name", "column": "s"}, {"param": "start", "form": "name", "column": "p"}], "cols": {"q": "string", "s": "string", "p": "int"}, "rows": [[0, "_", "a_b_c", 7], [1, "b", "a_b_c", 2]], "fmt": None},
    "H_factorialZeroBigquery": {"fam": "fncall", "fn": "factorial", "args": [{"param": "col", "form": "name", "column": "k"}], "cols": {"k": "int"}, "rows": [[0, 0], [1, 1], [2, 5]], "fmt": None},
    "H_sequenceDescendingNoStep": {"fam": "fncall", "fn": "sequence", "args": [{"param": "start", "form": "name", "column": "a1"}, {"param": "stop", "form": "name", "column": "b1"}, {"param": "step", "form": "none"}], "cols": {"a1": "int", "b1": "int"}, "rows": [[0, 1, 4], [1, 3, 1], [2, 2, 2]], "fmt": None},
    "H_bitLengthBigqueryChars": {"fam": "fncall", "fn": "bit_length", "args": [{"param": "col", "form": "name", "column": "s"}], "cols": {"s": "string"}, "rows": [[0, "Stra\u00dfe"], [1, "abc"]], "fmt": None},
    "H_rintHalfAwayEmulation": {"fam": "fncall", "fn": "rint", "args": [{"param": "col", "form": "name", "column": "x"}], "cols": {"x": "double"}, "rows": [[0, 0.5], [1, 2.5], [2, 1.5], [3, 2.25]], "fmt": None},
    "H_toDateFormatBigquery": {"fam": "fncall", "fn": "to_date", "args": [{"param": "col", "form": "name", "column": "dt"}, {"param": "format", "form": "py", "value": "yyyy/MM/dd"}], "cols": {"dt": "string"}, "rows": [[0, "2022/11/15"], [1, None]], "fmt": ["yyyy/MM/dd", "%Y/%m/%d"]},
    "H_toTimestampNtzFormatUntranslated": {"fam": "fncall", "fn": "to_timestamp_ntz", "args": [{"param": "timestamp", "form": "name", "column": "t"}, {"param": "format", "form": "lit", "value": "yyyy-MM-dd HH:mm:ss"}], "cols": {"t": "string"}, "rows": [[0, "2024-01-31 10:30:05"], [1, "1997-02-28 10:30:00"]], "fmt": ["yyyy-MM-dd HH:mm:ss", "%Y-%m-%d %H:%M:%S"]},
}


def shrink_candidates(p: dict) -> t.List[dict]:
    """smaller cases: one data row less"""
    return [dict(p, rows=p["rows"][:i] + p["rows"][i + 1 :]) for i in range(len(p["rows"])) if len(p["rows"]) > 1]
