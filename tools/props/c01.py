"""
C01 — transformation chains give PySpark's sequential result.

proof      : lean/SqlframeModel/Props/C01.lean  (C01_partial and friends, over the regenerated Gen)
tie        : Gen.Operations / Gen.Methods / Gen.Clauses regenerated from /repo on every run, and the
             correspondence stream below (real sqlframe + DuckDB  vs  Impl/DataFrame.lean  vs  spec)
search     : the same stream compares the implementation with the *specification* directly
"""
from __future__ import annotations

import itertools
import json
import os
import random
import typing as t

import exprs as X
import vlib
from vlib import Ctx, bag, log, plain

ID = "C01"
LEVEL = "proof"
MODULES = ["SqlframeModel.Codec.C01", "SqlframeModel.Impl.C01Memo", "SqlframeModel.Props.C01"]
GEN = ["Operations", "Methods", "Clauses", "C01Bodies"]
SOURCES = ["SqlframeModel/Impl/C01Bodies.lean", "SqlframeModel/Impl/C01Memo.lean", "SqlframeModel/Lemmas/C01Bodies.lean", "SqlframeModel/Lemmas/C01Memo.lean", "SqlframeModel/Lemmas/C01Narrow.lean", "SqlframeModel/Props/C01.lean", "SqlframeModel/Lemmas/C01.lean", "SqlframeModel/Lemmas/C01Wrap.lean", "SqlframeModel/Lemmas/C01Steps.lean", "SqlframeModel/Lemmas/C01Dropna.lean", "SqlframeModel/Lemmas/Sorted.lean", "SqlframeModel/Lemmas/C01ExprKey.lean", "SqlframeModel/Impl/C01ExprKey.lean", "SqlframeModel/Impl/DataFrame.lean", "SqlframeModel/Impl/C01Scope.lean"]

KINDS = ["where", "select", "withColumn", "withColumnRenamed", "drop", "distinct", "orderBy", "limit", "fillna", "replace", "toDF", "dropna", "unpivot"]
NEW_NAMES = ["u", "v", "w", "p", "q"]
BIG = 50

# ------------------------------------------------------------------------------------------------
# program generation (steps are JSON-able dicts)
# ------------------------------------------------------------------------------------------------


def gen_step(rng: random.Random, kind: str, schema: t.Dict[str, str], st: t.Dict[str, t.Any], more_limits: bool) -> t.Optional[dict]:
    """returns a step valid for `schema` and updates schema / determinism state in place"""
    g = X.Gen(rng, schema)
    cols = list(schema)
    # focused programs: every step reads or rewrites one int column, so consecutive steps interact through it
    focus = st.get("focus") if st.get("focus") in schema and schema.get(st.get("focus")) == "int" else None
    if focus:
        f = focus
        if kind == "where":
            st["total"] = False
            return {"k": "where", "p": ("bin", rng.choice(X.CMP), ("col", f), ("lit", rng.choice([0, 1, 2, 3])))}
        if kind == "select":
            # mostly order-reversing rewrites: reading the old value where the new one is meant then changes filters *and* sort order
            rew = rng.choice([("bin", "sub", ("lit", 3), ("col", f)), ("neg", ("col", f)), ("bin", "sub", ("lit", 3), ("col", f)),
                              ("ite", ("bin", "gt", ("col", f), ("lit", 1)), ("lit", 0), ("col", f))])
            items = [[c, rew if c == f else ("col", c)] for c in cols]
            if rng.random() < 0.3 and len(items) > 1:
                rng.shuffle(items)
                order = [(n, schema[n]) for n, _ in items]  # later positional steps (toDF) must see the new column order
                schema.clear()
                schema.update(order)
            st["total"] = False
            return {"k": "select", "items": items}
        if kind == "withColumn":
            e = rng.choice([("bin", "add", ("col", f), ("lit", 1)), ("bin", "sub", ("lit", 2), ("col", f)), ("neg", ("col", f)),
                            ("ite", ("isNull", ("col", f)), ("lit", 1), ("bin", "mul", ("col", f), ("lit", -1)))])
            st["total"] = False
            return {"k": "withColumn", "n": f, "e": e}
        if kind == "withColumnRenamed":
            fresh = [x for x in NEW_NAMES if x not in cols]
            if not fresh:
                return None
            b = rng.choice(fresh)
            items = [(b if c == f else c, ty) for c, ty in schema.items()]
            schema.clear()
            schema.update(items)
            st["total"], st["focus"] = False, b
            return {"k": "withColumnRenamed", "a": f, "b": b}
        if kind == "drop":
            others = [c for c in cols if c != f]
            if not others:
                return None
            nd = [c for c in st.get("nd", []) if c in others]
            c = rng.choice(nd) if nd and rng.random() < 0.75 else rng.choice(others)
            del schema[c]
            st["total"] = False
            return {"k": "drop", "ns": [c]}
        if kind == "orderBy":
            ks = [f] + [c for c in cols if c != f]
            keys = []
            for c in ks:
                desc = rng.random() < 0.4
                keys.append({"name": c, "desc": desc, "nullsFirst": (not desc) if rng.random() < 0.6 else (rng.random() < 0.5)})
            st["total"] = True
            st["order_total_last"] = True
            return {"k": "orderBy", "keys": keys}
        if kind == "fillna":
            st["total"] = False
            return {"k": "fillna", "v": rng.choice([7, 1, 0]), "sub": [f] if rng.random() < 0.6 else [c for c in cols if schema[c] == "int"]}
        if kind == "toDF":
            pool = [x for x in NEW_NAMES + ["c1", "c2", "c3", "c4", "c5", "c6"] if x not in cols]
            rng.shuffle(pool)
            names = [pool.pop() if (c == f or rng.random() < 0.5) else c for c in cols]
            st["focus"] = names[cols.index(f)]
            items = [(n, schema[c]) for n, c in zip(names, cols)]
            schema.clear()
            schema.update(items)
            st["total"] = False
            return {"k": "toDF", "names": names}
        if kind == "dropna":
            if "num_nulls" in cols:
                return None
            st["total"] = False
            return {"k": "dropna", "howAll": rng.random() < 0.3, "thresh": None, "sub": [f]}
        if kind == "unpivot":
            if "var" in cols or "val" in cols:
                return None
            rest = [c for c in cols if c != f]
            ids = rng.sample(rest, rng.randint(0, len(rest))) if rest else []
            items = [(c, schema[c]) for c in ids] + [("var", "str"), ("val", "int")]
            schema.clear()
            schema.update(items)
            st["total"], st["focus"] = False, "val"
            return {"k": "unpivot", "ids": ids, "vals": [f], "var": "var", "val": "val"}
    if kind == "where":
        st["total"] = False
        ints = [c for c in cols if schema[c] == "int"]
        if st.get("keep_rows") and ints and rng.random() < 0.6:
            # a filter that lets most rows through: the block gets its WHERE clause and the rows stay to tell what else happened
            return {"k": "where", "p": ("bin", "or", g.bool_expr(1), ("bin", "ge", ("col", rng.choice(ints)), ("lit", rng.choice([-1, 0]))))}
        return {"k": "where", "p": g.bool_expr(2)}
    if kind == "select":
        n = rng.randint(1, 3)
        items, names = [], []
        for _ in range(n):
            if rng.random() < 0.45:
                c = rng.choice(cols)
                if c in names:
                    continue
                items.append([c, ("col", c), schema[c]])
                names.append(c)
            else:
                e, ty = g.any_expr(2)
                nm = rng.choice([x for x in NEW_NAMES + cols if x not in names])
                items.append([nm, e, ty])
                names.append(nm)
        if not items:
            c = cols[0]
            items = [[c, ("col", c), schema[c]]]
        schema.clear()
        for nm, _, ty in items:
            schema[nm] = ty
        st["total"] = False
        return {"k": "select", "items": [[nm, e] for nm, e, _ in items]}
    if kind == "withColumn":
        e, ty = g.any_expr(2)
        nm = rng.choice(cols) if rng.random() < 0.5 else rng.choice([x for x in NEW_NAMES if x not in cols] or cols)
        schema[nm] = ty
        st["total"] = False
        return {"k": "withColumn", "n": nm, "e": e}
    if kind == "withColumnRenamed":
        fresh = [x for x in NEW_NAMES if x not in cols]
        if not fresh:
            return None
        a, b = rng.choice(cols), rng.choice(fresh)
        items = [(b if c == a else c, ty) for c, ty in schema.items()]
        schema.clear()
        schema.update(items)
        st["total"] = False
        return {"k": "withColumnRenamed", "a": a, "b": b}
    if kind == "drop":
        if len(cols) < 2:
            return None
        # prefer a column in which two rows of the table differ while agreeing everywhere else: dropping it makes them equal
        nd = [c for c in st.get("nd", []) if c in cols]
        c = rng.choice(nd) if nd and rng.random() < 0.75 else rng.choice(cols)
        del schema[c]
        st["total"] = False
        return {"k": "drop", "ns": [c]}
    if kind == "distinct":
        st["total"] = False
        return {"k": "distinct"}
    if kind == "orderBy":
        total = more_limits or rng.random() < (0.3 if st.get("keep_rows") else 0.7)
        ks = cols[:]
        rng.shuffle(ks)
        if not total:
            ks = ks[: rng.randint(1, max(1, len(ks) - 1))]
            total = len(ks) == len(cols)
        keys = []
        for c in ks:
            desc = rng.random() < 0.4
            nf = (not desc) if rng.random() < 0.6 else (rng.random() < 0.5)
            keys.append({"name": c, "desc": desc, "nullsFirst": nf})
        st["total"] = total
        st["order_total_last"] = total
        return {"k": "orderBy", "keys": keys}
    if kind == "limit":
        if st.get("total"):
            n = rng.choice([0, 1, 2, 3, 4, 5, 7, 10, 12, BIG])
        else:
            n = rng.choice([0, BIG, BIG + 1])
        if st.get("keep_rows") and rng.random() < 0.6:
            n = rng.choice([BIG, BIG + 1])  # the block gets its LIMIT clause and the rows stay to tell what else happened to it
        # a truncating limit keeps the prefix of a total order: still deterministic for a following limit
        st["total"] = st.get("total", False)
        return {"k": "limit", "n": n}
    if kind == "fillna":
        ty = rng.choice(sorted(set(schema.values())))
        sub = [c for c in cols if schema[c] == ty]
        if rng.random() < 0.5 and len(sub) > 1:
            sub = rng.sample(sub, rng.randint(1, len(sub)))
        st["total"] = False
        if st.get("keep_rows") and rng.random() < 0.5:
            # a value the data already has: filling makes rows equal that were not (a DISTINCT before or after sees the difference)
            return {"k": "fillna", "v": rng.choice([0, 1, 2]) if ty == "int" else rng.choice(["a", "b", ""]), "sub": sub}
        return {"k": "fillna", "v": 7 if ty == "int" else "zz", "sub": sub}
    if kind == "replace":
        ty = rng.choice(sorted(set(schema.values())))
        sub = [c for c in cols if schema[c] == ty]
        if rng.random() < 0.5 and len(sub) > 1:
            sub = rng.sample(sub, rng.randint(1, len(sub)))
        st["total"] = False
        if focus:
            ty, sub = "int", ([focus] if rng.random() < 0.6 else [c for c in cols if schema[c] == "int"])
        # one pair (scalar form), or several (list / dict form); chains (1->2, 2->3) and swaps (1->2, 2->1) make a
        # simultaneous lookup differ from a cascade of single replacements
        olds = [0, 1, 2, 3] if ty == "int" else ["a", "b", ""]
        news = [9, 0, -1, 1, 2, 3] if ty == "int" else ["q", "a", "b", ""]
        n = 1 if rng.random() < 0.45 else rng.randint(2, 3)
        ks = rng.sample(olds, min(n, len(olds)))
        pairs = []
        for i, o in enumerate(ks):
            if len(ks) > 1 and rng.random() < 0.6:
                pairs.append([o, ks[(i + 1) % len(ks)]])  # chain / cycle through the keys
            else:
                pairs.append([o, rng.choice(news)])
        return {"k": "replace", "pairs": pairs, "form": rng.choice(["dict", "list"]) if len(pairs) > 1 else rng.choice(["scalar", "dict", "list"]), "sub": sub}
    if kind == "toDF":
        pool = [x for x in NEW_NAMES + ["c1", "c2", "c3", "c4", "c5", "c6"] if True]
        rng.shuffle(pool)
        if rng.random() < 0.4:
            names = [c if rng.random() < 0.5 else pool.pop() for c in cols]
            if len(set(names)) != len(names):
                names = [pool.pop() for _ in cols]
        else:
            names = [pool.pop() for _ in cols]
        items = [(n, schema[c]) for n, c in zip(names, cols)]
        schema.clear()
        schema.update(items)
        st["total"] = False
        return {"k": "toDF", "names": names}
    if kind == "dropna":
        if "num_nulls" in cols:
            return None
        sub = rng.sample(cols, rng.randint(1, len(cols)))
        st["total"] = False
        mode = rng.random()
        if mode < 0.4:
            return {"k": "dropna", "howAll": False, "thresh": None, "sub": sub}
        if mode < 0.7:
            return {"k": "dropna", "howAll": True, "thresh": None, "sub": sub}
        return {"k": "dropna", "howAll": False, "thresh": rng.randint(1, len(sub)), "sub": sub}
    if kind == "unpivot":
        ints = [c for c in cols if schema[c] == "int"]
        if len(ints) < 1 or "var" in cols or "val" in cols:
            return None
        nv = rng.randint(1, len(ints))
        vals = rng.sample(ints, nv)
        rest = [c for c in cols if c not in vals]
        ids = rng.sample(rest, rng.randint(0, len(rest))) if rest else []
        items = [(c, schema[c]) for c in ids] + [("var", "str"), ("val", "int")]
        schema.clear()
        schema.update(items)
        st["total"] = False
        return {"k": "unpivot", "ids": ids, "vals": vals, "var": "var", "val": "val"}
    raise ValueError(kind)


def gen_table_nd(rng: random.Random, schema: t.Dict[str, str], max_rows: int = 6, p: float = 0.85) -> t.List[t.List[t.Any]]:
    """a table with *near-duplicates*: for (most) columns, a copy of some row that differs from it in that column only — so
    that de-duplicating before a projection and after it give different bags, and a step that reads the wrong version of
    one column meets rows that agree everywhere else"""
    rows = X.gen_table(rng, schema, max_rows=max_rows)
    if rows:
        for j, ty in enumerate(schema.values()):
            if rng.random() < p:
                r = list(rng.choice(rows))
                r[j] = rng.choice([v for v in (X.INT_POOL if ty == "int" else X.STR_POOL) if v != r[j]])
                rows.insert(rng.randrange(len(rows) + 1), r)
    return rows


def near_dup_cols(schema: t.Dict[str, str], rows: t.List[t.List[t.Any]]) -> t.List[str]:
    """the columns c such that two rows differ in c and agree in every other column"""
    names = list(schema)
    out = []
    for j, c in enumerate(names):
        seen: t.Dict[str, t.Set[str]] = {}
        for r in rows:
            seen.setdefault(json.dumps(r[:j] + r[j + 1 :]), set()).add(json.dumps(r[j]))
        if any(len(v) > 1 for v in seen.values()):
            out.append(c)
    return out


def gen_program(rng: random.Random, kinds: t.Sequence[str], focus: bool = False, neardup: bool = False, keep_rows: bool = False) -> t.Optional[dict]:
    """neardup / keep_rows are C01's own (other checks call this with the defaults and get the programs they always got)"""
    schema = {"x": "int", "y": "int", "s": "str"}
    if rng.random() < 0.3:
        schema = {"x": "int", "y": "int"}
    base_schema = dict(schema)
    rows = gen_table_nd(rng, schema, max_rows=rng.choice([6, 6, 13])) if neardup else X.gen_table(rng, schema, max_rows=rng.choice([6, 6, 13]))
    if keep_rows and not rows:
        rows = gen_table_nd(rng, schema, max_rows=6) or [[1 if ty == "int" else "a" for ty in schema.values()]]
    st: t.Dict[str, t.Any] = {"total": False, "nd": near_dup_cols(schema, rows) if neardup else [], "keep_rows": keep_rows}
    if focus:
        st["focus"] = rng.choice(["x", "y"])
    steps = []
    for i, k in enumerate(kinds):
        more_limits = any(kk == "limit" for kk in kinds[i + 1 : i + 2])
        s = gen_step(rng, k, schema, st, more_limits)
        if s is None:
            return None
        steps.append(s)
    return {"schema": base_schema, "rows": rows, "steps": steps}


# ------------------------------------------------------------------------------------------------
# encoders
# ------------------------------------------------------------------------------------------------


def pairs_of(s: dict) -> t.List[t.List[t.Any]]:
    """the (old, new) pairs of a replace step (older corpus files carry one pair as old/new)"""
    if "pairs" in s:
        return [list(p) for p in s["pairs"]]
    return [[s["old"], s["new"]]]


def step_to_lean(s: dict) -> t.Any:
    k = s["k"]
    if k == "where":
        return {"wher": {"p": X.to_lean(tuple_(s["p"]))}}
    if k == "select":
        return {"select": {"items": [[n, X.to_lean(tuple_(e))] for n, e in s["items"]]}}
    if k == "withColumn":
        return {"withColumn": {"n": s["n"], "e": X.to_lean(tuple_(s["e"]))}}
    if k == "withColumnRenamed":
        return {"withColumnRenamed": {"a": s["a"], "b": s["b"]}}
    if k == "drop":
        return {"drop": {"ns": s["ns"]}}
    if k == "distinct":
        return "distinct"
    if k == "orderBy":
        return {"orderBy": {"keys": s["keys"]}}
    if k == "limit":
        return {"limit": {"n": s["n"]}}
    if k == "fillna":
        return {"fillna": {"v": vlib.lval(s["v"]), "sub": s["sub"]}}
    if k == "replace":
        return {"replace": {"pairs": [[vlib.lval(o), vlib.lval(n)] for o, n in pairs_of(s)], "sub": s["sub"]}}
    if k == "toDF":
        return {"toDF": {"names": s["names"]}}
    if k == "dropna":
        return {"dropna": {"howAll": s["howAll"], "thresh": s["thresh"], "sub": s["sub"]}}
    if k == "unpivot":
        return {"unpivot": {"ids": s["ids"], "vals": s["vals"], "var": s["var"], "val": s["val"]}}
    raise ValueError(k)


def tuple_(e: t.Any) -> tuple:
    """JSON round trip turns tuples into lists"""
    if isinstance(e, (list, tuple)):
        return tuple(tuple_(x) if isinstance(x, (list, tuple)) else x for x in e)
    return e


def case_to_lean(i: int, c: dict) -> dict:
    return {"case": i, "table": X.table_to_lean(list(c["schema"]), c["rows"]), "steps": [step_to_lean(s) for s in c["steps"]]}


def show_step(s: dict) -> str:
    k = s["k"]
    if k == "where":
        return f"where({X.show(tuple_(s['p']))})"
    if k == "select":
        return "select(" + ", ".join(f"{X.show(tuple_(e))}.alias({n!r})" for n, e in s["items"]) + ")"
    if k == "withColumn":
        return f"withColumn({s['n']!r}, {X.show(tuple_(s['e']))})"
    if k == "withColumnRenamed":
        return f"withColumnRenamed({s['a']!r}, {s['b']!r})"
    if k == "drop":
        return f"drop({', '.join(map(repr, s['ns']))})"
    if k == "distinct":
        return "distinct()"
    if k == "orderBy":
        return "orderBy(" + ", ".join(f"{x['name']} {'desc' if x['desc'] else 'asc'} nulls {'first' if x['nullsFirst'] else 'last'}" for x in s["keys"]) + ")"
    if k == "limit":
        return f"limit({s['n']})"
    if k == "fillna":
        return f"fillna({s['v']!r}, subset={s['sub']})"
    if k == "replace":
        ps = pairs_of(s)
        form = s.get("form", "scalar")
        if form == "scalar" and len(ps) == 1:
            return f"replace({ps[0][0]!r}, {ps[0][1]!r}, subset={s['sub']})"
        if form == "list":
            return f"replace({[o for o, _ in ps]!r}, {[n for _, n in ps]!r}, subset={s['sub']})"
        return f"replace({dict((o, n) for o, n in ps)!r}, subset={s['sub']})"
    if k == "toDF":
        return "toDF(" + ", ".join(map(repr, s["names"])) + ")"
    if k == "dropna":
        return f"dropna(how={'all' if s['howAll'] else 'any'!r}, thresh={s['thresh']}, subset={s['sub']})"
    if k == "unpivot":
        return f"unpivot({s['ids']}, {s['vals']}, {s['var']!r}, {s['val']!r})"
    return str(s)


def show_case(c: dict) -> str:
    return f"df{list(c['schema'])}{c['rows']}." + ".".join(show_step(s) for s in c["steps"])


# ------------------------------------------------------------------------------------------------
# the real implementation
# ------------------------------------------------------------------------------------------------

_SESSION = None


def session():
    global _SESSION
    if _SESSION is None:
        _SESSION = vlib.fresh_duckdb_session()
    return _SESSION


# scope hypotheses that name a defect of the engine (third party): the model and the specification agree on such programs,
# so "the model predicts the implementation" cannot be asked; instead the engine itself must return the specification's
# rows for the same statement when it runs single-threaded — sqlframe's statement is then right and the deviation is the
# engine's parallel executor.  Anything else on such a program is still a violation.
ENGINE_H = {"H_engineNestedUnionOverSort"}


def engine_pattern(c: dict) -> bool:
    """Python mirror of Lean `nestedUnionOverSort` (used only to keep the relational side streams off the engine defect)"""
    n = 0
    for s in c["steps"]:
        wide = s["k"] == "unpivot" and len(s["vals"]) >= 2
        if n == 0 and s["k"] == "orderBy":
            n = 1
        elif n == 1 and wide:
            n = 2
        elif n == 2 and wide:
            return True
    return False


def run_impl_single(c: dict) -> dict:
    """the same chain with the engine restricted to one thread"""
    try:
        conn = session()._conn
        before = conn.execute("SELECT current_setting('threads')").fetchone()[0]
        conn.execute("SET threads=1")
    except Exception as e:  # noqa
        return {"err": f"cannot restrict the engine to one thread: {type(e).__name__}: {str(e)[:120]}"}
    try:
        return run_impl(c)
    finally:
        conn.execute(f"SET threads={int(before)}")


def isolated_map(fn: t.Callable[[t.Any], t.Any], items: t.List[t.Any]) -> t.List[t.Any]:
    """fresh children while this process has not opened a DuckDB connection itself; inline once it has (forking then hangs)"""
    if not items:
        return []
    if _SESSION is not None:
        return [fn(x) for x in items]
    return fresh_map(fn, items)


def apply_step(df: t.Any, s: dict, F: t.Any) -> t.Any:
    k = s["k"]
    if k == "where":
        return df.where(X.to_column(tuple_(s["p"]), F))
    if k == "select":
        return df.select(*[X.to_column(tuple_(e), F).alias(n) for n, e in s["items"]])
    if k == "withColumn":
        return df.withColumn(s["n"], X.to_column(tuple_(s["e"]), F))
    if k == "withColumnRenamed":
        return df.withColumnRenamed(s["a"], s["b"])
    if k == "drop":
        return df.drop(*s["ns"])
    if k == "distinct":
        return df.distinct()
    if k == "orderBy":
        cols = []
        for key in s["keys"]:
            c = F.col(key["name"])
            d, nf = key["desc"], key["nullsFirst"]
            if not d and nf:
                cols.append(c.asc() if hash(key["name"]) % 2 else key["name"])
            elif not d and not nf:
                cols.append(c.asc_nulls_last())
            elif d and not nf:
                cols.append(c.desc())
            else:
                cols.append(c.desc_nulls_first())
        return df.orderBy(*cols)
    if k == "limit":
        return df.limit(s["n"])
    if k == "fillna":
        return df.fillna(s["v"], subset=s["sub"])
    if k == "replace":
        ps = pairs_of(s)
        form = s.get("form", "scalar")
        if form == "scalar" and len(ps) == 1:
            return df.replace(ps[0][0], ps[0][1], subset=s["sub"])
        if form == "list":
            return df.replace([o for o, _ in ps], [n for _, n in ps], subset=s["sub"])
        return df.replace({o: n for o, n in ps}, subset=s["sub"])
    if k == "toDF":
        return df.toDF(*s["names"])
    if k == "dropna":
        return df.dropna(how="all" if s["howAll"] else "any", thresh=s["thresh"], subset=s["sub"])
    if k == "unpivot":
        return df.unpivot(s["ids"], s["vals"], s["var"], s["val"])
    raise ValueError(k)


def shape_of_sql(text: str) -> t.List[dict]:
    """the statement read back: per CTE (the first is createDataFrame's own SELECT … FROM VALUES), then the final block — select names, WHERE present,
    DISTINCT, ORDER BY keys, LIMIT; a UNION CTE (unpivot) by its number of branches"""
    import sqlglot
    from sqlglot import exp

    tree = sqlglot.parse_one(text, dialect="duckdb")
    ctes = list(tree.args["with"].expressions) if tree.args.get("with") else []
    body = tree.copy()
    body.set("with", None)

    def one(q: t.Any) -> dict:
        if isinstance(q, exp.SetOperation):
            n, cur = 1, q
            while isinstance(cur.this, exp.SetOperation):
                n, cur = n + 1, cur.this
            return {"kind": "unpivot", "branches": n + 1, "distinct": bool(q.args.get("distinct"))}
        order = q.args.get("order")
        keys = []
        for o in order.expressions if order else []:
            k = o.this if isinstance(o, exp.Ordered) else o
            keys.append([k.name if isinstance(k, exp.Column) else k.sql(), bool(isinstance(o, exp.Ordered) and o.args.get("desc"))])
        lim = q.args.get("limit")
        return {"kind": "block", "sel": [e.alias_or_name for e in q.expressions], "where": q.args.get("where") is not None,
                "distinct": q.args.get("distinct") is not None, "order": keys,
                "limit": int(lim.expression.name) if lim is not None else None}

    return [one(c.this) for c in ctes] + [one(body)]


def run_impl(c: dict) -> dict:
    from sqlframe.duckdb import functions as F

    try:
        df = X.make_df(session(), c["schema"], c["rows"])
        for s in c["steps"]:
            df = apply_step(df, s, F)
        cols = list(df.columns)
        rows = [[plain(v) for v in r] for r in df.collect()]
        try:
            shape = shape_of_sql(df.sql(dialect="duckdb", optimize=False)) if c["rows"] else None
        except Exception as e:  # noqa
            shape = f"unreadable: {type(e).__name__}: {str(e)[:120]}"
        return {"cols": cols, "rows": rows, "shape": shape}
    except Exception as e:  # noqa
        return {"err": f"{type(e).__name__}: {str(e)[:200]}"}


def order_checked(c: dict) -> bool:
    """is the final row order determined (last orderBy total, only where/limit after it)?"""
    steps = c["steps"]
    idx = [i for i, s in enumerate(steps) if s["k"] == "orderBy"]
    if not idx:
        return False
    i = idx[-1]
    ncols_at = None
    # total = as many keys as there are columns at that point; recompute the schema size
    schema = list(c["schema"])
    for s in steps[:i]:
        k = s["k"]
        if k == "select":
            schema = [n for n, _ in s["items"]]
        elif k == "withColumn" and s["n"] not in schema:
            schema.append(s["n"])
        elif k == "withColumnRenamed":
            schema = [s["b"] if x == s["a"] else x for x in schema]
        elif k == "drop":
            schema = [x for x in schema if x not in s["ns"]]
        elif k == "toDF":
            schema = list(s["names"])
        elif k == "unpivot":
            schema = s["ids"] + [s["var"], s["val"]]
    if len(steps[i]["keys"]) != len(schema):
        return False
    return all(s["k"] in ("limit",) for s in steps[i + 1 :])


def same(a: dict, b: dict, ordered: bool) -> bool:
    if "err" in a or "err" in b:
        return False
    if a["cols"] != b["cols"]:
        return False
    if ordered:
        return a["rows"] == b["rows"]
    return bag(a["rows"]) == bag(b["rows"])


def expr_refs(e: t.Any) -> t.Set[str]:
    e = tuple_(e)
    if e[0] == "col":
        return {e[1]}
    out: t.Set[str] = set()
    for x in e[1:]:
        if isinstance(x, tuple):
            out |= expr_refs(x)
    return out


def expr_type(e: t.Any, types: t.Dict[str, str]) -> str:
    e = tuple_(e)
    k = e[0]
    if k == "col":
        return types.get(e[1], "?")
    if k == "lit":
        return "str" if isinstance(e[1], str) else ("bool" if isinstance(e[1], bool) else "int")
    if k == "bin":
        return "int" if e[1] in ("add", "sub", "mul") else "bool"
    if k == "neg":
        return "int"
    if k in ("not", "isNull"):
        return "bool"
    if k == "ite":
        return expr_type(e[2], types)
    return "?"


def well_typed(c: dict) -> bool:
    """fillna values match the type of every column they fill (PySpark ignores a mismatch, the engine does not)"""
    types = dict(c["schema"])
    for s in c["steps"]:
        k = s["k"]
        if k == "select":
            types = {n: expr_type(e, types) for n, e in s["items"]}
        elif k == "withColumn":
            types[s["n"]] = expr_type(s["e"], types)
        elif k == "withColumnRenamed":
            types = {(s["b"] if n == s["a"] else n): ty for n, ty in types.items()}
        elif k == "drop":
            types = {n: ty for n, ty in types.items() if n not in s["ns"]}
        elif k == "fillna":
            want = "str" if isinstance(s["v"], str) else "int"
            if any(types.get(n) != want for n in s["sub"]):
                return False
        elif k == "replace":
            ps = pairs_of(s)
            if not ps:
                return False
            want = "str" if isinstance(ps[0][0], str) else "int"
            if any(types.get(n) != want for n in s["sub"]) or any(isinstance(o, str) != (want == "str") or isinstance(n, str) != (want == "str") for o, n in ps):
                return False
            if len({o for o, _ in ps}) != len(ps):
                return False
        elif k == "toDF":
            types = {n: ty for n, ty in zip(s["names"], types.values())}
        elif k == "unpivot":
            if any(types.get(v) != "int" for v in s["vals"]) or any(c not in types for c in s["ids"]):
                return False
            types = {**{c: types[c] for c in s["ids"]}, s["var"]: "str", s["val"]: "int"}
    return True


def valid(c: dict) -> bool:
    """does every step only mention columns that exist at that point (what PySpark requires)?"""
    if not well_typed(c):
        return False
    cols = list(c["schema"])
    for s in c["steps"]:
        k = s["k"]
        if k == "where":
            if not expr_refs(s["p"]) <= set(cols):
                return False
        elif k == "select":
            names = [n for n, _ in s["items"]]
            if len(set(names)) != len(names) or any(not expr_refs(e) <= set(cols) for _, e in s["items"]):
                return False
            cols = names
        elif k == "withColumn":
            if not expr_refs(s["e"]) <= set(cols):
                return False
            if s["n"] not in cols:
                cols = cols + [s["n"]]
        elif k == "withColumnRenamed":
            if s["a"] not in cols or s["b"] in cols:
                return False
            cols = [s["b"] if x == s["a"] else x for x in cols]
        elif k == "drop":
            if not set(s["ns"]) <= set(cols) or len(cols) - len(s["ns"]) < 1:
                return False
            cols = [x for x in cols if x not in s["ns"]]
        elif k == "orderBy":
            if not s["keys"] or not {x["name"] for x in s["keys"]} <= set(cols):
                return False
        elif k in ("fillna", "replace"):
            if not set(s["sub"]) <= set(cols):
                return False
        elif k == "toDF":
            if len(s["names"]) != len(cols) or len(set(s["names"])) != len(s["names"]):
                return False
            cols = list(s["names"])
        elif k == "unpivot":
            if not s["vals"] or not set(s["ids"] + s["vals"]) <= set(cols) or set(s["ids"]) & set(s["vals"]):
                return False
            if len(set(s["ids"] + [s["var"], s["val"]])) != len(s["ids"]) + 2:
                return False
            cols = s["ids"] + [s["var"], s["val"]]
        elif k == "dropna":
            if not s["sub"] or not set(s["sub"]) <= set(cols) or "num_nulls" in cols:
                return False
            if s["thresh"] is not None and not (1 <= s["thresh"] <= len(s["sub"])):
                return False
    return True


# ------------------------------------------------------------------------------------------------
# shrinking
# ------------------------------------------------------------------------------------------------


def shrink(c: dict, failing: t.Callable[[dict], bool], rounds: int = 12) -> dict:
    """greedy 1-minimisation; `failing` takes an evaluated result; candidates are evaluated in batches"""
    best = c
    for _ in range(rounds):
        cands = [dict(best, steps=best["steps"][:i] + best["steps"][i + 1 :]) for i in range(len(best["steps"])) if len(best["steps"]) > 1]
        cands += [dict(best, rows=best["rows"][:i] + best["rows"][i + 1 :]) for i in range(len(best["rows"]))]
        cands = [x for x in cands if valid(x) and not has_risky_limit(x)]
        if not cands:
            break
        res = evaluate(cands, workers=1)
        nxt = next((r["case"] for r in res if failing(r)), None)
        if nxt is None:
            break
        best = nxt
    return best


def has_risky_limit(c: dict) -> bool:
    """a truncating limit that is not directly preceded by a total orderBy / limit chain is not deterministic"""
    cols = len(c["schema"])
    ncols = cols
    total = False
    names = list(c["schema"])
    for s in c["steps"]:
        k = s["k"]
        if k == "orderBy":
            total = len(s["keys"]) == len(names)
        elif k == "limit":
            if not total and 0 < s["n"] < BIG:
                return True
        else:
            total = False
            if k == "select":
                names = [n for n, _ in s["items"]]
            elif k == "withColumn" and s["n"] not in names:
                names = names + [s["n"]]
            elif k == "withColumnRenamed":
                names = [s["b"] if x == s["a"] else x for x in names]
            elif k == "drop":
                names = [x for x in names if x not in s["ns"]]
            elif k == "toDF":
                names = list(s["names"])
            elif k == "unpivot":
                names = s["ids"] + [s["var"], s["val"]]
    return False


# ------------------------------------------------------------------------------------------------
# the check
# ------------------------------------------------------------------------------------------------


SELECT_CLASS = [k for k in KINDS if k not in ("where", "orderBy", "limit")]


def block_state_cases(rng: random.Random, thorough: bool) -> t.List[dict]:
    """every method applied to every state of the open SELECT.  The state of a block is which of its clauses are filled; it is
    reached by an ascending prefix [where]? [one SELECT-class step]? [orderBy]? [limit]? (any other order starts a new block).
    Tables carry near-duplicates and half of the programs keep every step on one column, so that a clause landing in the wrong
    block — or a projection folded into a block that already de-duplicates, sorts or cuts — changes the bag of rows."""
    out = []
    mids = [None] + (SELECT_CLASS if thorough else ["select", "withColumn", "distinct"])
    for w in (False, True):
        for mid in mids:
            for o in (False, True):
                for lim in (False, True):
                    prefix = (["where"] if w else []) + ([mid] if mid else []) + (["orderBy"] if o else []) + (["limit"] if lim else [])
                    for k in KINDS:
                        for rep in range(3 if thorough else 2):
                            c = gen_program(rng, prefix + [k], focus=(rep == 1), neardup=True, keep_rows=True)
                            if c:
                                c["origin"] = "block-state"
                                out.append(c)
    return out


def cases_for(ctx: Ctx) -> t.List[dict]:
    cases: t.List[dict] = []
    corpus_dir = os.path.join(vlib.VERIF, "corpus", ID)
    if os.path.isdir(corpus_dir):
        for fn in sorted(os.listdir(corpus_dir)):
            if fn.endswith(".json"):
                c = json.load(open(os.path.join(corpus_dir, fn)))
                if "scenario" in c:
                    continue  # several chains in one interpreter: scenarios_for
                c["origin"] = "corpus:" + fn
                cases.append(c)
    depth = 4 if ctx.thorough else 2  # the property names length 4 for the exhaustive part
    for L in range(1, depth + 1):
        for kinds in itertools.product(KINDS, repeat=L):
            for _ in range(4 if L == 1 else (2 if L == 2 else 1)):
                c = gen_program(ctx.rng, kinds, neardup=ctx.rng.random() < 0.4)
                if c:
                    c["origin"] = f"exhaustive-kinds-L{L}"
                    cases.append(c)
    # focused family: every kind triple (quick: over the kinds that share a SELECT block or rewrite values), all steps
    # touching one column — a step placed in the wrong block shows up only when its neighbours use the same column
    fk = KINDS if ctx.thorough else ["where", "select", "withColumn", "orderBy", "limit", "fillna", "replace", "distinct"]
    for kinds in itertools.product(fk, repeat=3):
        for _ in range(2 if ctx.thorough else 1):
            c = gen_program(ctx.rng, kinds, focus=True, neardup=ctx.rng.random() < 0.4)
            if c:
                c["origin"] = "focused-kinds-L3"
                cases.append(c)
    cases += block_state_cases(ctx.rng, ctx.thorough)
    # targeted family: consecutive limits (merged inside one block) for every pair from a grid, on a 13-row table
    grid = [0, 1, 2, 5, 7, 10, 12, 50]
    rows13 = [[i % 7, (i * 5) % 11] for i in range(13)]
    for a in grid:
        for b in grid:
            cases.append({"schema": {"x": "int", "y": "int"}, "rows": rows13, "origin": "limit-pairs",
                          "steps": [{"k": "orderBy", "keys": [{"name": "x", "desc": False, "nullsFirst": True}, {"name": "y", "desc": True, "nullsFirst": False}]},
                                    {"k": "limit", "n": a}, {"k": "limit", "n": b}]})
    n_rand = 4000 if ctx.thorough else 300
    for _ in range(n_rand):
        L = ctx.rng.randint(3, 10)
        kinds = [ctx.rng.choice(KINDS) for _ in range(L)]
        c = gen_program(ctx.rng, kinds, neardup=ctx.rng.random() < 0.4)
        if c:
            c["origin"] = "random"
            cases.append(c)
    return cases


def norm_shape(sh: t.Any) -> t.Any:
    sh = json.loads(json.dumps(sh))
    if isinstance(sh, list):
        for i, b in enumerate(sh):
            # a one-column unpivot is a single SELECT (no UNION): it reads back as a plain block with the output names
            if isinstance(b, dict) and b.get("kind") == "unpivot" and b.get("branches") == 1 and i + 1 < len(sh):
                sh[i] = {"kind": "block", "sel": sh[i + 1].get("sel"), "where": False, "distinct": False, "order": [], "limit": None}
    return sh


def evaluate(cases: t.List[dict], workers: int = 0) -> t.List[dict]:
    outs = vlib.run_driver("C01", [case_to_lean(i, c) for i, c in enumerate(cases)])
    impls = isolated_map(run_impl, cases) if workers == -1 else vlib.parallel_map(run_impl, cases, workers)
    res = []
    for c, o, impl in zip(cases, outs, impls):
        if "err" in o:
            raise RuntimeError(f"driver rejected a case: {o}")
        ordered = order_checked(c)
        res.append(
            {
                "case": c,
                "impl": impl,
                "model": o["model"],
                "spec": o["spec"],
                "scope": o["scope"],
                "ordered": ordered,
                "impl_eq_model": same(impl, o["model"], ordered),
                "impl_eq_spec": same(impl, o["spec"], ordered),
                "model_shape": o.get("shape"),
                "shape_eq": ("shape" not in o) or impl.get("shape") is None or "err" in impl or norm_shape(impl.get("shape")) == norm_shape(o["shape"]),
                "engine_only": False,
            }
        )
    # a mismatch on a program in an engine scope: is it the engine's (right statement, wrong parallel execution)?
    sus = [r for r in res if not r["impl_eq_spec"] and any(h in ENGINE_H for h in r["scope"])]
    for r, single in zip(sus, isolated_map(run_impl_single, [r["case"] for r in sus])):
        r["impl_single_thread"] = single
        r["engine_only"] = same(single, r["spec"], r["ordered"]) and same(r["model"], r["spec"], r["ordered"]) and r["shape_eq"]
    return res


def is_known(r: dict, known: t.Dict[str, dict]) -> bool:
    """a failure is a known finding iff every violated H_ hypothesis is listed open and either the model predicts the implementation
    (a defect of sqlframe that the model reproduces) or the hypotheses are engine scopes and the engine, single-threaded, returns
    the specification's rows for the same statement"""
    hs = [h for h in r["scope"] if h.startswith("H_")]  # D_* entries mark theorem coverage, not defects
    if not hs or not all(h in known for h in hs):
        return False
    if all(h in ENGINE_H for h in hs):
        return bool(r.get("engine_only"))
    return r["impl_eq_model"]


# ------------------------------------------------------------------------------------------------
# sort keys that are expressions (outside the chain theorem, whose keys are column names): the implementation's
# orderBy(expr…) against the specification of withColumn(key) -> orderBy(key, every column) -> drop(key)
# ------------------------------------------------------------------------------------------------


def cols_after(c: dict) -> t.Dict[str, str]:
    """names and types of the columns after the steps"""
    types = dict(c["schema"])
    for s in c["steps"]:
        k = s["k"]
        if k == "select":
            types = {n: expr_type(tuple_(e), types) for n, e in s["items"]}
        elif k == "withColumn":
            types[s["n"]] = expr_type(tuple_(s["e"]), types)
        elif k == "withColumnRenamed":
            types = {(s["b"] if n == s["a"] else n): ty for n, ty in types.items()}
        elif k == "drop":
            types = {n: ty for n, ty in types.items() if n not in s["ns"]}
        elif k == "toDF":
            types = {n: ty for n, ty in zip(s["names"], types.values())}
        elif k == "unpivot":
            types = {**{n: types[n] for n in s["ids"]}, s["var"]: "str", s["val"]: "int"}
    return types


def exprsort_case(rng: random.Random, kinds: t.Sequence[str]) -> t.Optional[dict]:
    c = gen_program(rng, kinds, focus=True)
    if not c or not valid(c) or has_risky_limit(c):
        return None
    types = cols_after(c)
    ints = [n for n, ty in types.items() if ty == "int"]
    if not ints or any(n.startswith("__k") for n in types):
        return None
    keys = []
    for i in range(rng.choice([1, 1, 2])):
        f = rng.choice(ints)
        e = rng.choice([("bin", "add", ("col", f), ("lit", 1)), ("neg", ("col", f)), ("bin", "sub", ("lit", 3), ("col", f)),
                        ("bin", "mul", ("col", f), ("col", rng.choice(ints))), ("ite", ("isNull", ("col", f)), ("lit", 0), ("neg", ("col", f)))])
        desc = rng.random() < 0.4
        keys.append({"e": e, "desc": desc, "nullsFirst": (not desc) if rng.random() < 0.7 else (rng.random() < 0.5)})
    c["sortkeys"] = keys
    c["origin"] = "expression-sort-keys"
    return c


def exprsort_moved_cases(rng: random.Random) -> t.List[dict]:
    """sort expressions over a name that the open block *moved* to another input column (swap by select / toDF / a pair
    of renames), overwrote, or left alone: the engine would read the input column of that name"""
    out = []
    schema = {"x": "int", "y": "int"}
    swaps = {
        "select-swap": [{"k": "select", "items": [["x", ["col", "y"]], ["y", ["col", "x"]]]}],
        "toDF-swap": [{"k": "toDF", "names": ["y", "x"]}],
        "select-move": [{"k": "select", "items": [["y", ["col", "x"]], ["w", ["col", "y"]]]}],
        "withColumn-copy": [{"k": "withColumn", "n": "x", "e": ["col", "y"]}],
        "withColumn-neg": [{"k": "withColumn", "n": "y", "e": ["neg", ["col", "y"]]}],
        "rename-chain": [{"k": "withColumnRenamed", "a": "x", "b": "w"}, {"k": "withColumnRenamed", "a": "y", "b": "x"}],
        "identity-select": [{"k": "select", "items": [["y", ["col", "y"]], ["x", ["col", "x"]]]}],
        "where-then-swap": [{"k": "where", "p": ["isNull", ["col", "s0"]]}][:0] + [{"k": "select", "items": [["x", ["col", "y"]], ["y", ["col", "x"]]]}, {"k": "distinct"}][:1],
    }
    for name, steps in swaps.items():
        for _ in range(2):
            rows = X.gen_table(rng, schema, max_rows=7)
            c = {"schema": dict(schema), "rows": rows, "steps": json.loads(json.dumps(steps))}
            if not valid(c):
                continue
            types = cols_after(c)
            ints = [n for n, ty in types.items() if ty == "int"]
            f = rng.choice(ints)
            e = rng.choice([("bin", "add", ("col", f), ("lit", 1)), ("neg", ("col", f)), ("bin", "sub", ("col", ints[0]), ("col", ints[-1]))])
            desc = rng.random() < 0.5
            c["sortkeys"] = [{"e": e, "desc": desc, "nullsFirst": not desc}]
            c["origin"] = f"expression-sort-keys:moved:{name}"
            out.append(c)
    return out


def exprsort_to_lean(i: int, c: dict) -> dict:
    cols = list(cols_after(c))
    extra = [{"k": "withColumn", "n": f"__k{j}", "e": k["e"]} for j, k in enumerate(c["sortkeys"])]
    order = {"k": "orderBy", "keys": [{"name": f"__k{j}", "desc": k["desc"], "nullsFirst": k["nullsFirst"]} for j, k in enumerate(c["sortkeys"])]
             + [{"name": n, "desc": False, "nullsFirst": True} for n in cols]}
    drop = {"k": "drop", "ns": [f"__k{j}" for j in range(len(c["sortkeys"]))]}
    return case_to_lean(i, dict(c, steps=c["steps"] + extra + [order, drop]))


def run_exprsort(c: dict) -> dict:
    from sqlframe.duckdb import functions as F

    try:
        df = X.make_df(session(), c["schema"], c["rows"])
        for s in c["steps"]:
            df = apply_step(df, s, F)
        ks = []
        for k in c["sortkeys"]:
            col = X.to_column(tuple_(k["e"]), F)
            d, nf = k["desc"], k["nullsFirst"]
            ks.append(col if (not d and nf and len(ks) % 2 == 0) else (col.asc() if not d and nf else col.asc_nulls_last() if not d else col.desc() if not nf else col.desc_nulls_first()))
        allks = [*ks, *[F.col(n).asc() for n in df.columns]]
        out = df.orderBy(*allks)
        res = {"cols": list(out.columns), "rows": [[plain(v) for v in r] for r in out.collect()]}
        # the guard alone: the undecorated body on the same receiver; did it freeze the block before sorting?
        try:
            from sqlglot import exp

            items = [{"isAlias": isinstance(x, exp.Alias), "alias": x.alias, "thisIsCol": isinstance(x.this, exp.Column), "thisName": getattr(x.this, "name", "") or ""}
                     for x in df.expression.expressions]
            raw = type(df).orderBy.__wrapped__(df, *allks)
            res["guard"] = {"items": items, "wrapped": len(raw.expression.ctes) > len(df.expression.ctes),
                            "keys": [[k["e"][0] == "col", sorted(expr_refs(tuple_(k["e"])))] for k in c["sortkeys"]] + [[True, [n]] for n in df.columns]}
        except Exception as e:  # noqa
            res["guard"] = {"err": f"{type(e).__name__}: {str(e)[:200]}"}
        return res
    except Exception as e:  # noqa
        return {"err": f"{type(e).__name__}: {str(e)[:200]}"}


def eval_exprsort(cases: t.List[dict], workers: int = 0) -> t.List[dict]:
    outs = vlib.run_driver("C01", [exprsort_to_lean(i, c) for i, c in enumerate(cases)])
    impls = vlib.parallel_map(run_exprsort, cases, workers)
    gq = [(i, im["guard"]) for i, im in enumerate(impls) if isinstance(im.get("guard"), dict) and "err" not in im["guard"]]
    gout = vlib.run_driver("C01Guard", [{"case": i, "items": g["items"], "keys": g["keys"]} for i, g in gq])
    gmodel = {o["case"]: o.get("wrap") for o in gout}
    return [{"case": c, "impl": {k: v for k, v in im.items() if k != "guard"}, "spec": o["spec"], "ok": same(im, o["spec"], True),
             "guard": im.get("guard"), "guard_model": gmodel.get(i)} for i, (c, o, im) in enumerate(zip(cases, outs, impls))]


# ------------------------------------------------------------------------------------------------
# scenarios: several chains over ONE source, one after another in ONE interpreter.  The property quantifies over chains;
# a chain's answer must not depend on which other chains were built before it (C01_history_independent).  The main stream
# cannot see such a dependence: every case there has its own data, hence its own CTE names and its own expressions.
# Here the chains of a scenario share a prefix (the same source, literally the same preceding steps), every kind is
# applied to that prefix in two passes (so every ordered pair "a ran before b" occurs), and each chain's rows are
# compared with the specification of that chain alone.  A scenario runs in a freshly forked process, so a failing one
# can be replayed on its own.
# ------------------------------------------------------------------------------------------------

SCENARIO_MODES = ["shared", "rebuilt", "recreated"]


def gen_scenario(rng: random.Random, prefix_kinds: t.Sequence[str], mode: str, tails: int = 0) -> t.Optional[dict]:
    schema0 = {"x": "int", "y": "int", "s": "str"} if rng.random() < 0.7 else {"x": "int", "y": "int"}
    rows = gen_table_nd(rng, schema0, max_rows=rng.choice([6, 6, 13]))
    if not rows:
        rows = [[1 if ty == "int" else "a" for ty in schema0.values()]]
    schema = dict(schema0)
    st: t.Dict[str, t.Any] = {"total": False, "nd": near_dup_cols(schema0, rows), "keep_rows": True}
    prefix = []
    for i, k in enumerate(prefix_kinds):
        s = gen_step(rng, k, schema, st, any(kk == "limit" for kk in prefix_kinds[i + 1 : i + 2]))
        if s is None:
            return None
        prefix.append(s)
    chains = []
    for _ in range(2):
        ks = list(KINDS)
        rng.shuffle(ks)
        for k in ks:
            sch, st2 = dict(schema), dict(st)
            s = gen_step(rng, k, sch, st2, False)
            if s is None:
                continue
            tail = [s]
            for _ in range(tails if rng.random() < 0.5 else 0):  # a further step: the interference may sit one level deeper
                s2 = gen_step(rng, rng.choice(KINDS), sch, st2, False)
                if s2 is not None:
                    tail.append(s2)
            chains.append(prefix + tail)
    sc = {"schema": schema0, "rows": rows, "npre": len(prefix), "chains": chains, "mode": mode}
    sc["chains"] = [ch for ch in chains if chain_ok(sc, ch)]
    return sc if sc["chains"] else None


def chain_case(sc: dict, ch: t.List[dict]) -> dict:
    return {"schema": sc["schema"], "rows": sc["rows"], "steps": ch}


def chain_ok(sc: dict, ch: t.List[dict]) -> bool:
    c = chain_case(sc, ch)
    return bool(ch) and valid(c) and not has_risky_limit(c)


def show_scenario(sc: dict) -> str:
    return f"df{list(sc['schema'])}{sc['rows']}, one interpreter, mode={sc['mode']} (prefix = first {sc['npre']} steps): " + " ;; ".join(
        "df." + ".".join(show_step(s) for s in ch) for ch in sc["chains"])


def run_scenario(sc: dict) -> t.List[dict]:
    """every chain of the scenario, in order, in this process; per chain the columns and rows it returns"""
    from sqlframe.duckdb import functions as F

    out = []
    try:
        sess = vlib.fresh_duckdb_session()
        base = X.make_df(sess, sc["schema"], sc["rows"])
        npre = sc["npre"]
        pre = None
    except Exception as e:  # noqa
        return [{"err": f"{type(e).__name__}: {str(e)[:200]}"} for _ in sc["chains"]]
    for ch in sc["chains"]:
        try:
            if sc["mode"] == "shared":
                # one DataFrame object for the common prefix, every chain derived from it
                if pre is None:
                    pre = base
                    for s in ch[:npre]:
                        pre = apply_step(pre, s, F)
                df = pre
                rest = ch[npre:]
            elif sc["mode"] == "recreated":
                df, rest = X.make_df(sess, sc["schema"], sc["rows"]), ch
            else:
                df, rest = base, ch
            for s in rest:
                df = apply_step(df, s, F)
            out.append({"cols": list(df.columns), "rows": [[plain(v) for v in r] for r in df.collect()]})
        except Exception as e:  # noqa
            out.append({"err": f"{type(e).__name__}: {str(e)[:200]}"})
    return out


def preload() -> None:
    """import (never run) everything a chain needs, so that forked children start with the modules loaded: nothing of
    sqlframe has been executed in this process, no DuckDB connection exists"""
    import importlib

    for m in ("numpy", "pandas", "pyarrow", "duckdb", "sqlglot.dialects.duckdb", "sqlglot.dialects.spark", "sqlframe.duckdb",
              "sqlframe.duckdb.functions", "sqlframe.base.functions", "sqlframe.base.window"):
        try:
            importlib.import_module(m)
        except Exception:  # noqa: an optional module: the child imports what it needs
            pass


def _fresh_call(args):
    fn, item = args
    return fn(item)


def fresh_map(fn: t.Callable[[t.Any], t.Any], items: t.List[t.Any]) -> t.List[t.Any]:
    """order-preserving map, every item in its own freshly forked process (no state of an earlier item, and none of this
    process beyond the imported modules: the parent must not have run sqlframe itself)"""
    if not items:
        return []
    import multiprocessing as mp

    preload()

    workers = max(1, min(int(os.environ.get("VERIF_WORKERS", "8")), os.cpu_count() or 1, len(items)))
    with mp.get_context("fork").Pool(workers, maxtasksperchild=1) as pool:
        return pool.map(_fresh_call, [(fn, x) for x in items], chunksize=1)


def eval_scenarios(scs: t.List[dict], known: t.Dict[str, dict]) -> t.List[dict]:
    hist = vlib.run_driver("C01Hist", [{"case": i, "table": X.table_to_lean(list(sc["schema"]), sc["rows"]), "chains": [[step_to_lean(s) for s in ch] for ch in sc["chains"]]}
                                       for i, sc in enumerate(scs)])
    impls = fresh_map(run_scenario, scs)
    res = []
    for sc, h, impl_all in zip(scs, hist, impls):
        if "err" in h:
            raise RuntimeError(f"driver rejected a scenario: {h}")
        r: t.Dict[str, t.Any] = {"scenario": sc, "chains": [], "failing": [], "model_diff": []}
        for j, ch in enumerate(sc["chains"]):
            impl = impl_all[j] if j < len(impl_all) else {"err": "no result"}
            ordered = order_checked(chain_case(sc, ch))
            ok_spec = same(impl, h["spec"][j], ordered)
            ok_model = same(impl, h["model"][j], ordered)
            sc_h = [x for x in h["scope"][j] if x.startswith("H_")]
            excused = (not ok_spec) and bool(sc_h) and all(x in known for x in sc_h) and ok_model
            r["chains"].append({"impl": impl, "spec": h["spec"][j], "model_in_history": h["model"][j], "ok": ok_spec, "ok_model": ok_model, "excused": excused, "scope": h["scope"][j]})
            if not ok_spec and not excused:
                r["failing"].append(j)
            if not ok_model:
                r["model_diff"].append(j)
        res.append(r)
    return res


def classify_scenario_failure(sc: dict, known: t.Dict[str, dict]) -> t.Tuple[str, dict]:
    """('alone', case) when the failing chain also fails with nothing before it; else ('history', the shrunk scenario)"""
    r0 = eval_scenarios([sc], known)[0]
    if r0["failing"]:
        j = r0["failing"][0]
        alone = dict(sc, chains=[sc["chains"][j]])
        if eval_scenarios([alone], known)[0]["failing"]:
            return "alone", chain_case(sc, sc["chains"][j])
    return "history", shrink_scenario(sc, known)


def shrink_scenario(sc: dict, known: t.Dict[str, dict], rounds: int = 10) -> dict:
    """first the chains (the failing one alone, else with one earlier chain), then greedily: steps of the common prefix, trailing
    steps, rows (halves first) — while some chain still fails.  One batch of candidates per round, each in a fresh process."""
    best = sc
    r0 = eval_scenarios([best], known)[0]
    if not r0["failing"]:
        return best
    j = r0["failing"][0]
    chains = best["chains"]
    cands = [dict(best, chains=[chains[j]])] + [dict(best, chains=[chains[i], chains[j]]) for i in range(j)] + [dict(best, chains=chains[: j + 1])]
    got = next((r["scenario"] for r in eval_scenarios(cands, known) if r["failing"]), None)
    if got is not None:
        best = got
    for _ in range(rounds):
        cands = []
        n = len(best["chains"])
        if n > 1:
            cands += [dict(best, chains=best["chains"][:i] + best["chains"][i + 1 :]) for i in range(n)]
        for p in range(best["npre"]):
            cands.append(dict(best, npre=best["npre"] - 1, chains=[ch[:p] + ch[p + 1 :] for ch in best["chains"]]))
        for i, ch in enumerate(best["chains"]):
            if len(ch) > best["npre"] + 1:
                cands.append(dict(best, chains=best["chains"][:i] + [ch[:-1]] + best["chains"][i + 1 :]))
        nr = len(best["rows"])
        if nr > 3:
            cands += [dict(best, rows=best["rows"][: nr // 2]), dict(best, rows=best["rows"][nr // 2 :])]
        cands += [dict(best, rows=best["rows"][:i] + best["rows"][i + 1 :]) for i in range(nr) if nr > 1]
        cands = [x for x in cands if x["chains"] and all(chain_ok(x, ch) for ch in x["chains"])]
        if not cands:
            break
        nxt = next((r["scenario"] for r in eval_scenarios(cands, known) if r["failing"]), None)
        if nxt is None:
            break
        best = nxt
    return best


def scenarios_for(ctx: Ctx) -> t.List[dict]:
    out = []
    corpus_dir = os.path.join(vlib.VERIF, "corpus", ID)
    if os.path.isdir(corpus_dir):
        for fn in sorted(os.listdir(corpus_dir)):
            if fn.endswith(".json"):
                c = json.load(open(os.path.join(corpus_dir, fn)))
                if "scenario" in c and all(chain_ok(c["scenario"], ch) for ch in c["scenario"]["chains"]):
                    out.append(c["scenario"])
    singles = KINDS if ctx.thorough else ["where", "select", "withColumn", "distinct", "orderBy"]
    prefixes: t.List[t.List[str]] = [[]] + [[k] for k in singles]
    if ctx.thorough:
        prefixes += [[a, b] for a in KINDS for b in KINDS]
    for n, pk in enumerate(prefixes):
        # quick: one DataFrame object shared by all chains, and alternately the prefix rebuilt / the source re-created per chain
        modes = (SCENARIO_MODES if ctx.thorough else ["shared", SCENARIO_MODES[1 + n % 2]]) if len(pk) < 2 else [ctx.rng.choice(SCENARIO_MODES)]
        for mode in modes:
            for _ in range(2 if ctx.thorough and len(pk) < 2 else 1):
                sc = gen_scenario(ctx.rng, pk, mode, tails=1 if ctx.thorough else 0)
                if sc:
                    out.append(sc)
    return out


# ------------------------------------------------------------------------------------------------
# the regenerated Gen.C01Bodies held against the running code: which DataFrame methods each body really runs (and how it
# enters them), how often it freezes the block itself, whether the column-list helper hands out one shared list, and who
# writes into the list it handed out
# ------------------------------------------------------------------------------------------------

PROBE_CALLS = {
    "where": lambda d, F: d.where(F.col("x") > F.lit(0)),
    "select": lambda d, F: d.select(F.col("y"), (F.col("x") + F.lit(1)).alias("x")),
    "withColumn": lambda d, F: d.withColumn("z", F.col("x") + F.lit(1)),
    "withColumns": lambda d, F: d.withColumns({"z": F.col("x") + F.lit(1), "x": F.col("y")}),
    "withColumnRenamed": lambda d, F: d.withColumnRenamed("x", "w"),
    "drop": lambda d, F: d.drop("y"),
    "distinct": lambda d, F: d.distinct(),
    "orderBy": lambda d, F: d.orderBy("x", F.col("y").desc()),
    "limit": lambda d, F: d.limit(3),
    "fillna": lambda d, F: d.fillna(7, subset=["x"]),
    "replace": lambda d, F: d.replace(1, 2, subset=["x"]),
    "toDF": lambda d, F: d.toDF("a", "b", "c"),
    "dropna": lambda d, F: d.dropna(how="any", subset=["x", "y"]),
    "unpivot": lambda d, F: d.unpivot(["s"], ["x", "y"], "var", "val"),
}


def probe_bodies(_: t.Any) -> dict:
    """runs in a freshly forked process (it replaces a class attribute while it looks)"""
    import sys
    import types

    from sqlframe.base.dataframe import BaseDataFrame
    from sqlframe.duckdb import functions as F

    try:
        sess = vlib.fresh_duckdb_session()
        base = X.make_df(sess, {"x": "int", "y": "int", "s": "str"}, [[1, None, "a"], [2, 3, None], [1, None, "a"]])
        receivers = {"after select": base.select("x", "y", "s"), "after where": base.where(F.col("x") > F.lit(0)), "after orderBy+limit": base.orderBy("x").limit(5)}
        raw, wrapper_code = {}, None
        for name, attr in vars(BaseDataFrame).items():
            fn = getattr(attr, "__wrapped__", None)
            if isinstance(attr, types.FunctionType) and isinstance(fn, types.FunctionType) and attr.__code__.co_name == "wrapper":
                raw[fn.__code__] = fn.__name__
                wrapper_code = attr.__code__
        freeze = BaseDataFrame._convert_leaf_to_cte.__code__
        copy_code = BaseDataFrame.copy.__code__
        out: t.Dict[str, t.Any] = {"bodies": {}, "wraps": {}, "mutated": {}, "direct": {}, "errors": []}

        # (1) the column-list helper: one shared list per equal expression, or a new list per call?
        helper = BaseDataFrame.__dict__["_get_outer_select_columns"]
        e1 = receivers["after select"].expression
        r1 = BaseDataFrame._get_outer_select_columns(e1)
        r2 = BaseDataFrame._get_outer_select_columns(e1.copy())
        out["memoised"] = r1 is r2

        rec: t.List[t.Tuple[list, list]] = []
        inner_f = helper.__func__ if isinstance(helper, (classmethod, staticmethod)) else helper

        def proxy(cls, item):
            r = inner_f(cls, item)
            rec.append((r, list(r)))
            return r

        for m, call in PROBE_CALLS.items():
            seen_inner, seen_wraps, seen_mut, seen_direct = set(), set(), set(), set()
            for rname, recv in receivers.items():
                stack: t.List[dict] = []
                roots: t.List[dict] = []
                direct: t.Set[str] = set()

                def prof(frame, event, arg):
                    code = frame.f_code
                    if event == "call":
                        node = None
                        if code is copy_code and frame.f_back is not None and frame.f_back.f_code in raw and "expression" in (frame.f_locals.get("kwargs") or {}):
                            direct.add(raw[frame.f_back.f_code])  # the body itself hands copy() a new expression
                        if code is wrapper_code:
                            node = {"k": "wrapper", "n": getattr(frame.f_locals.get("func"), "__name__", "?"), "c": [], "code": code}
                        elif code in raw:
                            node = {"k": "raw", "n": raw[code], "c": [], "code": code}
                        elif code is freeze:
                            node = {"k": "freeze", "n": "_convert_leaf_to_cte", "c": [], "code": code}
                        if node is not None:
                            (stack[-1]["c"] if stack else roots).append(node)
                            stack.append(node)
                    elif event == "return" and stack and stack[-1]["code"] is code:
                        stack.pop()

                rec.clear()
                BaseDataFrame._get_outer_select_columns = classmethod(proxy)
                sys.setprofile(prof)
                try:
                    call(recv, F)
                except Exception as e:  # noqa
                    out["errors"].append(f"{m} {rname}: {type(e).__name__}: {str(e)[:120]}")
                finally:
                    sys.setprofile(None)
                    BaseDataFrame._get_outer_select_columns = helper
                seen_mut.add(any(len(r) != len(snap) or any(a is not b for a, b in zip(r, snap)) for r, snap in rec))

                def body_of(nodes, name):
                    for nd in nodes:
                        if nd["k"] == "raw" and nd["n"] == name:
                            return nd
                        got = body_of(nd["c"], name)
                        if got is not None:
                            return got
                    return None

                b = body_of(roots, m)
                if b is None:
                    out["errors"].append(f"{m} {rname}: its body was never entered")
                    continue
                inner = []
                for ch in b["c"]:
                    if ch["k"] == "wrapper":
                        inner.append(["decorated", ch["n"]])
                    elif ch["k"] == "raw":
                        inner.append(["undecorated", ch["n"]])
                seen_inner.add(json.dumps(inner))
                seen_wraps.add(sum(1 for ch in b["c"] if ch["k"] == "freeze"))
                seen_direct.add(m in direct)
            out["direct"][m] = sorted(seen_direct)
            out["bodies"][m] = sorted(seen_inner)
            out["wraps"][m] = sorted(seen_wraps)
            out["mutated"][m] = sorted(seen_mut)
        return out
    except Exception as e:  # noqa
        return {"err": f"{type(e).__name__}: {str(e)[:300]}"}


def check_generated_bodies(ctx: Ctx) -> None:
    gen = vlib.run_driver("C01Hist", [{"case": 0, "table": {"cols": ["x"], "rows": []}, "chains": []}])[0]
    live = fresh_map(probe_bodies, [None])[0]
    ctx.cov["bodies_probe"] = {"generated": {k: gen.get(k) for k in ("bodies", "wraps", "direct", "memoised", "mutatedBy", "fresh")}, "running": live}
    if "err" in live:
        ctx.broken.append(f"Gen.C01Bodies could not be held against the running code: {live['err']}")
        return
    bad = []
    reach = lambda m, seen=(): {m} | set().union(*[reach(c[1], seen + (m,)) for c in gen["bodies"].get(m, []) if c[1] not in seen]) if gen["bodies"].get(m) else {m}  # noqa: E731
    for m in PROBE_CALLS:
        want = json.dumps(gen["bodies"].get(m))
        if live["bodies"].get(m) != [want]:
            bad.append(f"{m} runs {live['bodies'].get(m)} but was regenerated as {want}")
        if m != "orderBy" and live["wraps"].get(m) != [gen["wraps"].get(m)]:
            bad.append(f"{m} freezes the block {live['wraps'].get(m)} times itself but was regenerated with {gen['wraps'].get(m)}")
        if live["direct"].get(m) != [gen["direct"].get(m)]:
            bad.append(f"{m} hands copy() a new expression itself: {live['direct'].get(m)}, regenerated: {gen['direct'].get(m)}")
        want_mut = bool(reach(m) & set(gen["mutatedBy"]))
        if live["mutated"].get(m) != [want_mut]:
            bad.append(f"{m} writes into the list _get_outer_select_columns returned: {live['mutated'].get(m)}, regenerated: {want_mut}")
    if live["memoised"] != gen["memoised"]:
        bad.append(f"_get_outer_select_columns hands out one shared list per equal expression: {live['memoised']}, regenerated: {gen['memoised']}")
    if gen["fresh"] is not True:
        bad.append("outerColsFresh is not true")
    bad += live["errors"]
    if bad:
        ctx.broken.append("Gen.C01Bodies differs from the running code: " + "; ".join(bad)[:900])


def dropdup_case(rng: random.Random) -> t.Optional[dict]:
    """dropDuplicates(subset) keeps one (unspecified) representative per key: checked relationally"""
    kinds = [rng.choice(KINDS) for _ in range(rng.randint(0, 3))]
    c = gen_program(rng, kinds)
    if not c or not valid(c) or has_risky_limit(c) or engine_pattern(c):
        return None
    import c11

    cols = c11.current_cols(c)
    c["subset"] = rng.sample(cols, rng.randint(1, len(cols)))
    return c


def run_dropdup(c: dict) -> dict:
    from sqlframe.duckdb import functions as F

    try:
        df = X.make_df(session(), c["schema"], c["rows"])
        for s in c["steps"]:
            df = apply_step(df, s, F)
        before = [[plain(v) for v in r] for r in df.collect()]
        cols = list(df.columns)
        out = df.dropDuplicates(c["subset"])
        after = [[plain(v) for v in r] for r in out.collect()]
        idx = [cols.index(k) for k in c["subset"]]
        key = lambda r: json.dumps([r[i] for i in idx], sort_keys=True)  # noqa: E731
        problems = []
        if list(out.columns) != cols:
            problems.append(f"columns {list(out.columns)} != {cols}")
        if len({key(r) for r in after}) != len(after):
            problems.append("two result rows share a key")
        if {key(r) for r in after} != {key(r) for r in before}:
            problems.append("the key sets of input and result differ")
        pool = bag(before)
        if any(json.dumps(list(r), sort_keys=True) not in pool for r in after):
            problems.append("a result row is not an input row")
        return {"problems": problems, "before": before, "after": after}
    except Exception as e:  # noqa
        return {"problems": [f"{type(e).__name__}: {str(e)[:200]}"]}


def run(ctx: Ctx) -> None:
    idx = vlib.props_index()[ID]
    vlib.prove(ctx, MODULES, GEN, idx["theorems"], SOURCES)
    known = {e["id"]: e for e in vlib.known_findings(ID)}

    # everything that needs a process in which sqlframe has not run yet comes first: the probe of the regenerated body
    # compositions, and the scenarios (several chains in one interpreter), each in a freshly forked child
    import time as _time

    phase: t.Dict[str, float] = {"prove": round(ctx.elapsed(), 1)}
    t0 = _time.time()
    preload()
    check_generated_bodies(ctx)
    phase["probe"] = round(_time.time() - t0, 1)
    t0 = _time.time()
    scs = scenarios_for(ctx)
    sres = eval_scenarios(scs, known)
    phase["scenarios"] = round(_time.time() - t0, 1)
    s_model = [r for r in sres if r["model_diff"]]
    for r in sres:
        for ch in r["chains"]:
            if ch["excused"]:  # the model predicts the implementation and every violated hypothesis is a listed open finding
                for h in [x for x in ch["scope"] if x.startswith("H_")]:
                    vlib.report_known(ctx, known[h], known[h]["summary"])
    s_alone: t.List[dict] = []  # chains of a scenario that fail on their own: ordinary failing inputs
    s_hist: t.List[dict] = []  # chains that fail only after other chains: shrunk scenarios
    for r in [r for r in sres if r["failing"]][:3]:
        kind, what = classify_scenario_failure(r["scenario"], known)
        if kind == "alone":
            s_alone.append(what)
        else:
            # evaluated here, while this process has still not run sqlframe itself (fresh children are forked from it)
            s_hist.append({"scenario": what, "result": eval_scenarios([what], known)[0]})
    if s_model:
        r0 = s_model[0]
        j = r0["model_diff"][0]
        ctx.broken.append(f"correspondence stream H (chains run one after another in one interpreter vs runScenarioGen): {len(s_model)} of {len(sres)} scenarios differ, "
                          f"e.g. chain {j} of {show_scenario(r0['scenario'])[:300]}: implementation {json.dumps(r0['chains'][j]['impl'])[:200]} vs model {json.dumps(r0['chains'][j]['model_in_history'])[:200]}")

    # known findings: replay the recorded witnesses on the real code (fresh children; printed only while they still fail)
    kw = [(h, e) for h, e in known.items() if e.get("witness")]
    if kw:
        for (h, e), r in zip(kw, evaluate([e["witness"] for _, e in kw], workers=-1)):
            if not r["impl_eq_spec"] and is_known(r, known):
                vlib.report_known(ctx, e, e["summary"])
            elif not r["impl_eq_spec"]:
                ctx.broken.append(f"the witness of the known finding {h} fails in a way the finding does not describe (model predicts the implementation: {r['impl_eq_model']}; engine alone: {r['engine_only']})")

    cases = cases_for(ctx)
    for c in s_alone:
        c["origin"] = "scenario-chain"
    t0 = _time.time()
    res = evaluate(s_alone + cases)
    phase["chains"] = round(_time.time() - t0, 1)
    ctx.cov["phase_s"] = phase

    kinds_hist: t.Dict[str, int] = {}
    lens: t.Dict[int, int] = {}
    nontrivial = set()
    n_ordered = 0
    n_err = 0
    for r in res:
        c = r["case"]
        for s in c["steps"]:
            kinds_hist[s["k"]] = kinds_hist.get(s["k"], 0) + 1
        lens[len(c["steps"])] = lens.get(len(c["steps"]), 0) + 1
        n_ordered += r["ordered"]
        n_err += "err" in r["impl"]
        if "err" not in r["impl"] and r["impl"]["rows"] and r["impl"]["rows"] != [[plain(v) for v in row] for row in c["rows"]]:
            nontrivial.add(vlib.digest([c["steps"], c["rows"]]))

    model_mismatch = [r for r in res if not r["impl_eq_model"] and not (r["engine_only"] and is_known(r, known))]
    spec_mismatch = [r for r in res if not r["impl_eq_spec"]]

    # classify implementation-vs-specification failures
    new_viol = []
    for r in spec_mismatch:
        if is_known(r, known):
            for h in [h for h in r["scope"] if h.startswith("H_")]:
                vlib.report_known(ctx, known[h], known[h]["summary"])
        else:
            new_viol.append(r)

    # dropDuplicates(subset): relational specification (one representative per key, each an input row)
    dd = [x for x in (dropdup_case(ctx.rng) for _ in range(400 if ctx.thorough else 40)) if x]
    dd_res = vlib.parallel_map(run_dropdup, dd)
    dd_bad = [(c, r) for c, r in zip(dd, dd_res) if r["problems"]]

    # sort keys that are expressions: every kind (thorough: kind pair) before the sort, every step on one column
    es_cases = []
    for kinds in itertools.product(KINDS, repeat=2 if ctx.thorough else 1):
        for _ in range(2 if ctx.thorough else 3):
            x = exprsort_case(ctx.rng, kinds)
            if x:
                es_cases.append(x)
    es_cases += exprsort_moved_cases(ctx.rng)
    es_res = eval_exprsort(es_cases)
    es_bad = [r for r in es_res if not r["ok"]]
    # tie of the regenerated guard (Gen.orderRedefined …) to the running orderBy: same decision on the real select list
    g_seen = [r for r in es_res if r.get("guard_model") is not None]
    g_bad = [r for r in g_seen if r["guard"]["wrapped"] != r["guard_model"]]
    g_err = [r for r in es_res if "err" not in r["impl"] and (not isinstance(r.get("guard"), dict) or "err" in r["guard"])]
    if g_bad:
        ctx.broken.append(f"orderBy's guard for sort expressions: the regenerated decision (Gen.Clauses) differs from the running code on {len(g_bad)} of {len(g_seen)} select lists, "
                          f"first: items={json.dumps(g_bad[0]['guard']['items'])} keys={json.dumps(g_bad[0]['guard']['keys'])} real={g_bad[0]['guard']['wrapped']} model={g_bad[0]['guard_model']}")
    if g_err and len(g_err) == len([r for r in es_res if "err" not in r["impl"]]):
        ctx.broken.append(f"orderBy's guard for sort expressions could not be observed: {g_err[0].get('guard')}")
    ctx.cov["orderBy_guard_decisions"] = {"compared": len(g_seen), "froze": sum(1 for r in g_seen if r["guard"]["wrapped"]), "unobservable": len(g_err)}

    if model_mismatch:
        ctx.broken.append(f"correspondence stream A (implementation vs Impl/DataFrame.lean): {len(model_mismatch)} of {len(res)} cases differ")
    shape_mismatch = [r for r in res if not r["shape_eq"]]
    if shape_mismatch:
        r0 = shape_mismatch[0]
        ctx.broken.append(
            f"correspondence stream S (CTE chain of the real unoptimized statement vs the model's frozen blocks, DF.hist): {len(shape_mismatch)} of {len(res)} cases differ, "
            f"e.g. {show_case(r0['case'])[:200]}: statement {json.dumps(r0['impl'].get('shape'))[:400]} vs model {json.dumps(r0['model_shape'])[:400]}"
        )

    reported = 0
    for r in new_viol[:3]:
        c = shrink(r["case"], lambda rr: (not rr["impl_eq_spec"]) and not is_known(rr, known))
        rr = evaluate([c], workers=1)[0]
        vlib.report_violation(
            ctx,
            {
                "kind": "implementation differs from the sequential PySpark specification",
                "program": show_case(c),
                "case": c,
                "implementation": rr["impl"],
                "specification": rr["spec"],
                "model": rr["model"],
                "violated_scope_hypotheses": rr["scope"],
                "broken": ctx.broken,
            },
        )
        reported += 1
    for sh in s_hist[: max(0, 3 - reported)]:
        sc, rr = sh["scenario"], sh["result"]
        vlib.report_violation(
            ctx,
            {
                "kind": "the result of a chain depends on the chains built before it in the same interpreter (each chain is compared with the sequential PySpark specification of that chain alone)",
                "program": show_scenario(sc),
                "scenario": sc,
                "failing_chains": rr["failing"],
                "chains": [{"program": "df." + ".".join(show_step(x) for x in ch), **res_j} for ch, res_j in zip(sc["chains"], rr["chains"])],
                "broken": ctx.broken,
            },
        )
        reported += 1
    for r in es_bad[: max(0, 3 - reported)]:
        c = r["case"]
        best = c
        for _ in range(8):  # drop steps before the sort while the sorted result still differs
            cands = [dict(best, steps=best["steps"][:i] + best["steps"][i + 1 :]) for i in range(len(best["steps"]))]
            cands = [x for x in cands if valid(x) and not has_risky_limit(x) and all(expr_refs(tuple_(k["e"])) <= set(cols_after(x)) and cols_after(x).get(n) == "int" for k in x["sortkeys"] for n in expr_refs(tuple_(k["e"])))]
            nxt = next((x for x in cands if not eval_exprsort([x], workers=1)[0]["ok"]), None)
            if nxt is None:
                break
            best = nxt
        rr = eval_exprsort([best], workers=1)[0]
        vlib.report_violation(ctx, {"kind": "orderBy over expression keys differs from sorting by the keys' values (specification: withColumn(key) -> orderBy(key, all columns) -> drop(key))",
                                    "program": show_case(best) + ".orderBy(" + ", ".join(X.show(tuple_(k["e"])) + (" desc" if k["desc"] else " asc") + (" nulls first" if k["nullsFirst"] else " nulls last") for k in best["sortkeys"]) + ", <every column asc>)",
                                    "exprsort_case": best, "implementation": rr["impl"], "specification": rr["spec"]})
        reported += 1
    for c, r in dd_bad[: max(0, 3 - reported)]:
        vlib.report_violation(ctx, {"kind": "dropDuplicates(subset) does not keep exactly one input row per key", "program": show_case(c) + f".dropDuplicates({c['subset']})", "dropdup_case": c, "problems": r["problems"], "result": r.get("after")})
        reported += 1
    if ctx.broken and not reported:
        vlib.report_violation(
            ctx,
            {
                "kind": "proof obligation or correspondence no longer checks; no failing input found",
                "broken": ctx.broken,
                "searched": {"cases": len(res), "kinds": kinds_hist},
                "first_model_mismatch": (
                    {"program": show_case(model_mismatch[0]["case"]), "case": model_mismatch[0]["case"], "implementation": model_mismatch[0]["impl"], "model": model_mismatch[0]["model"]}
                    if model_mismatch
                    else None
                ),
            },
            no_input=True,
        )

    ctx.cov.update(
        {
            "evaluations": len(res),
            "distinct_nontrivial": len(nontrivial),
            "rule": "corpus, then every sequence of operation kinds up to the tier's depth with discriminating arguments, then random chains of length 3..10; "
            "non-trivial = distinct (steps, rows) whose implementation result is non-empty and differs from the input rows",
            "traces_validated_against_impl": sum(r["impl_eq_model"] for r in res),
            "statement_shapes_validated_against_impl": sum(1 for r in res if r["shape_eq"] and "err" not in r["impl"] and r["impl"].get("shape") is not None),
            "impl_vs_spec_agree": sum(r["impl_eq_spec"] for r in res),
            "out_of_scope_cases": sum(1 for r in res if r["scope"]),
            "order_determined_cases": n_ordered,
            "implementation_errors": n_err,
            "scenarios": {"scenarios": len(sres), "chains": sum(len(r["chains"]) for r in sres), "chains_agreeing_with_spec": sum(sum(1 for c in r["chains"] if c["ok"]) for r in sres),
                          "chains_agreeing_with_model_in_history": sum(sum(1 for c in r["chains"] if c["ok_model"]) for r in sres),
                          "modes": {m: sum(1 for r in sres if r["scenario"]["mode"] == m) for m in SCENARIO_MODES},
                          "rule": "per prefix (none, one step of a kind; thorough: every kind pair) and sharing mode, every kind applied to the same prefix in two passes, all in one freshly forked interpreter"},
            "origin_histogram": {o: sum(1 for r in res if r["case"].get("origin", "").split(":")[0] == o) for o in sorted({r["case"].get("origin", "").split(":")[0] for r in res})},
            "dropDuplicates_subset_relational_cases": len(dd),
            "expression_sort_key_cases": len(es_res),
            "op_kind_histogram": kinds_hist,
            "length_histogram": {str(k): v for k, v in sorted(lens.items())},
            "samples": [{"program": show_case(r["case"]), "result": r["impl"]} for r in res[:: max(1, len(res) // 4)][:4]],
        }
    )
    ctx.assumptions += [
        "DuckDB evaluates one SELECT block as Core/Sql.lean says (validated by this stream on every case)",
        "PySpark's meaning of each step is Core/Table.lean + Impl/DataFrame.lean `specStep` (validated against live PySpark 3.5.9 in the thorough tier when the JVM starts)",
        "a subquery's row order is preserved by an outer block without ORDER BY (only used for 'order after the last orderBy')",
    ]


def replay(ctx: Ctx, rp: dict) -> None:
    if rp.get("scenario"):
        sc = rp["scenario"]
        r = eval_scenarios([sc], {e["id"]: e for e in vlib.known_findings(ID)})[0]
        print(json.dumps({"program": show_scenario(sc), "failing_chains": r["failing"], "chains": r["chains"]}, indent=1))
        if r["failing"]:
            vlib.report_violation(ctx, dict(rp, failing_chains=r["failing"], chains=r["chains"]))
        return
    c = rp.get("case")
    if not c:
        print("replay names a broken obligation, not an input:", rp.get("broken"))
        return
    r = evaluate([c], workers=1)[0]
    print(json.dumps({"program": show_case(c), "implementation": r["impl"], "specification": r["spec"], "model": r["model"], "agree": r["impl_eq_spec"]}, indent=1))
    if not r["impl_eq_spec"]:
        vlib.report_violation(ctx, dict(rp, implementation=r["impl"], specification=r["spec"]))
