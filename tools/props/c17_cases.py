"""
c17_cases.py — typed function-call cases for C17 and their evaluation on a PySpark-compatible API
(live PySpark 3.5.9 when recording tools/oracle/spark_values.json; sqlframe on DuckDB in the check).

A case:  {"id", "fn", "args": [arg…], "group": "emul:<name>" | "native", "unordered": bool}
  arg =  {"c": value, "t": "<ddl type>"}   a column of a one-row DataFrame
         {"p": value}                      a plain Python argument (int position, format string, …)
         {"l": value}                      functions.lit(value)
         {"e": {"fn":…, "args":[…]}}       a nested function call (composition of functions)
         {"r": [values…], "t": "<type>"}   a MULTI-ROW column: the case is an aggregation over one group holding
                                           exactly these rows; optional "pre" (function applied to the column
                                           before aggregating) and "post" (function applied to the aggregate)
  fn "getItem" is Column.getItem:  col(args[0]).getItem(args[1])
Dates travel as {"date": "YYYY-MM-DD"}; timestamps as {"ts": "YYYY-MM-DD HH:MM:SS"}.
"""
from __future__ import annotations

import datetime
import decimal
import math
import random
import typing as t

XS = [10, 20, 30, 40, 50]


def C(v: t.Any, ty: str) -> dict:
    return {"c": v, "t": ty}


def P(v: t.Any) -> dict:
    return {"p": v}


def L(v: t.Any) -> dict:
    return {"l": v}


def D(s: str) -> dict:
    return {"date": s}


def E(fn: str, *args: dict) -> dict:
    return {"e": {"fn": fn, "args": list(args)}}


def agg_case(group: str, fn: str, rows: list, ty: str, pre: t.Optional[str] = None, post: t.Optional[str] = None, unordered: bool = False) -> dict:
    c = {"fn": fn, "args": [{"r": rows, "t": ty}], "group": group, "unordered": unordered, "tag": "agg"}
    if pre:
        c["pre"] = pre
    if post:
        c["post"] = post
    return c


def case(group: str, fn: str, *args: dict, unordered: bool = False, tag: str = "") -> dict:
    return {"fn": fn, "args": list(args), "group": group, "unordered": unordered, "tag": tag}


# ------------------------------------------------------------------------------------------------
# the recorded (fixed) case set
# ------------------------------------------------------------------------------------------------


def emulation_cases() -> t.List[dict]:
    out: t.List[dict] = []
    for n in list(range(0, 22)) + [-1]:
        out.append(case("emul:factorial", "factorial", C(n, "int")))
    lists = [XS, [7], [3, 1, 2], [5, 5, 1, 9, 1, 7, 3]]
    for xs in lists:
        n = len(xs)
        for k in range(-(n + 1), n + 2):
            if k != 0:
                out.append(case("emul:element_at", "element_at", C(xs, "array<int>"), P(k)))
                out.append(case("emul:try_element_at", "try_element_at", C(xs, "array<int>"), L(k)))
        for k in range(0, n + 1):
            out.append(case("emul:getItem", "getItem", C(xs, "array<int>"), P(k)))
        for s in list(range(1, n + 2)) + list(range(-n, 0)):
            for ln in range(0, n + 2):
                out.append(case("emul:slice", "slice", C(xs, "array<int>"), P(s), P(ln)))
        for v in sorted(set(xs)) + [99]:
            out.append(case("emul:array_position", "array_position", C(xs, "array<int>"), P(v)))
        out.append(case("emul:array_min", "array_min", C(xs, "array<int>")))
        out.append(case("emul:array_max", "array_max", C(xs, "array<int>")))
    for a, b in [(1, 5), (5, 1), (3, 3), (-2, 2), (2, -2), (0, 7), (7, 0)]:
        out.append(case("emul:sequence", "sequence", C(a, "int"), C(b, "int")))
        for st in (1, 2, 3, -1, -2):
            if (b - a) * st >= 0:
                out.append(case("emul:sequence", "sequence", C(a, "int"), C(b, "int"), C(st, "int")))
    for k in range(-9, 10):
        out.append(case("emul:rint", "rint", C(k / 2.0, "double")))
    for x in [0.3, 0.7, 1.2, -1.2, 2.49, 2.51, 1e6 + 0.25, -0.5000001]:
        out.append(case("emul:rint", "rint", C(x, "double")))
    for x in [0.0, 1.0, 0.5, 2.0, 10.0, 1e-9, 123.456, -0.5]:
        out.append(case("emul:log1p", "log1p", C(x, "double")))
        out.append(case("emul:expm1", "expm1", C(x, "double")))
    s = "hello world"
    for pos in range(1, len(s) + 2):
        for ln in (None, 0, 1, 3, 20):
            if ln is None:
                out.append(case("emul:overlay", "overlay", C(s, "string"), C("XY", "string"), P(pos)))
            else:
                out.append(case("emul:overlay", "overlay", C(s, "string"), C("XY", "string"), P(pos), P(ln)))
    for d in ["2024-01-31", "2023-12-31", "2024-02-29", "2000-03-01"]:
        for n in (-400, -31, -1, 0, 1, 28, 365):
            out.append(case("emul:date_add", "date_add", C(D(d), "date"), P(n)))
            out.append(case("emul:date_sub", "date_sub", C(D(d), "date"), P(n)))
    for sub in ["o", "l", "world", "z", "h", "d", ""]:
        # the empty needle is an engine edge case (sqlglot's StrPosition-with-position emulation): native group
        gi, gl = ("argorder:instr", "argorder:locate") if sub else ("native", "native")
        out.append(case(gi, "instr", C(s, "string"), P(sub)))
        out.append(case(gl, "locate", P(sub), C(s, "string")))
        for pos in (1, 2, 5, 6, 9, 11):
            out.append(case(gl, "locate", P(sub), C(s, "string"), P(pos)))
    for ln in (0, 1, 5, 11, 12, 15, 16):
        for pad in ("x", "xy", "abc"):
            out.append(case("argorder:lpad", "lpad", C(s, "string"), P(ln), P(pad)))
            out.append(case("argorder:rpad", "rpad", C(s, "string"), P(ln), P(pad)))
    for pos in range(1, 13):
        for ln in (0, 1, 4, 30):
            out.append(case("argorder:substring", "substring", C(s, "string"), P(pos), P(ln)))
    return out


def native_cases() -> t.List[dict]:
    out: t.List[dict] = []
    N = "native"
    dbl = [0.0, 1.0, -1.0, 0.5, 2.0, 9.0, -7.25, 123.456]
    for f in ["abs", "ceil", "floor", "signum", "cbrt", "exp", "sin", "cos", "tan", "atan", "degrees", "radians"]:
        for x in dbl:
            out.append(case(N, f, C(x, "double")))
    for f in ["sqrt", "ln", "log10", "log2"]:
        for x in [1.0, 0.5, 2.0, 9.0, 123.456]:
            out.append(case(N, f, C(x, "double")))
    for f in ["asin", "acos"]:
        for x in [0.0, 1.0, -1.0, 0.5]:
            out.append(case(N, f, C(x, "double")))
    for x in [2.5, 3.5, -2.5, 1.25, 1.35, 0.125, 123.456]:
        for sc in (0, 1, 2):
            out.append(case(N, "round", C(x, "double"), P(sc)))
    for a, b in [(2.0, 3.0), (9.0, 0.5), (-2.0, 3.0), (2.0, -1.0)]:
        out.append(case(N, "pow", C(a, "double"), C(b, "double")))
        out.append(case(N, "atan2", C(a, "double"), C(b, "double")))
    for a, b, c in [(1, 2, 3), (3, 2, 1), (-1, -5, 0), (7, 7, 7)]:
        out.append(case(N, "greatest", C(a, "int"), C(b, "int"), C(c, "int")))
        out.append(case(N, "least", C(a, "int"), C(b, "int"), C(c, "int")))
    for n in [0, 1, 5, 255, 1024, -1]:
        out.append(case(N, "bin", C(n, "bigint")))
        out.append(case(N, "hex", C(n, "bigint")))
        out.append(case(N, "bitwise_not", C(n, "int")))
        for k in (1, 3):
            out.append(case(N, "shiftleft", C(n, "int"), P(k)))
            out.append(case(N, "shiftright", C(n, "int"), P(k)))
    strs = ["hello world", "Hello", "  pad  ", "", "a,b,c", "ÄÖü straße", "x"]
    for f in ["upper", "lower", "length", "trim", "ltrim", "rtrim", "reverse", "ascii", "md5", "sha1", "base64", "soundex", "char_length", "bit_length", "ucase", "lcase", "hex", "sha"]:
        for v in strs:
            # on DuckDB soundex is sqlframe's OWN Python function (util.soundex registered as SOUNDEX)
            out.append(case("emul:soundex" if f == "soundex" else N, f, C(v, "string")))
    for v in ["aGVsbG8=", "eA==", ""]:
        out.append(case(N, "unbase64", C(v, "string")))
    for v in strs:
        out.append(case(N, "repeat", C(v, "string"), P(2)))
        out.append(case(N, "concat", C(v, "string"), C("-z", "string")))
        out.append(case(N, "concat_ws", P("|"), C(v, "string"), C("z", "string")))
        out.append(case(N, "split", C(v, "string"), P(",")))
        out.append(case(N, "translate", C(v, "string"), P("lo"), P("01")))
        out.append(case(N, "regexp_replace", C(v, "string"), P("l+"), P("L")))
        out.append(case(N, "regexp_extract", C(v, "string"), P("(\\w+) (\\w+)"), P(2)))
        out.append(case(N, "replace", C(v, "string"), L("l"), L("L")))
        out.append(case(N, "startswith", C(v, "string"), L("he")))
        out.append(case(N, "endswith", C(v, "string"), L("ld")))
        out.append(case(N, "contains", C(v, "string"), L("lo w")))
        out.append(case(N, "left", C(v, "string"), L(3)))
        out.append(case(N, "right", C(v, "string"), L(3)))
        out.append(case(N, "levenshtein", C(v, "string"), C("hallo", "string")))
        out.append(case(N, "substr", C(v, "string"), L(2), L(3)))
        out.append(case(N, "split_part", C(v, "string"), L(","), L(2)))
        out.append(case(N, "position", L("o"), C(v, "string")))
        out.append(case(N, "rlike", C(v, "string"), L("^h.*d$")))
        out.append(case(N, "sha2", C(v, "string"), P(256)))
        out.append(case(N, "btrim", C(v, "string")))
        out.append(case(N, "encode", C(v, "string"), P("UTF-8")))
    dates = ["2024-01-31", "2023-12-31", "2024-02-29", "2000-03-01", "2021-07-04"]
    for f in ["year", "month", "dayofmonth", "day", "dayofweek", "dayofyear", "quarter", "weekofyear", "last_day", "unix_date"]:
        for d in dates:
            out.append(case(N, f, C(D(d), "date")))
    for d in dates:
        out.append(case(N, "add_months", C(D(d), "date"), P(1)))
        out.append(case(N, "add_months", C(D(d), "date"), P(-13)))
        out.append(case(N, "datediff", C(D(d), "date"), C(D("2024-01-01"), "date")))
        out.append(case(N, "months_between", C(D(d), "date"), C(D("2024-01-01"), "date")))
        out.append(case(N, "date_format", C(D(d), "date"), P("yyyy-MM-dd")))
        out.append(case(N, "date_format", C(D(d), "date"), P("dd/MM/yyyy")))
        out.append(case(N, "date_format", C(D(d), "date"), P("yyyy MMM dd EEE")))
        out.append(case(N, "trunc", C(D(d), "date"), P("month")))
        out.append(case(N, "trunc", C(D(d), "date"), P("year")))
        out.append(case(N, "to_date", C(d, "string")))
        out.append(case(N, "to_date", C(d.replace("-", "/"), "string"), P("yyyy/MM/dd")))
        out.append(case(N, "make_date", C(int(d[:4]), "int"), C(int(d[5:7]), "int"), C(int(d[8:]), "int")))
    for ts in ["2024-01-31 13:45:09", "1999-12-31 23:59:59"]:
        for f in ["hour", "minute", "second", "year", "to_date"]:
            out.append(case(N, f, C({"ts": ts}, "timestamp")))
        out.append(case(N, "date_trunc", P("hour"), C({"ts": ts}, "timestamp")))
        out.append(case(N, "date_format", C({"ts": ts}, "timestamp"), P("yyyy-MM-dd HH:mm:ss")))
        out.append(case(N, "to_timestamp", C(ts, "string")))
    arrs = [XS, [3, 1, 2], [5, 5, 1, 9, 1, 7, 3], [7]]
    for xs in arrs:
        for f in ["size", "array_distinct", "array_sort", "sort_array", "reverse", "array_size"]:
            out.append(case(N, f, C(xs, "array<int>")))
        out.append(case(N, "array_contains", C(xs, "array<int>"), P(1)))
        out.append(case(N, "array_join", C(xs, "array<int>"), P(",")))
        out.append(case(N, "array_remove", C(xs, "array<int>"), P(1)))
        out.append(case(N, "array_append", C(xs, "array<int>"), P(4)))
        out.append(case(N, "array_union", C(xs, "array<int>"), C([1, 50, 60], "array<int>"), unordered=True))
        out.append(case(N, "array_intersect", C(xs, "array<int>"), C([1, 50, 60, 5], "array<int>"), unordered=True))
        out.append(case(N, "arrays_overlap", C(xs, "array<int>"), C([1, 50, 60], "array<int>")))
        out.append(case(N, "sort_array", C(xs, "array<int>"), P(False)))
        out.append(case(N, "concat", C(xs, "array<int>"), C([0], "array<int>")))
    out.append(case(N, "flatten", C([[1, 2], [3]], "array<array<int>>")))
    for a, b in [(1, 2), (None, 2), (1, None), (None, None)]:
        out.append(case(N, "coalesce", C(a, "int"), C(b, "int")))
        out.append(case(N, "nvl", C(a, "int"), C(b, "int")))
        out.append(case(N, "ifnull", C(a, "int"), C(b, "int")))
        out.append(case(N, "nullif", C(a, "int"), C(b, "int")))
        out.append(case(N, "nvl2", C(a, "int"), C(b, "int"), C(9, "int")))
        out.append(case(N, "isnull", C(a, "int")))
    for x in [1.0, float("nan")]:
        out.append(case(N, "isnan", C(x, "double")))
        out.append(case(N, "nanvl", C(x, "double"), C(7.0, "double")))
    # NULL in -> NULL out (where Spark does)
    for f in ["factorial", "rint", "log1p", "expm1", "abs", "upper", "length", "year"]:
        ty = {"factorial": "int", "upper": "string", "length": "string", "year": "date"}.get(f, "double")
        out.append(case("emul:null" if f in ("factorial", "rint", "log1p", "expm1") else N, f, C(None, ty), tag="null-in"))
    out.append(case("emul:null", "element_at", C(None, "array<int>"), P(1), tag="null-in"))
    out.append(case("emul:null", "slice", C(None, "array<int>"), P(1), P(1), tag="null-in"))
    out.append(case("emul:null", "array_position", C(None, "array<int>"), P(1), tag="null-in"))
    return out


def aggregate_cases() -> t.List[dict]:
    """aggregations over ONE group of exactly these rows: sizes 1, 2, 3, 4+ (small groups are where the
    emulated moments — skewness, kurtosis — have their special cases), ties, negatives"""
    out: t.List[dict] = []
    groups = [[4.0], [1.0, 4.0], [-2.5, 7.25], [3.0, 3.0], [1.0, 2.0, 10.0], [5.0, 5.0, 5.0], [1.0, 2.0, 3.0, 10.0], [2.0, -1.0, 0.5, 8.0, 8.0, -3.0, 4.0]]
    for xs in groups:
        for f in ["skewness", "kurtosis", "avg", "mean", "sum", "min", "max", "count", "stddev", "stddev_samp", "stddev_pop", "variance", "var_samp", "var_pop", "median", "product", "sum_distinct", "count_distinct"]:
            out.append(agg_case("agg", f, xs, "double"))
        out.append(agg_case("agg", "collect_list", xs, "double", post="sort_array"))
        out.append(agg_case("agg", "collect_set", xs, "double", post="sort_array"))
        out.append(agg_case("agg", "collect_list", xs, "double", post="array_max"))
    for xs in [[True], [True, False], [False, False, False]]:
        out.append(agg_case("agg", "bool_and", xs, "boolean"))
        out.append(agg_case("agg", "bool_or", xs, "boolean"))
    for xs in [["b"], ["b", "a"], ["c", "a", "b", "a"]]:
        out.append(agg_case("agg", "min", xs, "string"))
        out.append(agg_case("agg", "max", xs, "string"))
        out.append(agg_case("agg", "count_distinct", xs, "string"))
        out.append(agg_case("agg", "collect_set", xs, "string", post="sort_array"))
    return out


def composition_cases() -> t.List[dict]:
    """a value-producing function nested inside an array-producing function or aggregate, collected to Rows:
    exercises sqlframe's own conversion of engine values to PySpark's Python values (naive datetimes,
    dates, Rows) at every nesting depth"""
    out: t.List[dict] = []
    R = "emul:rowconv"
    t1, t2, t3 = "2024-01-15 10:30:00", "2024-02-15 11:30:00", "2023-12-31 23:59:59"
    for ts in (t1, t3):
        out.append(case(R, "to_timestamp", C(ts, "string")))
        out.append(case(R, "array", E("to_timestamp", C(ts, "string"))))
        out.append(case(R, "array", E("to_date", C(ts[:10], "string"))))
        out.append(case(R, "array", C({"ts": ts}, "timestamp")))
    out.append(case(R, "array", E("to_timestamp", C(t2, "string")), E("to_timestamp", C(t1, "string"))))
    out.append(case(R, "sort_array", E("array", E("to_timestamp", C(t2, "string")), E("to_timestamp", C(t1, "string")))))
    out.append(case(R, "array_max", E("array", E("to_timestamp", C(t2, "string")), E("to_timestamp", C(t1, "string")))))
    out.append(case(R, "element_at", E("array", E("to_timestamp", C(t2, "string")), E("to_timestamp", C(t1, "string"))), P(2)))
    out.append(case(R, "array_distinct", E("array", E("to_timestamp", C(t1, "string")), E("to_timestamp", C(t1, "string")))))
    out.append(case(R, "array", E("array", E("to_timestamp", C(t1, "string")))))
    out.append(case(R, "array", C("x", "string"), C("y", "string")))
    out.append(case(R, "array", C(1.5, "double"), C(2.5, "double")))
    for rows in ([t1], [t2, t1], [t3, t1, t2]):
        out.append(agg_case(R, "collect_list", rows, "string", pre="to_timestamp", post="sort_array"))
        out.append(agg_case(R, "collect_set", rows, "string", pre="to_timestamp", post="sort_array"))
        out.append(agg_case(R, "collect_list", rows, "string", pre="to_timestamp", post="array_max"))
        out.append(agg_case(R, "max", rows, "string", pre="to_timestamp"))
        out.append(agg_case(R, "collect_list", [r[:10] for r in rows], "string", pre="to_date", post="sort_array"))
    return out


SOUNDEX_NAMES = [
    "Ashcraft", "Ashcroft", "Tymczak", "Pfister", "Honeyman", "Robert", "Rupert", "Rubin", "Schwarz", "Sawhney", "Lowhill",
    "Wheaton", "Burroughs", "Burrows", "Chwhs", "bhp", "BWF", "Schschs", "kHq", "dwt", "mhn", "Lhl", "rwr", "Jackson", "Lloyd",
    "a", "H", "hh", "Whw", "Hwhb", "O'Hara", "van der Berg", "Smith-Jones", "Mc Hugh", "Tsch3ch", "peters", "UHRBACH", "x9s", "Czs z",
    "3M", "-dash", " lead", "9", "",
]


def soundex_cases() -> t.List[dict]:
    """names with H / W between same-coded consonants, same-coded neighbours, non-letters inside, non-letter first"""
    return [case("emul:soundex", "soundex", C(n, "string")) for n in SOUNDEX_NAMES]


def all_cases() -> t.List[dict]:
    cs = emulation_cases() + native_cases() + aggregate_cases() + composition_cases() + soundex_cases()
    for i, c in enumerate(cs):
        c["id"] = f"{i}:{c['fn']}"
    return cs


# ------------------------------------------------------------------------------------------------
# random emulation cases (same shapes, seeded) — used impl vs model vs spec and, thorough, on a live JVM
# ------------------------------------------------------------------------------------------------


def random_name(rng: random.Random) -> str:
    """an ASCII name biased towards same-coded consonants separated by H / W / vowels / non-letters"""
    classes = ["bfpv", "cgjkqsxz", "dt", "l", "mn", "r"]
    out = [rng.choice("abcdefghijklmnopqrstuvwxyz")]
    for _ in range(rng.randint(0, 7)):
        r = rng.random()
        if r < 0.35 and len(out) >= 1:
            cls = next((c for c in classes if out[-1].lower() in c), rng.choice(classes))
            sep = rng.choice(["", "h", "w", "hw", "a", "y", "-", " ", "1", "hh"])
            out.append(sep + rng.choice(cls))
        elif r < 0.5:
            out.append(rng.choice("hw"))
        elif r < 0.6:
            out.append(rng.choice("' -.9"))
        else:
            out.append(rng.choice("abcdefghijklmnopqrstuvwxyz"))
    s = "".join(out)
    return s.upper() if rng.random() < 0.15 else (s.capitalize() if rng.random() < 0.5 else s)


def random_emulation_cases(rng: random.Random, n: int) -> t.List[dict]:
    out: t.List[dict] = []
    kinds = ["soundex", "soundex", "factorial", "element_at", "try_element_at", "getItem", "slice", "array_position", "sequence", "rint", "overlay", "date_add", "date_sub", "array_min", "array_max"]
    for i in range(n):
        k = kinds[i % len(kinds)] if i < 4 * len(kinds) else rng.choice(kinds)
        ln = rng.randint(1, 7)
        xs = [rng.randint(-20, 20) for _ in range(ln)]
        if k == "soundex":
            out.append(case("emul:soundex", k, C(random_name(rng), "string")))
        elif k == "factorial":
            out.append(case("emul:factorial", k, C(rng.randint(0, 20), "int")))
        elif k in ("element_at", "try_element_at"):
            idx = rng.choice([j for j in range(-(ln + 2), ln + 3) if j != 0])
            out.append(case("emul:" + k, k, C(xs, "array<int>"), P(idx) if k == "element_at" else L(idx)))
        elif k == "getItem":
            out.append(case("emul:getItem", k, C(xs, "array<int>"), P(rng.randint(0, ln + 1))))
        elif k == "slice":
            s = rng.choice([j for j in range(-ln, ln + 3) if j != 0])
            out.append(case("emul:slice", k, C(xs, "array<int>"), P(s), P(rng.randint(0, ln + 2))))
        elif k == "array_position":
            out.append(case("emul:array_position", k, C(xs, "array<int>"), P(rng.choice(xs + [99]))))
        elif k == "sequence":
            a, b = rng.randint(-10, 10), rng.randint(-10, 10)
            if rng.random() < 0.5:
                out.append(case("emul:sequence", k, C(a, "int"), C(b, "int")))
            else:
                st = rng.randint(1, 4) * (1 if b >= a else -1)
                out.append(case("emul:sequence", k, C(a, "int"), C(b, "int"), C(st, "int")))
        elif k == "rint":
            out.append(case("emul:rint", k, C(rng.randint(-41, 41) / 2.0 if rng.random() < 0.6 else round(rng.uniform(-50, 50), 3), "double")))
        elif k == "overlay":
            s = "".join(rng.choice("abcdefgh") for _ in range(rng.randint(1, 9)))
            r = "".join(rng.choice("XYZ") for _ in range(rng.randint(0, 3)))
            pos = rng.randint(1, len(s) + 1)
            if rng.random() < 0.5:
                out.append(case("emul:overlay", k, C(s, "string"), C(r, "string"), P(pos)))
            else:
                out.append(case("emul:overlay", k, C(s, "string"), C(r, "string"), P(pos), P(rng.randint(0, len(s) + 2))))
        elif k in ("date_add", "date_sub"):
            d = datetime.date(2000, 1, 1) + datetime.timedelta(days=rng.randint(0, 12000))
            out.append(case("emul:" + k, k, C(D(d.isoformat()), "date"), P(rng.randint(-800, 800))))
        else:
            out.append(case("emul:" + k, k, C(xs, "array<int>")))
    for i, c in enumerate(out):
        c["id"] = f"r{i}:{c['fn']}"
    return out


# ------------------------------------------------------------------------------------------------
# evaluation on a PySpark-compatible API
# ------------------------------------------------------------------------------------------------


def py_value(v: t.Any) -> t.Any:
    if isinstance(v, dict) and "date" in v:
        return datetime.date.fromisoformat(v["date"])
    if isinstance(v, dict) and "ts" in v:
        return datetime.datetime.fromisoformat(v["ts"])
    return v


def canon(v: t.Any) -> t.Any:
    """JSON-able canonical form of a collected value"""
    if v is None or isinstance(v, (bool, int, str)):
        return v
    if isinstance(v, float):
        if math.isnan(v):
            return {"f": "nan"}
        if math.isinf(v):
            return {"f": "inf" if v > 0 else "-inf"}
        return {"f": v}
    if isinstance(v, decimal.Decimal):
        return {"f": float(v)}
    if isinstance(v, datetime.datetime):
        if v.tzinfo is not None:  # PySpark hands back naive datetimes: a tz-aware one is a different value
            return {"ts": v.replace(tzinfo=None).isoformat(sep=" "), "tzinfo": str(v.tzinfo)}
        return {"ts": v.isoformat(sep=" ")}
    if isinstance(v, datetime.date):
        return {"date": v.isoformat()}
    if isinstance(v, (bytes, bytearray)):
        return {"bytes": bytes(v).hex()}
    if isinstance(v, (list, tuple)):
        return [canon(x) for x in v]
    if isinstance(v, dict):
        return {"map": sorted([[canon(k), canon(x)] for k, x in v.items()], key=repr)}
    if hasattr(v, "asDict"):
        return {"row": [canon(x) for x in v]}
    return {"repr": repr(v)}


def same_value(a: t.Any, b: t.Any, unordered: bool = False) -> bool:
    if isinstance(a, dict) and isinstance(b, dict) and "f" in a and "f" in b:
        x, y = a["f"], b["f"]
        if isinstance(x, str) or isinstance(y, str):
            return x == y
        return x == y or abs(x - y) <= 1e-9 * max(1.0, abs(x), abs(y))
    # int vs integral float (DuckDB BIGINT vs Spark double and vice versa)
    if isinstance(a, dict) and "f" in a and isinstance(b, int) and not isinstance(b, bool):
        return not isinstance(a["f"], str) and a["f"] == b
    if isinstance(b, dict) and "f" in b and isinstance(a, int) and not isinstance(a, bool):
        return not isinstance(b["f"], str) and b["f"] == a
    if isinstance(a, list) and isinstance(b, list):
        if len(a) != len(b):
            return False
        if unordered:
            return sorted(map(repr, a)) == sorted(map(repr, b))
        return all(same_value(x, y) for x, y in zip(a, b))
    return a == b


def _walk_cols(args: t.List[dict]) -> t.Iterator[dict]:
    for a in args:
        if "c" in a:
            yield a
        elif "e" in a:
            yield from _walk_cols(a["e"]["args"])


def _build_args(F: t.Any, args: t.List[dict], colname: t.Dict[int, str]) -> list:
    out = []
    for a in args:
        if "c" in a:
            out.append(F.col(colname[id(a)]))
        elif "l" in a:
            out.append(F.lit(py_value(a["l"])))
        elif "e" in a:
            out.append(getattr(F, a["e"]["fn"])(*_build_args(F, a["e"]["args"], colname)))
        else:
            out.append(py_value(a["p"]))
    return out


def build_expr(F: t.Any, c: dict, colname: t.Dict[int, str]) -> t.Any:
    args = _build_args(F, c["args"], colname)
    if c["fn"] == "getItem":
        return args[0].getItem(args[1])
    return getattr(F, c["fn"])(*args)


def is_agg(c: dict) -> bool:
    return bool(c["args"]) and "r" in c["args"][0]


def evaluate_aggs(F: t.Any, create_df: t.Callable[[list, str], t.Any], cases: t.List[dict], idxs: t.List[int], out: t.List[t.Optional[dict]]) -> None:
    """every aggregate case is one group of a (g, v) frame; one groupBy per column type computes every
    (pre, fn, post) combination that occurs for that type"""
    by_type: t.Dict[t.Tuple[str, t.Optional[str]], t.List[int]] = {}
    for i in idxs:
        # cases with a `pre` function get a frame of their own: it must only see rows it is meant for
        by_type.setdefault((cases[i]["args"][0]["t"], cases[i].get("pre")), []).append(i)
    for (ty, _pre), ids in by_type.items():
        rows = [(g, py_value(v)) for g, i in enumerate(ids) for v in cases[i]["args"][0]["r"]]
        try:
            df = create_df(rows, f"g int, v {ty}")
        except Exception as e:  # noqa
            for i in ids:
                out[i] = {"error": f"createDataFrame: {type(e).__name__}: {str(e)[:120]}"}
            continue
        triples: t.Dict[t.Tuple, str] = {}
        for i in ids:
            key = (cases[i].get("pre"), cases[i]["fn"], cases[i].get("post"))
            triples.setdefault(key, f"e{len(triples)}")

        def build(key: t.Tuple) -> t.Any:
            pre, fn, post = key
            x = F.col("v")
            if pre:
                x = getattr(F, pre)(x)
            x = getattr(F, fn)(x)
            if post:
                x = getattr(F, post)(x)
            return x.alias(triples[key])

        def run(keys: t.List[t.Tuple]) -> None:
            exprs, live = [], []
            for k in keys:
                try:
                    exprs.append(build(k))
                    live.append(k)
                except Exception as e:  # noqa
                    for i in ids:
                        if (cases[i].get("pre"), cases[i]["fn"], cases[i].get("post")) == k:
                            out[i] = {"error": f"build: {type(e).__name__}: {str(e)[:160]}"}
            if not live:
                return
            try:
                res = {r[0]: r for r in df.groupBy("g").agg(*exprs).collect()}
                for g, i in enumerate(ids):
                    k = (cases[i].get("pre"), cases[i]["fn"], cases[i].get("post"))
                    if k in live:
                        out[i] = {"value": canon(res[g][1 + live.index(k)])} if g in res else {"error": "group missing from the result"}
            except Exception as e:  # noqa
                if len(live) == 1:
                    for i in ids:
                        if (cases[i].get("pre"), cases[i]["fn"], cases[i].get("post")) == live[0]:
                            out[i] = {"error": f"run: {type(e).__name__}: {str(e).strip().splitlines()[0][:160] if str(e).strip() else ''}"}
                else:
                    mid = len(live) // 2
                    run(live[:mid])
                    run(live[mid:])

        run(list(triples))


def evaluate(F: t.Any, create_df: t.Callable[[list, str], t.Any], cases: t.List[dict], batch: int = 60) -> t.List[dict]:
    """returns per case {"value": canon} or {"error": "Type: msg"}"""
    out: t.List[t.Optional[dict]] = [None] * len(cases)
    agg_idx = [i for i, c in enumerate(cases) if is_agg(c)]
    if agg_idx:
        evaluate_aggs(F, create_df, cases, agg_idx, out)

    def run(idxs: t.List[int]) -> None:
        cols: t.List[t.Tuple[str, str, t.Any]] = []
        colname: t.Dict[int, str] = {}
        seen: t.Dict[str, str] = {}
        for i in idxs:
            for a in _walk_cols(cases[i]["args"]):
                key = repr((a["t"], a["c"]))
                if key not in seen:
                    seen[key] = f"v{len(cols)}"
                    cols.append((seen[key], a["t"], py_value(a["c"])))
                colname[id(a)] = seen[key]
        if not cols:
            cols.append(("v0", "int", 0))
        schema = ", ".join(f"{n} {ty}" for n, ty, _ in cols)
        exprs = []
        live = []
        try:
            df = create_df([tuple(v for _, _, v in cols)], schema)
        except Exception as e:  # noqa
            for i in idxs:
                out[i] = {"error": f"createDataFrame: {type(e).__name__}: {str(e)[:120]}"}
            return
        for i in idxs:
            try:
                exprs.append(build_expr(F, cases[i], colname).alias(f"r{i}"))
                live.append(i)
            except Exception as e:  # noqa
                out[i] = {"error": f"build: {type(e).__name__}: {str(e)[:160]}"}
        if not live:
            return
        try:
            row = df.select(*exprs).collect()[0]
            for j, i in enumerate(live):
                out[i] = {"value": canon(row[j])}
        except Exception as e:  # noqa
            if len(live) == 1:
                out[live[0]] = {"error": f"run: {type(e).__name__}: {str(e).strip().splitlines()[0][:160] if str(e).strip() else ''}"}
            else:
                mid = len(live) // 2
                run(live[:mid])
                run(live[mid:])

    scalar_idx = [i for i, c in enumerate(cases) if not is_agg(c)]
    for s in range(0, len(scalar_idx), batch):
        run(scalar_idx[s : s + batch])
    return [o if o is not None else {"error": "not evaluated"} for o in out]
