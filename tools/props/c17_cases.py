"""
c17_cases.py — typed function-call cases for C17 and their evaluation on a PySpark-compatible API
(live PySpark 3.5.9 when recording tools/oracle/spark_values.json; sqlframe on DuckDB in the check).

A case:  {"id", "fn", "args": [arg…], "group": "emul:<name>" | "native", "unordered": bool}
  arg =  {"c": value, "t": "<ddl type>"}   a column of a one-row DataFrame
         {"p": value}                      a plain Python argument (int position, format string, …)
         {"l": value}                      functions.lit(value)
         {"e": {"fn":…, "args":[…]}}       a nested function call (composition of functions)
         {"r": [values…], "t": "<type>"}   a MULTI-ROW column: the case is an aggregation over one group holding
                                           exactly these rows; optional "pre" (function applied to the column
                                           before aggregating) and "post" (function applied to the aggregate)
                                           and "xargs" (plain Python arguments that follow the column in the
                                           aggregate's call, e.g. first(v, True))
  fn "getItem" is Column.getItem:  col(args[0]).getItem(args[1])
  fn "prog"    is a COLUMN PROGRAM (no args): "prog" = a list of let-bindings, each deriving a Column from earlier
               bindings of the same program (shared objects, as a user who keeps a partially built column in a
               variable has them); every binding is evaluated AFTER all of them were built, over the rows "rows"
               of an int column x.  Value = [[value of binding b on row r, r in rows], b in bindings].
Dates travel as {"date": "YYYY-MM-DD"}; timestamps as {"ts": "YYYY-MM-DD HH:MM:SS"}.
"""
from __future__ import annotations

import datetime
import decimal
import json
import math
import random
import typing as t

XS = [10, 20, 30, 40, 50]


def C(v: t.Any, ty: str) -> dict:
    return {"c": v, "t": ty}


def P(v: t.Any) -> dict:
    return {"p": v}


def L(v: t.Any) -> dict:
    return {"l": v}


def D(s: str) -> dict:
    return {"date": s}


def E(fn: str, *args: dict) -> dict:
    return {"e": {"fn": fn, "args": list(args)}}


def agg_case(group: str, fn: str, rows: list, ty: str, pre: t.Optional[str] = None, post: t.Optional[str] = None, unordered: bool = False, xargs: t.Optional[list] = None) -> dict:
    c = {"fn": fn, "args": [{"r": rows, "t": ty}], "group": group, "unordered": unordered, "tag": "agg"}
    if xargs:
        c["xargs"] = list(xargs)
    if pre:
        c["pre"] = pre
    if post:
        c["post"] = post
    return c


def case(group: str, fn: str, *args: dict, unordered: bool = False, tag: str = "") -> dict:
    return {"fn": fn, "args": list(args), "group": group, "unordered": unordered, "tag": tag}


# ------------------------------------------------------------------------------------------------
# the recorded (fixed) case set
# ------------------------------------------------------------------------------------------------


def emulation_cases() -> t.List[dict]:
    out: t.List[dict] = []
    for n in list(range(0, 22)) + [-1]:
        out.append(case("emul:factorial", "factorial", C(n, "int")))
    lists = [XS, [7], [3, 1, 2], [5, 5, 1, 9, 1, 7, 3]]
    for xs in lists:
        n = len(xs)
        for k in range(-(n + 1), n + 2):
            if k != 0:
                out.append(case("emul:element_at", "element_at", C(xs, "array<int>"), P(k)))
                out.append(case("emul:try_element_at", "try_element_at", C(xs, "array<int>"), L(k)))
        for k in range(0, n + 1):
            out.append(case("emul:getItem", "getItem", C(xs, "array<int>"), P(k)))
        for s in list(range(1, n + 2)) + list(range(-n, 0)):
            for ln in range(0, n + 2):
                out.append(case("emul:slice", "slice", C(xs, "array<int>"), P(s), P(ln)))
        for v in sorted(set(xs)) + [99]:
            out.append(case("emul:array_position", "array_position", C(xs, "array<int>"), P(v)))
        out.append(case("emul:array_min", "array_min", C(xs, "array<int>")))
        out.append(case("emul:array_max", "array_max", C(xs, "array<int>")))
    for a, b in [(1, 5), (5, 1), (3, 3), (-2, 2), (2, -2), (0, 7), (7, 0)]:
        out.append(case("emul:sequence", "sequence", C(a, "int"), C(b, "int")))
        for st in (1, 2, 3, -1, -2):
            if (b - a) * st >= 0:
                out.append(case("emul:sequence", "sequence", C(a, "int"), C(b, "int"), C(st, "int")))
    for k in range(-9, 10):
        out.append(case("emul:rint", "rint", C(k / 2.0, "double")))
    for x in [0.3, 0.7, 1.2, -1.2, 2.49, 2.51, 1e6 + 0.25, -0.5000001]:
        out.append(case("emul:rint", "rint", C(x, "double")))
    for x in [0.0, 1.0, 0.5, 2.0, 10.0, 1e-9, 123.456, -0.5]:
        out.append(case("emul:log1p", "log1p", C(x, "double")))
        out.append(case("emul:expm1", "expm1", C(x, "double")))
    s = "hello world"
    for pos in range(1, len(s) + 2):
        for ln in (None, 0, 1, 3, 20):
            if ln is None:
                out.append(case("emul:overlay", "overlay", C(s, "string"), C("XY", "string"), P(pos)))
            else:
                out.append(case("emul:overlay", "overlay", C(s, "string"), C("XY", "string"), P(pos), P(ln)))
    for d in ["2024-01-31", "2023-12-31", "2024-02-29", "2000-03-01"]:
        for n in (-400, -31, -1, 0, 1, 28, 365):
            out.append(case("emul:date_add", "date_add", C(D(d), "date"), P(n)))
            out.append(case("emul:date_sub", "date_sub", C(D(d), "date"), P(n)))
    for sub in ["o", "l", "world", "z", "h", "d", ""]:
        # the empty needle is an engine edge case (sqlglot's StrPosition-with-position emulation): native group
        gi, gl = ("argorder:instr", "argorder:locate") if sub else ("native", "native")
        out.append(case(gi, "instr", C(s, "string"), P(sub)))
        out.append(case(gl, "locate", P(sub), C(s, "string")))
        for pos in (1, 2, 5, 6, 9, 11):
            out.append(case(gl, "locate", P(sub), C(s, "string"), P(pos)))
    for ln in (0, 1, 5, 11, 12, 15, 16):
        for pad in ("x", "xy", "abc"):
            out.append(case("argorder:lpad", "lpad", C(s, "string"), P(ln), P(pad)))
            out.append(case("argorder:rpad", "rpad", C(s, "string"), P(ln), P(pad)))
    for pos in range(1, 13):
        for ln in (0, 1, 4, 30):
            out.append(case("argorder:substring", "substring", C(s, "string"), P(pos), P(ln)))
    return out


def native_cases() -> t.List[dict]:
    out: t.List[dict] = []
    N = "native"
    dbl = [0.0, 1.0, -1.0, 0.5, 2.0, 9.0, -7.25, 123.456]
    for f in ["abs", "ceil", "floor", "signum", "cbrt", "exp", "sin", "cos", "tan", "atan", "degrees", "radians"]:
        for x in dbl:
            out.append(case(N, f, C(x, "double")))
    for f in ["sqrt", "ln", "log10", "log2"]:
        for x in [1.0, 0.5, 2.0, 9.0, 123.456]:
            out.append(case(N, f, C(x, "double")))
    for f in ["asin", "acos"]:
        for x in [0.0, 1.0, -1.0, 0.5]:
            out.append(case(N, f, C(x, "double")))
    for x in [2.5, 3.5, -2.5, 1.25, 1.35, 0.125, 123.456]:
        for sc in (0, 1, 2):
            out.append(case(N, "round", C(x, "double"), P(sc)))
    for a, b in [(2.0, 3.0), (9.0, 0.5), (-2.0, 3.0), (2.0, -1.0)]:
        out.append(case(N, "pow", C(a, "double"), C(b, "double")))
        out.append(case(N, "atan2", C(a, "double"), C(b, "double")))
    for a, b, c in [(1, 2, 3), (3, 2, 1), (-1, -5, 0), (7, 7, 7)]:
        out.append(case(N, "greatest", C(a, "int"), C(b, "int"), C(c, "int")))
        out.append(case(N, "least", C(a, "int"), C(b, "int"), C(c, "int")))
    for n in [0, 1, 5, 255, 1024, -1]:
        out.append(case(N, "bin", C(n, "bigint")))
        out.append(case(N, "hex", C(n, "bigint")))
        out.append(case(N, "bitwise_not", C(n, "int")))
        for k in (1, 3):
            out.append(case(N, "shiftleft", C(n, "int"), P(k)))
            out.append(case(N, "shiftright", C(n, "int"), P(k)))
    strs = ["hello world", "Hello", "  pad  ", "", "a,b,c", "ÄÖü straße", "x"]
    for f in ["upper", "lower", "length", "trim", "ltrim", "rtrim", "reverse", "ascii", "md5", "sha1", "base64", "soundex", "char_length", "bit_length", "ucase", "lcase", "hex", "sha"]:
        for v in strs:
            # on DuckDB soundex is sqlframe's OWN Python function (util.soundex registered as SOUNDEX)
            out.append(case("emul:soundex" if f == "soundex" else N, f, C(v, "string")))
    for v in ["aGVsbG8=", "eA==", ""]:
        out.append(case(N, "unbase64", C(v, "string")))
    for v in strs:
        out.append(case(N, "repeat", C(v, "string"), P(2)))
        out.append(case(N, "concat", C(v, "string"), C("-z", "string")))
        out.append(case(N, "concat_ws", P("|"), C(v, "string"), C("z", "string")))
        out.append(case(N, "split", C(v, "string"), P(",")))
        out.append(case(N, "translate", C(v, "string"), P("lo"), P("01")))
        out.append(case(N, "regexp_replace", C(v, "string"), P("l+"), P("L")))
        out.append(case(N, "regexp_extract", C(v, "string"), P("(\\w+) (\\w+)"), P(2)))
        out.append(case(N, "replace", C(v, "string"), L("l"), L("L")))
        out.append(case(N, "startswith", C(v, "string"), L("he")))
        out.append(case(N, "endswith", C(v, "string"), L("ld")))
        out.append(case(N, "contains", C(v, "string"), L("lo w")))
        out.append(case(N, "left", C(v, "string"), L(3)))
        out.append(case(N, "right", C(v, "string"), L(3)))
        out.append(case(N, "levenshtein", C(v, "string"), C("hallo", "string")))
        out.append(case(N, "substr", C(v, "string"), L(2), L(3)))
        out.append(case(N, "split_part", C(v, "string"), L(","), L(2)))
        out.append(case(N, "position", L("o"), C(v, "string")))
        out.append(case(N, "rlike", C(v, "string"), L("^h.*d$")))
        out.append(case(N, "sha2", C(v, "string"), P(256)))
        out.append(case(N, "btrim", C(v, "string")))
        out.append(case(N, "encode", C(v, "string"), P("UTF-8")))
    dates = ["2024-01-31", "2023-12-31", "2024-02-29", "2000-03-01", "2021-07-04"]
    for f in ["year", "month", "dayofmonth", "day", "dayofweek", "dayofyear", "quarter", "weekofyear", "last_day", "unix_date"]:
        for d in dates:
            out.append(case(N, f, C(D(d), "date")))
    for d in dates:
        out.append(case(N, "add_months", C(D(d), "date"), P(1)))
        out.append(case(N, "add_months", C(D(d), "date"), P(-13)))
        out.append(case(N, "datediff", C(D(d), "date"), C(D("2024-01-01"), "date")))
        out.append(case(N, "months_between", C(D(d), "date"), C(D("2024-01-01"), "date")))
        out.append(case(N, "date_format", C(D(d), "date"), P("yyyy-MM-dd")))
        out.append(case(N, "date_format", C(D(d), "date"), P("dd/MM/yyyy")))
        out.append(case(N, "date_format", C(D(d), "date"), P("yyyy MMM dd EEE")))
        out.append(case(N, "trunc", C(D(d), "date"), P("month")))
        out.append(case(N, "trunc", C(D(d), "date"), P("year")))
        out.append(case(N, "to_date", C(d, "string")))
        out.append(case(N, "to_date", C(d.replace("-", "/"), "string"), P("yyyy/MM/dd")))
        out.append(case(N, "make_date", C(int(d[:4]), "int"), C(int(d[5:7]), "int"), C(int(d[8:]), "int")))
    for ts in ["2024-01-31 13:45:09", "1999-12-31 23:59:59"]:
        for f in ["hour", "minute", "second", "year", "to_date"]:
            out.append(case(N, f, C({"ts": ts}, "timestamp")))
        out.append(case(N, "date_trunc", P("hour"), C({"ts": ts}, "timestamp")))
        out.append(case(N, "date_format", C({"ts": ts}, "timestamp"), P("yyyy-MM-dd HH:mm:ss")))
        out.append(case(N, "to_timestamp", C(ts, "string")))
    arrs = [XS, [3, 1, 2], [5, 5, 1, 9, 1, 7, 3], [7]]
    for xs in arrs:
        for f in ["size", "array_distinct", "array_sort", "sort_array", "reverse", "array_size"]:
            out.append(case(N, f, C(xs, "array<int>")))
        out.append(case(N, "array_contains", C(xs, "array<int>"), P(1)))
        out.append(case(N, "array_join", C(xs, "array<int>"), P(",")))
        out.append(case(N, "array_remove", C(xs, "array<int>"), P(1)))
        out.append(case(N, "array_append", C(xs, "array<int>"), P(4)))
        out.append(case(N, "array_union", C(xs, "array<int>"), C([1, 50, 60], "array<int>"), unordered=True))
        out.append(case(N, "array_intersect", C(xs, "array<int>"), C([1, 50, 60, 5], "array<int>"), unordered=True))
        out.append(case(N, "arrays_overlap", C(xs, "array<int>"), C([1, 50, 60], "array<int>")))
        out.append(case(N, "sort_array", C(xs, "array<int>"), P(False)))
        out.append(case(N, "concat", C(xs, "array<int>"), C([0], "array<int>")))
    out.append(case(N, "flatten", C([[1, 2], [3]], "array<array<int>>")))
    for a, b in [(1, 2), (None, 2), (1, None), (None, None)]:
        out.append(case(N, "coalesce", C(a, "int"), C(b, "int")))
        out.append(case(N, "nvl", C(a, "int"), C(b, "int")))
        out.append(case(N, "ifnull", C(a, "int"), C(b, "int")))
        out.append(case(N, "nullif", C(a, "int"), C(b, "int")))
        out.append(case(N, "nvl2", C(a, "int"), C(b, "int"), C(9, "int")))
        out.append(case(N, "isnull", C(a, "int")))
    for x in [1.0, float("nan")]:
        out.append(case(N, "isnan", C(x, "double")))
        out.append(case(N, "nanvl", C(x, "double"), C(7.0, "double")))
    # NULL in -> NULL out (where Spark does)
    for f in ["factorial", "rint", "log1p", "expm1", "abs", "upper", "length", "year"]:
        ty = {"factorial": "int", "upper": "string", "length": "string", "year": "date"}.get(f, "double")
        out.append(case("emul:null" if f in ("factorial", "rint", "log1p", "expm1") else N, f, C(None, ty), tag="null-in"))
    out.append(case("emul:null", "element_at", C(None, "array<int>"), P(1), tag="null-in"))
    out.append(case("emul:null", "slice", C(None, "array<int>"), P(1), P(1), tag="null-in"))
    out.append(case("emul:null", "array_position", C(None, "array<int>"), P(1), tag="null-in"))
    return out


def aggregate_cases() -> t.List[dict]:
    """aggregations over ONE group of exactly these rows: sizes 1, 2, 3, 4+ (small groups are where the
    emulated moments — skewness, kurtosis — have their special cases), ties, negatives"""
    out: t.List[dict] = []
    groups = [[4.0], [1.0, 4.0], [-2.5, 7.25], [3.0, 3.0], [1.0, 2.0, 10.0], [5.0, 5.0, 5.0], [1.0, 2.0, 3.0, 10.0], [2.0, -1.0, 0.5, 8.0, 8.0, -3.0, 4.0]]
    for xs in groups:
        for f in ["skewness", "kurtosis", "avg", "mean", "sum", "min", "max", "count", "stddev", "stddev_samp", "stddev_pop", "variance", "var_samp", "var_pop", "median", "product", "sum_distinct", "count_distinct"]:
            out.append(agg_case("agg", f, xs, "double"))
        out.append(agg_case("agg", "collect_list", xs, "double", post="sort_array"))
        out.append(agg_case("agg", "collect_set", xs, "double", post="sort_array"))
        out.append(agg_case("agg", "collect_list", xs, "double", post="array_max"))
    for xs in [[True], [True, False], [False, False, False]]:
        out.append(agg_case("agg", "bool_and", xs, "boolean"))
        out.append(agg_case("agg", "bool_or", xs, "boolean"))
    for xs in [["b"], ["b", "a"], ["c", "a", "b", "a"]]:
        out.append(agg_case("agg", "min", xs, "string"))
        out.append(agg_case("agg", "max", xs, "string"))
        out.append(agg_case("agg", "count_distinct", xs, "string"))
        out.append(agg_case("agg", "collect_set", xs, "string", post="sort_array"))
    return out


def composition_cases() -> t.List[dict]:
    """a value-producing function nested inside an array-producing function or aggregate, collected to Rows:
    exercises sqlframe's own conversion of engine values to PySpark's Python values (naive datetimes,
    dates, Rows) at every nesting depth"""
    out: t.List[dict] = []
    R = "emul:rowconv"
    t1, t2, t3 = "2024-01-15 10:30:00", "2024-02-15 11:30:00", "2023-12-31 23:59:59"
    for ts in (t1, t3):
        out.append(case(R, "to_timestamp", C(ts, "string")))
        out.append(case(R, "array", E("to_timestamp", C(ts, "string"))))
        out.append(case(R, "array", E("to_date", C(ts[:10], "string"))))
        out.append(case(R, "array", C({"ts": ts}, "timestamp")))
    out.append(case(R, "array", E("to_timestamp", C(t2, "string")), E("to_timestamp", C(t1, "string"))))
    out.append(case(R, "sort_array", E("array", E("to_timestamp", C(t2, "string")), E("to_timestamp", C(t1, "string")))))
    out.append(case(R, "array_max", E("array", E("to_timestamp", C(t2, "string")), E("to_timestamp", C(t1, "string")))))
    out.append(case(R, "element_at", E("array", E("to_timestamp", C(t2, "string")), E("to_timestamp", C(t1, "string"))), P(2)))
    out.append(case(R, "array_distinct", E("array", E("to_timestamp", C(t1, "string")), E("to_timestamp", C(t1, "string")))))
    out.append(case(R, "array", E("array", E("to_timestamp", C(t1, "string")))))
    out.append(case(R, "array", C("x", "string"), C("y", "string")))
    out.append(case(R, "array", C(1.5, "double"), C(2.5, "double")))
    for rows in ([t1], [t2, t1], [t3, t1, t2]):
        out.append(agg_case(R, "collect_list", rows, "string", pre="to_timestamp", post="sort_array"))
        out.append(agg_case(R, "collect_set", rows, "string", pre="to_timestamp", post="sort_array"))
        out.append(agg_case(R, "collect_list", rows, "string", pre="to_timestamp", post="array_max"))
        out.append(agg_case(R, "max", rows, "string", pre="to_timestamp"))
        out.append(agg_case(R, "collect_list", [r[:10] for r in rows], "string", pre="to_date", post="sort_array"))
    return out


def lev(a: str, b: str) -> int:
    """Levenshtein distance (the harness's own, to place thresholds at / next to the distance)"""
    prev = list(range(len(b) + 1))
    for i, ca in enumerate(a, 1):
        cur = [i]
        for j, cb in enumerate(b, 1):
            cur.append(min(prev[j] + 1, cur[j - 1] + 1, prev[j - 1] + (ca != cb)))
        prev = cur
    return prev[-1]


LEV_PAIRS = [("kitten", "sitting"), ("spark", "spark"), ("flaw", "lawn"), ("", "abc"), ("abc", ""), ("a", "b"), ("", ""), ("sunday", "saturday"), ("ab", "ba"), ("hello world", "hallo")]


def levenshtein_cases() -> t.List[dict]:
    """levenshtein(l, r, threshold): sqlframe wraps the engine's distance in its own CASE.  For every pair the
    thresholds 0, d-1, d, d+1 and a large one (d = the distance): the boundary and both sides of it"""
    out: t.List[dict] = []
    for a, b in LEV_PAIRS:
        d = lev(a, b)
        out.append(case("emul:levenshtein", "levenshtein", C(a, "string"), C(b, "string")))
        for th in sorted({0, d - 1, d, d + 1, 100} - {-1}):
            out.append(case("emul:levenshtein", "levenshtein", C(a, "string"), C(b, "string"), P(th)))
    return out


FMT_ARGS = [("ab", "string", "s"), (7, "int", "d"), ("cd", "string", "s"), (-42, "int", "d"), ("", "string", "s")]


def fmt_of(segs: t.List[str], kinds: t.List[str]) -> str:
    return "".join(s + ("%" + kinds[i] if i < len(kinds) else "") for i, s in enumerate(segs))


def format_string_cases() -> t.List[dict]:
    """format_string(fmt, *cols) on DuckDB is sqlframe's own splice of text segments and columns.  Every
    arrangement of EMPTY / non-empty segments around 1, 2 and 3 placeholders (adjacent placeholders, a
    placeholder first, a placeholder last), %s and %d, each argument kind; then formats outside the plain
    %s/%d family (a literal %%, no placeholder at all, a width)"""
    out: t.List[dict] = []
    G = "emul:format_string"
    for n in (1, 2, 3):
        for mask in range(2 ** (n + 1)):
            segs = [["", "k=", "-", ";", ": "][(i + mask) % 5] if (mask >> i) & 1 else "" for i in range(n + 1)]
            for shift in (0, 1):
                args = [FMT_ARGS[(i + shift) % len(FMT_ARGS)] for i in range(n)]
                out.append(case(G, "format_string", P(fmt_of(segs, [a[2] for a in args])), *[C(a[0], a[1]) for a in args]))
    out.append(case(G, "format_string", P("%s"), C("", "string")))
    out.append(case(G, "format_string", P("%s%s"), C("ab", "string"), C("ab", "string")))
    out.append(case(G, "format_string", P("%d%d"), C(1, "int"), C(23, "int")))
    out.append(case(G, "format_string", P("a b  c%s "), C("x y", "string")))
    # outside the plain family
    out.append(case(G, "format_string", P("100%% of %s"), C("ab", "string"), tag="fmt-other"))
    out.append(case(G, "format_string", P("%s%%"), C("ab", "string"), tag="fmt-other"))
    out.append(case(G, "format_string", P("hello"), tag="fmt-other"))
    out.append(case(G, "format_string", P("%5d|"), C(7, "int"), tag="fmt-other"))
    out.append(case(G, "format_string", P("%05d"), C(7, "int"), tag="fmt-other"))
    out.append(case(G, "format_string", P("%.2f"), C(1.5, "double"), tag="fmt-other"))
    out.append(case(G, "format_string", P("%s and %s"), C(1.5, "double"), C(True, "boolean"), tag="fmt-other"))
    return out


def coverage_cases() -> t.List[dict]:
    """(a) every DuckDB emulation of the dispatch table that had no case at all, (b) the OPTIONAL-argument forms
    of functions (each optional parameter given, where the plain form was the only one exercised)"""
    out: t.List[dict] = []
    N = "native"
    s = "hello world"
    ts1, ts2 = "2024-01-31 13:45:09", "1999-12-31 23:59:59"
    out.append(case("emul:e", "e"))
    for v in ["hello", "ÄÖü", ""]:
        out.append(case("emul:decode", "decode", E("encode", C(v, "string"), P("UTF-8")), P("UTF-8")))
    for xs, v in [([1, 2, 3], 4), ([], 1), ([5, 5], 5)]:
        out.append(case("emul:array_append", "array_append", C(xs, "array<int>"), P(v)))
        out.append(case("emul:array_remove", "array_remove", C(xs, "array<int>"), P(v)))
        out.append(case("emul:array_remove", "array_remove", C(xs, "array<int>"), P(5)))
    for a, b in [([1, 2], [2, 3]), ([1, 2], [3, 4]), ([], [1]), ([1, 1], [1])]:
        out.append(case("emul:arrays_overlap", "arrays_overlap", C(a, "array<int>"), C(b, "array<int>")))
        out.append(case("emul:array_union", "array_union", C(a, "array<int>"), C(b, "array<int>"), unordered=True))
    for v, pat in [(s, "wor"), (s, "^h.*d$"), (s, "^world"), ("", "a*"), ("abc", "[0-9]")]:
        out.append(case("emul:regexp", "regexp", C(v, "string"), L(pat)))
    for v, suf in [(s, "world"), (s, "hello"), (s, ""), ("", "x"), ("a_b", "_b"), ("axb", "_b")]:
        out.append(case("emul:endswith", "endswith", C(v, "string"), L(suf)))
    for v, search in [(s, "l"), (s, "world"), (s, "zz"), ("", "a")]:
        out.append(case("emul:replace", "replace", C(v, "string"), L(search)))
        out.append(case("emul:replace", "replace", C(v, "string"), L(search), L("<>")))
    for x, y in [(1.0, 7.0), (float("nan"), 7.0), (0.0, float("nan")), (float("nan"), float("nan"))]:
        out.append(case("emul:nanvl", "nanvl", C(x, "double"), C(y, "double")))
    for ts in (ts1, ts2, "1970-01-01 00:00:00", "2024-02-29 00:00:01"):
        out.append(case("emul:unix_millis", "unix_millis", C({"ts": ts}, "timestamp")))
        out.append(case("emul:unix_micros", "unix_micros", C({"ts": ts}, "timestamp")))
        out.append(case("emul:to_unix_timestamp", "to_unix_timestamp", C(ts, "string")))
        out.append(case("emul:to_unix_timestamp", "to_unix_timestamp", C(ts.replace("-", "/"), "string"), L("yyyy/MM/dd HH:mm:ss")))
        out.append(case("emul:try_to_timestamp", "try_to_timestamp", C(ts, "string"), L("yyyy-MM-dd HH:mm:ss")))
        out.append(case("emul:to_timestamp", "to_timestamp", C(ts.replace("-", "/"), "string"), P("yyyy/MM/dd HH:mm:ss")))
        out.append(case("emul:to_timestamp_ntz", "to_timestamp_ntz", C(ts, "string")))
        out.append(case("emul:to_timestamp_ntz", "to_timestamp_ntz", C(ts.replace("-", "/"), "string"), L("yyyy/MM/dd HH:mm:ss")))
    out.append(case("emul:try_to_timestamp", "try_to_timestamp", C("not a time", "string"), L("yyyy-MM-dd HH:mm:ss")))
    for ts in ("2024-01-31 13:45:09.123456", "1969-12-31 23:59:59.500000", "2001-09-09 01:46:40.999"):
        out.append(case("emul:unix_millis", "unix_millis", C({"ts": ts}, "timestamp")))
        out.append(case("emul:unix_micros", "unix_micros", C({"ts": ts}, "timestamp")))
    for k in range(7):
        out.append(case("emul:dayofweek", "dayofweek", C(D((datetime.date(2024, 2, 26) + datetime.timedelta(days=k)).isoformat()), "date")))
    for d in ["2024-01-31", "2023-12-31", "2024-02-29", "2021-07-04"]:
        out.append(case("emul:day", "day", C(d, "string")))
        out.append(case("emul:dayofweek", "dayofweek", C(d, "string")))
        out.append(case("emul:last_day", "last_day", C(d, "string")))
    for v in [s, "a,b,,c", ""]:
        for lim in (-1, 0, 1, 2, 5):
            out.append(case("emul:split", "split", C(v, "string"), P(","), P(lim)))
    for v in ["abc", ""]:
        for bits in (0, 256):  # DuckDB: other lengths are refused with an explicit error (declared, not a wrong value)
            out.append(case("emul:sha2", "sha2", C(v, "string"), P(bits)))
    # first / last / any_value depend on the row order, which a grouped aggregation does not fix: only groups whose
    # answer is the same for every order (NULLs skipped and one distinct value left, or no mixture at all)
    for rows in ([None, 5.0, 5.0], [5.0, None], [None, None], [2.0], [3.0, 3.0]):
        for ign in (True, False):
            if ign or len({repr(r) for r in rows}) == 1:
                out.append(agg_case("emul:first", "first", rows, "double", xargs=[ign]))
                out.append(agg_case("emul:any_value", "any_value", rows, "double", xargs=[ign]))
                out.append(agg_case("agg", "last", rows, "double", xargs=[ign]))
    for rows in ([1.0, 2.0, 3.0, 4.0, 5.0], [10.0], [3.0, 1.0, 2.0]):
        for q in (0.0, 0.5, 1.0):
            out.append(agg_case("emul:percentile_approx", "percentile_approx", rows, "double", xargs=[q]))
            out.append(agg_case("emul:percentile_approx", "percentile_approx", rows, "double", xargs=[q, 100]))
    # optional-argument forms of functions without a DuckDB branch (sqlframe's default body decides what the
    # optional argument does to the expression)
    for b, x in [(2.0, 8.0), (10.0, 1000.0), (3.0, 9.0), (8.0, 2.0)]:
        out.append(case("argorder:log", "log", P(b), C(x, "double")))
    for x in [2.5, 3.5, -2.5, 0.4, 123.456]:
        out.append(case(N, "round", C(x, "double")))
    for v in strs_for_trim():
        out.append(case(N, "btrim", C(v, "string"), L("x")))
    for start in (1, 5, 6, 9):
        out.append(case("argorder:position", "position", L("o"), C(s, "string"), L(start)))
    out.append(case("argorder:regexp_extract", "regexp_extract", C(s, "string"), P("(\\w+) (\\w+)"), P(1)))
    out.append(case("argorder:regexp_extract", "regexp_extract", C(s, "string"), P("(\\w+) (\\w+)"), P(0)))
    for xs in [["a", "b"], ["x"], []]:
        out.append(case(N, "array_join", C(xs, "array<string>"), P("-"), P("?")))
    for xs in [[3, 1, 2], [5, 5, 1]]:
        out.append(case(N, "sort_array", C(xs, "array<int>"), P(True)))
    for d in ["2024-01-31", "2023-11-15"]:
        out.append(case(N, "months_between", C(D(d), "date"), C(D("2024-01-01"), "date"), P(False)))
    out.append(case(N, "substr", C(s, "string"), L(7)))
    # NULL in -> NULL out (where Spark does), for the emulations: an emulation built from constructs that swallow
    # NULL (CASE … ELSE, CONCAT, LIST_APPEND, COALESCE) answers something else
    NI = "emul:null"
    for args in [
        ("levenshtein", C(None, "string"), C("a", "string"), P(2)), ("levenshtein", C("abc", "string"), C(None, "string"), P(0)),
        ("levenshtein", C(None, "string"), C("a", "string")), ("nanvl", C(None, "double"), C(1.0, "double")),
        ("endswith", C(None, "string"), L("a")), ("unix_millis", C(None, "timestamp")), ("dayofweek", C(None, "date")),
        ("overlay", C(None, "string"), C("x", "string"), P(1)), ("sequence", C(None, "int"), C(3, "int")),
        ("date_add", C(None, "date"), P(1)), ("array_min", C(None, "array<int>")), ("replace", C(None, "string"), L("a")),
        ("regexp", C(None, "string"), L("a")), ("soundex", C(None, "string")),
        ("arrays_overlap", C(None, "array<int>"), C([1], "array<int>")), ("array_append", C(None, "array<int>"), P(1)),
        ("array_remove", C(None, "array<int>"), P(1)), ("array_union", C(None, "array<int>"), C([1], "array<int>")),
        ("try_element_at", C(None, "array<int>"), L(1)), ("getItem", C(None, "array<int>"), P(0)),
        ("decode", C(None, "binary"), P("UTF-8")), ("last_day", C(None, "date")), ("day", C(None, "date")),
        ("sha2", C(None, "string"), P(256)), ("base64", C(None, "string")), ("split", C(None, "string"), P(",")),
        ("regexp_replace", C(None, "string"), P("a"), P("b")), ("to_timestamp", C(None, "string")), ("isnull", C(None, "string")),
    ]:
        out.append(case(NI, args[0], *args[1:], tag="null-in"))
    # functions that had no case at all (dispatch-table emulations first, then plain pass-through names)
    out.append(case("emul:create_map", "create_map", L("a"), C(1, "int")))
    out.append(case("emul:create_map", "create_map", L("a"), C(1, "int"), L("b"), C(2, "int")))
    for x in [2.5, -2.5, 0.0, 7.0]:
        out.append(case(N, "ceiling", C(x, "double")))
        out.append(case(N, "sign", C(x, "double")))
        out.append(case(N, "power", C(x, "double"), C(2.0, "double")))
        out.append(case(N, "toDegrees", C(x, "double")))
        out.append(case(N, "toRadians", C(x, "double")))
    for v in ["hello", "", "ÄÖü"]:
        out.append(case(N, "character_length", C(v, "string")))
        out.append(case(N, "regexp_like", C(v, "string"), L("^h")))
    for n in [0, 1, 5, -1]:
        out.append(case(N, "bitwiseNOT", C(n, "int")))
        out.append(case(N, "shiftLeft", C(n, "int"), P(2)))
        out.append(case(N, "shiftRight", C(n, "int"), P(1)))
    for d in ["2024-01-31", "2023-12-31"]:
        out.append(case(N, "date_diff", C(D(d), "date"), C(D("2024-01-01"), "date")))
        out.append(case(N, "dateadd", C(D(d), "date"), P(3)))
    for ts in (ts1, ts2):
        out.append(case(N, "unix_seconds", C({"ts": ts}, "timestamp")))
        out.append(case(N, "unix_timestamp", C(ts, "string")))
        out.append(case(N, "unix_timestamp", C(ts.replace("-", "/"), "string"), P("yyyy/MM/dd HH:mm:ss")))
    for n in [0, 1706708709]:
        out.append(case(N, "timestamp_seconds", C(n, "bigint")))
        out.append(case(N, "from_unixtime", C(n, "bigint")))
        out.append(case(N, "from_unixtime", C(n, "bigint"), P("yyyy/MM/dd")))
    out.append(case(N, "map_from_arrays", C(["a", "b"], "array<string>"), C([1, 2], "array<int>")))
    out.append(case(N, "unhex", C("4142", "string")))
    for rows in ([1.0, 2.0, 2.0, None], [None, None], [3.0]):
        out.append(agg_case("agg", "count_if", rows, "double", pre="isnull"))
        out.append(agg_case("agg", "mode", [r for r in rows if r is not None] or [1.0], "double"))
        out.append(agg_case("agg", "approx_count_distinct", rows, "double"))
        out.append(agg_case("agg", "approx_count_distinct", rows, "double", xargs=[0.05]))
        out.append(agg_case("agg", "sumDistinct", rows, "double"))
        out.append(agg_case("agg", "countDistinct", rows, "double"))
    out.append(case("emul:levenshtein", "levenshtein", C("abc", "string"), C("abd", "string"), P(-1)))
    out.append(case("emul:levenshtein", "levenshtein", C("abc", "string"), C("abc", "string"), P(-1)))
    return out


def strs_for_trim() -> t.List[str]:
    return ["xxhixx", "x", "hello", ""]


def _st(op: str, on: t.Optional[int] = None, **kw: t.Any) -> dict:
    d = {"op": op}
    if on is not None:
        d["on"] = on
    d.update(kw)
    return d


def prog_case(prog: t.List[dict], rows: t.Optional[list] = None) -> dict:
    return {"fn": "prog", "args": [], "prog": prog, "rows": list(PROG_ROWS if rows is None else rows), "group": "emul:column_sharing", "unordered": False, "tag": "prog"}


def prog_cases() -> t.List[dict]:
    """one partially built column kept in a variable and used more than once: every (derivation, later derivation)
    pair over a shared prefix, prefixes of length 1 and 2, plus single fluent chains"""
    out: t.List[dict] = []
    pos, neg = [">", 0], ["<", 0]
    # fluent chains (no sharing): the everyday use
    out.append(prog_case([_st("start", cond=pos, val=1), _st("when", 0, cond=neg, val=-1), _st("otherwise", 1, val=0)]))
    out.append(prog_case([_st("start", cond=[">=", 2], val=20), _st("when", 0, cond=[">=", 0], val=10), _st("when", 1, cond=["==", -1], val=-10)]))
    # a shared prefix `base`, two derivations from it
    derivs = [
        lambda on: _st("when", on, cond=neg, val=-1),
        lambda on: _st("when", on, cond=["<=", -2], val=-2),
        lambda on: _st("otherwise", on, val=9),
        lambda on: _st("otherwise", on, val=-9),
        lambda on: _st("neg", on),
        lambda on: _st("add", on, k=3),
        lambda on: _st("abs", on),
        lambda on: _st("alias", on, name="n"),
        lambda on: _st("cast", on),
        lambda on: _st("coalesce", on, k=7),
        lambda on: _st("isNull", on),
    ]
    for i, d1 in enumerate(derivs):
        for j, d2 in enumerate(derivs):
            if i == j or (i > 1 and j > 1 and (i + j) % 3):
                continue  # every pair that involves when(); a third of the others
            out.append(prog_case([_st("start", cond=pos, val=1), d1(0), d2(0)]))
    # prefix of length 2, three uses; a chain continued from a derived chain while the prefix is used again
    out.append(prog_case([_st("start", cond=[">=", 5], val=2), _st("when", 0, cond=[">=", 1], val=1), _st("otherwise", 1, val=0), _st("when", 1, cond=["==", 0], val=5), _st("otherwise", 1, val=-1), _st("otherwise", 3, val=-3)]))
    out.append(prog_case([_st("start", cond=[">=", 5], val=2), _st("otherwise", 0, val=0), _st("when", 0, cond=[">=", 0], val=1), _st("otherwise", 2, val=0), _st("otherwise", 0, val=-1)]))
    out.append(prog_case([_st("start", cond=pos, val=1), _st("when", 0, cond=neg, val=-1), _st("when", 0, cond=["==", 0], val=0), _st("when", 1, cond=["==", 0], val=100), _st("otherwise", 0, val=50), _st("neg", 0)]))
    for c in out:
        assert prog_valid(c["prog"]), c
    return out


SOUNDEX_NAMES = [
    "Ashcraft", "Ashcroft", "Tymczak", "Pfister", "Honeyman", "Robert", "Rupert", "Rubin", "Schwarz", "Sawhney", "Lowhill",
    "Wheaton", "Burroughs", "Burrows", "Chwhs", "bhp", "BWF", "Schschs", "kHq", "dwt", "mhn", "Lhl", "rwr", "Jackson", "Lloyd",
    "a", "H", "hh", "Whw", "Hwhb", "O'Hara", "van der Berg", "Smith-Jones", "Mc Hugh", "Tsch3ch", "peters", "UHRBACH", "x9s", "Czs z",
    "3M", "-dash", " lead", "9", "",
]


def soundex_cases() -> t.List[dict]:
    """names with H / W between same-coded consonants, same-coded neighbours, non-letters inside, non-letter first"""
    return [case("emul:soundex", "soundex", C(n, "string")) for n in SOUNDEX_NAMES]


def all_cases() -> t.List[dict]:
    # new families are APPENDED (ids are positional: earlier ids, and their recorded Spark values, stay valid)
    cs = emulation_cases() + native_cases() + aggregate_cases() + composition_cases() + soundex_cases()
    cs += levenshtein_cases() + format_string_cases() + coverage_cases() + prog_cases()
    for i, c in enumerate(cs):
        c["id"] = f"{i}:{c['fn']}"
    return cs


# ------------------------------------------------------------------------------------------------
# random emulation cases (same shapes, seeded) — used impl vs model vs spec and, thorough, on a live JVM
# ------------------------------------------------------------------------------------------------


def random_name(rng: random.Random) -> str:
    """an ASCII name biased towards same-coded consonants separated by H / W / vowels / non-letters"""
    classes = ["bfpv", "cgjkqsxz", "dt", "l", "mn", "r"]
    out = [rng.choice("abcdefghijklmnopqrstuvwxyz")]
    for _ in range(rng.randint(0, 7)):
        r = rng.random()
        if r < 0.35 and len(out) >= 1:
            cls = next((c for c in classes if out[-1].lower() in c), rng.choice(classes))
            sep = rng.choice(["", "h", "w", "hw", "a", "y", "-", " ", "1", "hh"])
            out.append(sep + rng.choice(cls))
        elif r < 0.5:
            out.append(rng.choice("hw"))
        elif r < 0.6:
            out.append(rng.choice("' -.9"))
        else:
            out.append(rng.choice("abcdefghijklmnopqrstuvwxyz"))
    s = "".join(out)
    return s.upper() if rng.random() < 0.15 else (s.capitalize() if rng.random() < 0.5 else s)


def random_edit(rng: random.Random, a: str) -> str:
    s = list(a)
    for _ in range(rng.randint(0, 3)):
        r = rng.random()
        if r < 0.34 and s:
            del s[rng.randrange(len(s))]
        elif r < 0.67:
            s.insert(rng.randint(0, len(s)), rng.choice("abcd"))
        elif s:
            s[rng.randrange(len(s))] = rng.choice("abcd")
    return "".join(s)


def random_format_case(rng: random.Random) -> dict:
    """text segments (half of them EMPTY) around 1 … 4 plain placeholders"""
    n = rng.randint(1, 4)
    segs = [rng.choice(["", "", "", "a", "k=", " ", "-", ": ", ";", "x y", "%%"]) if rng.random() < 0.08 else rng.choice(["", "", "a", "k=", " ", "-", ": ", ";", "x y"]) for _ in range(n + 1)]
    args = []
    for _ in range(n):
        if rng.random() < 0.5:
            args.append((rng.choice(["ab", "cd", "", "x", "hello world", "7"]), "string", "s"))
        else:
            args.append((rng.choice([0, 7, -42, 123456, 1]), "int", "d"))
    c = case("emul:format_string", "format_string", P(fmt_of(segs, [a[2] for a in args])), *[C(a[0], a[1]) for a in args])
    if "%%" in segs:
        c["tag"] = "fmt-other"
    return c


def random_prog(rng: random.Random) -> t.List[dict]:
    """a few CASE prefixes, each reused by several later steps (the sharing a script with variables has)"""
    prog: t.List[dict] = [_st("start", cond=[rng.choice(CMPS), rng.randint(-3, 3)], val=rng.randint(-9, 9))]
    kinds = ["open"]
    for _ in range(rng.randint(2, 7)):
        opens = [j for j, k in enumerate(kinds) if k == "open"]
        nonbool = [j for j, k in enumerate(kinds) if k != "bool"]
        r = rng.random()
        if r < 0.1:
            prog.append(_st("start", cond=[rng.choice(CMPS), rng.randint(-3, 3)], val=rng.randint(-9, 9)))
            kinds.append("open")
        elif r < 0.5 and opens:
            # prefer a prefix that was used before: that is where a write into the receiver shows
            used = [st["on"] for st in prog if st.get("on") is not None and kinds[st["on"]] == "open"]
            on = rng.choice(used) if used and rng.random() < 0.6 else rng.choice(opens)
            prog.append(_st("when", on, cond=[rng.choice(CMPS), rng.randint(-3, 3)], val=rng.randint(-9, 9)))
            kinds.append("open")
        elif r < 0.75 and opens:
            prog.append(_st("otherwise", rng.choice(opens), val=rng.randint(-9, 9)))
            kinds.append("closed")
        else:
            op = rng.choice(UNARY_OPS)
            on = rng.choice(nonbool)
            kw = {"k": rng.randint(-4, 4)} if op in ("add", "mul", "coalesce") else ({"name": "n"} if op == "alias" else {})
            prog.append(_st(op, on, **kw))
            kinds.append("bool" if op == "isNull" else "expr")
    assert prog_valid(prog), prog
    return prog


def random_emulation_cases(rng: random.Random, n: int) -> t.List[dict]:
    out: t.List[dict] = []
    kinds = ["soundex", "soundex", "factorial", "element_at", "try_element_at", "getItem", "slice", "array_position", "sequence", "rint", "overlay", "date_add", "date_sub", "array_min", "array_max",
             "levenshtein", "levenshtein", "format_string", "format_string", "prog", "prog", "nanvl", "dayofweek"]
    for i in range(n):
        k = kinds[i % len(kinds)] if i < 4 * len(kinds) else rng.choice(kinds)
        ln = rng.randint(1, 7)
        xs = [rng.randint(-20, 20) for _ in range(ln)]
        if k == "soundex":
            out.append(case("emul:soundex", k, C(random_name(rng), "string")))
        elif k == "factorial":
            out.append(case("emul:factorial", k, C(rng.randint(0, 20), "int")))
        elif k in ("element_at", "try_element_at"):
            idx = rng.choice([j for j in range(-(ln + 2), ln + 3) if j != 0])
            out.append(case("emul:" + k, k, C(xs, "array<int>"), P(idx) if k == "element_at" else L(idx)))
        elif k == "getItem":
            out.append(case("emul:getItem", k, C(xs, "array<int>"), P(rng.randint(0, ln + 1))))
        elif k == "slice":
            s = rng.choice([j for j in range(-ln, ln + 3) if j != 0])
            out.append(case("emul:slice", k, C(xs, "array<int>"), P(s), P(rng.randint(0, ln + 2))))
        elif k == "array_position":
            out.append(case("emul:array_position", k, C(xs, "array<int>"), P(rng.choice(xs + [99]))))
        elif k == "sequence":
            a, b = rng.randint(-10, 10), rng.randint(-10, 10)
            if rng.random() < 0.5:
                out.append(case("emul:sequence", k, C(a, "int"), C(b, "int")))
            else:
                st = rng.randint(1, 4) * (1 if b >= a else -1)
                out.append(case("emul:sequence", k, C(a, "int"), C(b, "int"), C(st, "int")))
        elif k == "rint":
            out.append(case("emul:rint", k, C(rng.randint(-41, 41) / 2.0 if rng.random() < 0.6 else round(rng.uniform(-50, 50), 3), "double")))
        elif k == "overlay":
            s = "".join(rng.choice("abcdefgh") for _ in range(rng.randint(1, 9)))
            r = "".join(rng.choice("XYZ") for _ in range(rng.randint(0, 3)))
            pos = rng.randint(1, len(s) + 1)
            if rng.random() < 0.5:
                out.append(case("emul:overlay", k, C(s, "string"), C(r, "string"), P(pos)))
            else:
                out.append(case("emul:overlay", k, C(s, "string"), C(r, "string"), P(pos), P(rng.randint(0, len(s) + 2))))
        elif k in ("date_add", "date_sub"):
            d = datetime.date(2000, 1, 1) + datetime.timedelta(days=rng.randint(0, 12000))
            out.append(case("emul:" + k, k, C(D(d.isoformat()), "date"), P(rng.randint(-800, 800))))
        elif k == "levenshtein":
            a = "".join(rng.choice("abcd") for _ in range(rng.randint(0, 7)))
            b = random_edit(rng, a) if rng.random() < 0.7 else "".join(rng.choice("abcd") for _ in range(rng.randint(0, 7)))
            d = lev(a, b)
            th = rng.choice([d, d, d - 1, d + 1, 0, rng.randint(0, 8)])  # at the distance, next to it, anywhere
            out.append(case("emul:levenshtein", k, C(a, "string"), C(b, "string"), P(max(th, 0))))
        elif k == "format_string":
            out.append(random_format_case(rng))
        elif k == "prog":
            out.append(prog_case(random_prog(rng)))
        elif k == "nanvl":
            vals = [float("nan"), 0.0, 1.5, -2.0, float("nan")]
            out.append(case("emul:nanvl", k, C(rng.choice(vals), "double"), C(rng.choice(vals), "double")))
        elif k == "dayofweek":
            d = datetime.date(1990, 1, 1) + datetime.timedelta(days=rng.randint(0, 20000))
            out.append(case("emul:dayofweek", k, C(D(d.isoformat()), "date")))
        else:
            out.append(case("emul:" + k, k, C(xs, "array<int>")))
    for i, c in enumerate(out):
        c["id"] = f"r{i}:{c['fn']}"
    return out


# ------------------------------------------------------------------------------------------------
# evaluation on a PySpark-compatible API
# ------------------------------------------------------------------------------------------------


def py_value(v: t.Any) -> t.Any:
    if isinstance(v, dict) and "date" in v:
        return datetime.date.fromisoformat(v["date"])
    if isinstance(v, dict) and "ts" in v:
        return datetime.datetime.fromisoformat(v["ts"])
    return v


def canon(v: t.Any) -> t.Any:
    """JSON-able canonical form of a collected value"""
    if v is None or isinstance(v, (bool, int, str)):
        return v
    if isinstance(v, float):
        if math.isnan(v):
            return {"f": "nan"}
        if math.isinf(v):
            return {"f": "inf" if v > 0 else "-inf"}
        return {"f": v}
    if isinstance(v, decimal.Decimal):
        return {"f": float(v)}
    if isinstance(v, datetime.datetime):
        if v.tzinfo is not None:  # PySpark hands back naive datetimes: a tz-aware one is a different value
            return {"ts": v.replace(tzinfo=None).isoformat(sep=" "), "tzinfo": str(v.tzinfo)}
        return {"ts": v.isoformat(sep=" ")}
    if isinstance(v, datetime.date):
        return {"date": v.isoformat()}
    if isinstance(v, (bytes, bytearray)):
        return {"bytes": bytes(v).hex()}
    if isinstance(v, (list, tuple)):
        return [canon(x) for x in v]
    if isinstance(v, dict):
        return {"map": sorted([[canon(k), canon(x)] for k, x in v.items()], key=repr)}
    if hasattr(v, "asDict"):
        return {"row": [canon(x) for x in v]}
    return {"repr": repr(v)}


def same_value(a: t.Any, b: t.Any, unordered: bool = False) -> bool:
    if isinstance(a, dict) and isinstance(b, dict) and "f" in a and "f" in b:
        x, y = a["f"], b["f"]
        if isinstance(x, str) or isinstance(y, str):
            return x == y
        return x == y or abs(x - y) <= 1e-9 * max(1.0, abs(x), abs(y))
    # int vs integral float (DuckDB BIGINT vs Spark double and vice versa)
    if isinstance(a, dict) and "f" in a and isinstance(b, int) and not isinstance(b, bool):
        return not isinstance(a["f"], str) and a["f"] == b
    if isinstance(b, dict) and "f" in b and isinstance(a, int) and not isinstance(a, bool):
        return not isinstance(b["f"], str) and b["f"] == a
    if isinstance(a, list) and isinstance(b, list):
        if len(a) != len(b):
            return False
        if unordered:
            return sorted(map(repr, a)) == sorted(map(repr, b))
        return all(same_value(x, y) for x, y in zip(a, b))
    return a == b


def _walk_cols(args: t.List[dict]) -> t.Iterator[dict]:
    for a in args:
        if "c" in a:
            yield a
        elif "e" in a:
            yield from _walk_cols(a["e"]["args"])


def _build_args(F: t.Any, args: t.List[dict], colname: t.Dict[int, str]) -> list:
    out = []
    for a in args:
        if "c" in a:
            out.append(F.col(colname[id(a)]))
        elif "l" in a:
            out.append(F.lit(py_value(a["l"])))
        elif "e" in a:
            out.append(getattr(F, a["e"]["fn"])(*_build_args(F, a["e"]["args"], colname)))
        else:
            out.append(py_value(a["p"]))
    return out


def build_expr(F: t.Any, c: dict, colname: t.Dict[int, str]) -> t.Any:
    args = _build_args(F, c["args"], colname)
    if c["fn"] == "getItem":
        return args[0].getItem(args[1])
    return getattr(F, c["fn"])(*args)


def is_agg(c: dict) -> bool:
    return bool(c["args"]) and "r" in c["args"][0]


def is_prog(c: dict) -> bool:
    return c["fn"] == "prog"


def _agg_key(c: dict) -> t.Tuple:
    return (c.get("pre"), c["fn"], c.get("post"), tuple(json.dumps(a, sort_keys=True) for a in c.get("xargs", [])))


def case_key(c: dict) -> str:
    """what identifies a case (a recorded Spark value is stale when this differs)"""
    return json.dumps([c["fn"], c["args"], c.get("pre"), c.get("post"), c.get("xargs"), c.get("prog"), c.get("rows")], sort_keys=True)


def evaluate_aggs(F: t.Any, create_df: t.Callable[[list, str], t.Any], cases: t.List[dict], idxs: t.List[int], out: t.List[t.Optional[dict]]) -> None:
    """every aggregate case is one group of a (g, v) frame; one groupBy per column type computes every
    (pre, fn, post) combination that occurs for that type"""
    by_type: t.Dict[t.Tuple[str, t.Optional[str]], t.List[int]] = {}
    for i in idxs:
        # cases with a `pre` function get a frame of their own: it must only see rows it is meant for
        by_type.setdefault((cases[i]["args"][0]["t"], cases[i].get("pre")), []).append(i)
    for (ty, _pre), ids in by_type.items():
        rows = [(g, py_value(v)) for g, i in enumerate(ids) for v in cases[i]["args"][0]["r"]]
        try:
            df = create_df(rows, f"g int, v {ty}")
        except Exception as e:  # noqa
            for i in ids:
                out[i] = {"error": f"createDataFrame: {type(e).__name__}: {str(e)[:120]}"}
            continue
        triples: t.Dict[t.Tuple, str] = {}
        for i in ids:
            triples.setdefault(_agg_key(cases[i]), f"e{len(triples)}")

        def build(key: t.Tuple) -> t.Any:
            pre, fn, post, xargs = key
            x = F.col("v")
            if pre:
                x = getattr(F, pre)(x)
            x = getattr(F, fn)(x, *[py_value(json.loads(a)) for a in xargs])
            if post:
                x = getattr(F, post)(x)
            return x.alias(triples[key])

        def run(keys: t.List[t.Tuple]) -> None:
            exprs, live = [], []
            for k in keys:
                try:
                    exprs.append(build(k))
                    live.append(k)
                except Exception as e:  # noqa
                    for i in ids:
                        if _agg_key(cases[i]) == k:
                            out[i] = {"error": f"build: {type(e).__name__}: {str(e)[:160]}"}
            if not live:
                return
            try:
                res = {r[0]: r for r in df.groupBy("g").agg(*exprs).collect()}
                for g, i in enumerate(ids):
                    k = _agg_key(cases[i])
                    if k in live:
                        out[i] = {"value": canon(res[g][1 + live.index(k)])} if g in res else {"error": "group missing from the result"}
            except Exception as e:  # noqa
                if len(live) == 1:
                    for i in ids:
                        if _agg_key(cases[i]) == live[0]:
                            out[i] = {"error": f"run: {type(e).__name__}: {str(e).strip().splitlines()[0][:160] if str(e).strip() else ''}"}
                else:
                    mid = len(live) // 2
                    run(live[:mid])
                    run(live[mid:])

        run(list(triples))


# ------------------------------------------------------------------------------------------------
# column programs: let-bindings that derive Columns from earlier bindings (shared objects)
# ------------------------------------------------------------------------------------------------

PROG_ROWS = [-7, -2, -1, 0, 1, 2, 5, None]
CMPS = [">", "<", ">=", "<=", "==", "!="]
UNARY_OPS = ["neg", "add", "abs", "alias", "cast", "coalesce", "isNull", "mul"]


def _cond(x: t.Any, cond: list) -> t.Any:
    op, k = cond
    return {">": x > k, "<": x < k, ">=": x >= k, "<=": x <= k, "==": x == k, "!=": x != k}[op]


def _derive(F: t.Any, st: dict, base: t.Any, x: t.Any) -> t.Any:
    op = st["op"]
    if op == "start":
        return F.when(_cond(x, st["cond"]), F.lit(st["val"]))
    if op == "when":
        return base.when(_cond(x, st["cond"]), F.lit(st["val"]))
    if op == "otherwise":
        return base.otherwise(F.lit(st["val"]))
    if op == "neg":
        return -base
    if op == "add":
        return base + st["k"]
    if op == "mul":
        return base * st["k"]
    if op == "abs":
        return F.abs(base)
    if op == "alias":
        return base.alias(st["name"])
    if op == "cast":
        return base.cast("bigint")
    if op == "coalesce":
        return F.coalesce(base, F.lit(st["k"]))
    if op == "isNull":
        return base.isNull()
    raise ValueError(f"unknown program step {op!r}")


def build_prog(F: t.Any, prog: t.List[dict], fresh: bool = False) -> t.List[t.Any]:
    """the bindings of a program.  shared (default): each step is applied to the OBJECT an earlier step returned,
    and one `x = col('x')` is used throughout, exactly as the statements of a user's script would;
    fresh: every binding is rebuilt from scratch, no object is used twice (the meaning PySpark's immutable
    columns give the program)"""
    if not fresh:
        x = F.col("x")
        out: t.List[t.Any] = []
        for st in prog:
            out.append(_derive(F, st, out[st["on"]] if st.get("on") is not None else None, x))
        return out

    def rebuild(j: int) -> t.Any:
        st = prog[j]
        return _derive(F, st, rebuild(st["on"]) if st.get("on") is not None else None, F.col("x"))

    return [rebuild(j) for j in range(len(prog))]


def prog_valid(prog: t.List[dict]) -> bool:
    """when / otherwise are applied to a CASE without ELSE only (PySpark raises otherwise); references point backwards"""
    kinds: t.List[str] = []
    for j, st in enumerate(prog):
        on = st.get("on")
        if st["op"] == "start":
            if on is not None:
                return False
            kinds.append("open")
            continue
        if on is None or not (0 <= on < j):
            return False
        if st["op"] in ("when", "otherwise"):
            if kinds[on] != "open":
                return False
            kinds.append("open" if st["op"] == "when" else "closed")
        else:
            if kinds[on] == "bool":
                return False
            kinds.append("bool" if st["op"] == "isNull" else "expr")
    return bool(prog)


def evaluate_prog(F: t.Any, create_df: t.Callable[[list, str], t.Any], c: dict, fresh: bool = False) -> dict:
    rows = c["rows"]
    try:
        df = create_df([(i, v) for i, v in enumerate(rows)], "id int, x int")
    except Exception as e:  # noqa
        return {"error": f"createDataFrame: {type(e).__name__}: {str(e)[:120]}"}
    try:
        bs = build_prog(F, c["prog"], fresh=fresh)
        exprs = [b.alias(f"b{j}") for j, b in enumerate(bs)]
    except Exception as e:  # noqa
        return {"error": f"build: {type(e).__name__}: {str(e)[:160]}"}
    try:
        res = sorted(df.select(F.col("id"), *exprs).collect(), key=lambda r: r[0])
        return {"value": [[canon(r[j + 1]) for r in res] for j in range(len(exprs))]}
    except Exception as e:  # noqa
        return {"error": f"run: {type(e).__name__}: {str(e).strip().splitlines()[0][:160] if str(e).strip() else ''}"}


def evaluate(F: t.Any, create_df: t.Callable[[list, str], t.Any], cases: t.List[dict], batch: int = 60) -> t.List[dict]:
    """returns per case {"value": canon} or {"error": "Type: msg"}"""
    out: t.List[t.Optional[dict]] = [None] * len(cases)
    for i, c in enumerate(cases):
        if is_prog(c):
            out[i] = evaluate_prog(F, create_df, c)
    agg_idx = [i for i, c in enumerate(cases) if is_agg(c)]
    if agg_idx:
        evaluate_aggs(F, create_df, cases, agg_idx, out)

    def run(idxs: t.List[int]) -> None:
        cols: t.List[t.Tuple[str, str, t.Any]] = []
        colname: t.Dict[int, str] = {}
        seen: t.Dict[str, str] = {}
        for i in idxs:
            for a in _walk_cols(cases[i]["args"]):
                key = repr((a["t"], a["c"]))
                if key not in seen:
                    seen[key] = f"v{len(cols)}"
                    cols.append((seen[key], a["t"], py_value(a["c"])))
                colname[id(a)] = seen[key]
        if not cols:
            cols.append(("v0", "int", 0))
        schema = ", ".join(f"{n} {ty}" for n, ty, _ in cols)
        exprs = []
        live = []
        try:
            df = create_df([tuple(v for _, _, v in cols)], schema)
        except Exception as e:  # noqa
            for i in idxs:
                out[i] = {"error": f"createDataFrame: {type(e).__name__}: {str(e)[:120]}"}
            return
        for i in idxs:
            try:
                exprs.append(build_expr(F, cases[i], colname).alias(f"r{i}"))
                live.append(i)
            except Exception as e:  # noqa
                out[i] = {"error": f"build: {type(e).__name__}: {str(e)[:160]}"}
        if not live:
            return
        try:
            row = df.select(*exprs).collect()[0]
            for j, i in enumerate(live):
                out[i] = {"value": canon(row[j])}
        except Exception as e:  # noqa
            if len(live) == 1:
                out[live[0]] = {"error": f"run: {type(e).__name__}: {str(e).strip().splitlines()[0][:160] if str(e).strip() else ''}"}
            else:
                mid = len(live) // 2
                run(live[:mid])
                run(live[mid:])

    scalar_idx = [i for i, c in enumerate(cases) if not is_agg(c) and not is_prog(c)]
    for s in range(0, len(scalar_idx), batch):
        run(scalar_idx[s : s + batch])
    return [o if o is not None else {"error": "not evaluated"} for o in out]
