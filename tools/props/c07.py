"""
C07 — set operations implement PySpark's multiset algebra and column matching.

proof      : lean/SqlframeModel/Props/C07.lean (C07_flags, C07_byName, C07_setop, C07_unionByName, C07_prog, C07_full)
             over the regenerated Gen.SetOps (tools/gen_c07.py), Gen.Methods, Gen.Operations
tie        : (1) Gen regenerated from the working tree on every run; (2) the generated table / list programs are
             compared with what the *running* code does (spies on `_set_operation` and `_ensure_list_of_columns`);
             (3) correspondence stream: generated nestings of set operations on real sqlframe + DuckDB  vs
             Impl/C07SetOps.lean (model)  vs  the PySpark specification (bags)
search     : the same stream compares the implementation with the specification directly; failures are shrunk
"""
from __future__ import annotations

import copy
import json
import os
import random
import typing as t

import exprs as X
import vlib
from vlib import Ctx, bag, log, plain

ID = "C07"
LEVEL = "proof"
MODULES = ["SqlframeModel.Props.C07"]
GEN = ["SetOps", "Methods", "Operations", "Clauses"]
SOURCES = [
    "SqlframeModel/Props/C07.lean",
    "SqlframeModel/Lemmas/C07Bag.lean",
    "SqlframeModel/Lemmas/C07ByName.lean",
    "SqlframeModel/Lemmas/C07DF.lean",
    "SqlframeModel/Impl/C07SetOps.lean",
]

OP_NAMES = {"init": "INIT", "noOp": "NO_OP", "from_": "FROM", "wher": "WHERE", "groupBy": "GROUP_BY", "having": "HAVING", "select": "SELECT", "orderBy": "ORDER_BY", "limit": "LIMIT"}
METHODS = ["union", "unionAll", "intersect", "intersectAll", "exceptAll"]
NAMES = {"int": ["x", "y", "u", "v", "p", "q"], "str": ["s", "w", "t"]}
TYPE_OF = {n: ty for ty, ns in NAMES.items() for n in ns}
INTS = [None, 0, 1, 1, 2]
STRS = [None, "a", "a", ""]

Schema = t.List[t.Tuple[str, str]]  # ordered (name, type)

# ------------------------------------------------------------------------------------------------
# generation
# ------------------------------------------------------------------------------------------------


def tuple_(e: t.Any) -> t.Any:
    if isinstance(e, (list, tuple)):
        return tuple(tuple_(x) for x in e)
    return e


def gen_rows(rng: random.Random, types: t.List[str], others: t.List[t.List[list]]) -> t.List[list]:
    n = rng.choice([0, 1, 2, 3, 4, 5, 6])
    rows: t.List[list] = []
    for _ in range(n):
        c = rng.random()
        if rows and c < 0.3:
            rows.append(list(rng.choice(rows)))  # duplicate inside the table
        elif c < 0.55 and any(others):
            rows.append(list(rng.choice(rng.choice([o for o in others if o]))))  # shared with another table
        elif c < 0.65:
            rows.append([None] * len(types))  # an all-NULL row
        else:
            rows.append([rng.choice(INTS) if ty == "int" else rng.choice(STRS) for ty in types])
    return rows


def names_for(rng: random.Random, types: t.List[str], avoid: t.Sequence[str] = (), fresh: bool = False) -> t.List[str]:
    out: t.List[str] = []
    for ty in types:
        pool = [n for n in NAMES[ty] if n not in out and (not fresh or n not in avoid)]
        if not pool:
            pool = [n for n in NAMES[ty] if n not in out]
        out.append(pool[0] if not fresh and rng.random() < 0.5 else rng.choice(pool))
    return out


def gen_env(rng: random.Random) -> t.List[dict]:
    types = rng.choice([["int", "int"], ["int", "int"], ["int", "int", "str"], ["int"], ["int", "str"]])
    first = [NAMES[ty][sum(1 for x in types[:i] if x == ty)] for i, ty in enumerate(types)]
    env = []
    for i in range(3):
        mode = "same" if i == 0 else rng.choice(["same", "perm", "renamed", "overlap"])
        if mode == "same":
            names = list(first)
        elif mode == "perm":
            # a type-consistent permutation of the first table's names
            names = list(first)
            for ty in set(types):
                idx = [k for k, x in enumerate(types) if x == ty]
                vals = [names[k] for k in idx]
                rng.shuffle(vals)
                for k, v in zip(idx, vals):
                    names[k] = v
        elif mode == "renamed":
            names = names_for(rng, types, avoid=first, fresh=True)
        else:
            names = names_for(rng, types)
        rows = gen_rows(rng, types, [e["rows"] for e in env])
        env.append({"schema": [[n, ty] for n, ty in zip(names, types)], "rows": rows})
    if rng.random() < 0.2:
        for e in env:
            e["display"] = [rng.choice([n, n.upper()]) for n, _ in e["schema"]]
    return env


def has_setop(p: dict) -> bool:
    return p["k"] in ("setop", "byName") or (p["k"] == "step" and has_setop(p["p"]))


def gen_where(rng: random.Random, schema: Schema) -> dict:
    g = X.Gen(rng, dict(schema))
    return {"k": "where", "p": g.bool_expr(1)}


def gen_select(rng: random.Random, schema: Schema) -> t.Tuple[dict, Schema]:
    g = X.Gen(rng, dict(schema))
    items: t.List[list] = []
    out: Schema = []
    n = rng.randint(1, max(1, min(3, len(schema) + 1)))
    for _ in range(n):
        used = [a for a, _ in out]
        if rng.random() < 0.6:
            c, ty = rng.choice(schema)
            e: t.Any = ("col", c)
            nm = c if c not in used and rng.random() < 0.7 else None
        else:
            e, ty = g.any_expr(1)
            nm = None
        if nm is None:
            pool = [a for a in NAMES[ty] if a not in used]
            if not pool:
                continue
            nm = rng.choice(pool)
        items.append([nm, e])
        out.append((nm, ty))
    if not items:
        c, ty = schema[0]
        items, out = [[c, ("col", c)]], [(c, ty)]
    return {"k": "select", "items": items}, out


def maybe_step(rng: random.Random, node: dict, schema: Schema, p: float) -> t.Tuple[dict, Schema]:
    if rng.random() >= p:
        return node, schema
    c = rng.random()
    if c < 0.16 and has_setop(node):
        # de-duplication of a set-operation result (optionally behind a filter): still an ordinary DataFrame
        if rng.random() < 0.3:
            node = {"k": "step", "p": node, "s": gen_where(rng, schema)}
        return {"k": "step", "p": node, "s": {"k": rng.choice(["distinct", "dropDuplicates"])}}, schema
    if c < 0.6:
        return {"k": "step", "p": node, "s": gen_where(rng, schema)}, schema
    s, out = gen_select(rng, schema)
    return {"k": "step", "p": node, "s": s}, out


def row_bound(p: dict, env: t.List[dict]) -> int:
    """an upper bound on the number of rows of a program's result"""
    k = p["k"]
    if k == "base":
        return len(env[p["i"]]["rows"])
    if k == "step":
        b = row_bound(p["p"], env)
        return min(b, p["s"]["n"]) if p["s"]["k"] == "limit" else b
    l, r = row_bound(p["l"], env), row_bound(p["r"], env)
    if k == "setop" and p["m"] in ("intersect", "intersectAll", "exceptAll"):
        return l
    return l + r


def total_order(rng: random.Random, schema: Schema) -> dict:
    """orderBy over *all* columns: ties are identical rows, so a following limit keeps a determined bag"""
    cols = [n for n, _ in schema]
    rng.shuffle(cols)
    keys = []
    for c in cols:
        desc = rng.random() < 0.4
        keys.append({"name": c, "desc": desc, "nullsFirst": (not desc) if rng.random() < 0.6 else (rng.random() < 0.5)})
    return {"k": "orderBy", "keys": keys}


def ends_in(node: dict, kind: str) -> bool:
    return node["k"] == "step" and node["s"]["k"] == kind


FINAL_STATES = ["limit0", "limitSize", "limitBig", "orderBy", "orderByLimit", "distinct", "where", "select"]


def final_state(rng: random.Random, node: dict, schema: Schema, env: t.List[dict], stats: dict) -> t.Tuple[dict, Schema]:
    """leave an operand in a chosen last-operation state (the block a set operation finds open), with a determined bag:
    limit 0 / limit >= size / limit over a total order; orderBy; distinct; where; select"""
    st = rng.choice(FINAL_STATES)
    stats["final_states"][st] = stats["final_states"].get(st, 0) + 1
    step = lambda s: {"k": "step", "p": node, "s": s}  # noqa
    if st == "limit0":
        return step({"k": "limit", "n": 0}), schema
    if st == "limitSize":
        return step({"k": "limit", "n": row_bound(node, env)}), schema
    if st == "limitBig":
        return step({"k": "limit", "n": 50}), schema
    if st in ("orderBy", "orderByLimit"):
        if ends_in(node, "orderBy"):
            return node, schema
        node = step(total_order(rng, schema))
        if st == "orderByLimit":
            node = {"k": "step", "p": node, "s": {"k": "limit", "n": rng.choice([1, 2, 3])}}
        return node, schema
    if st == "distinct":
        return step({"k": rng.choice(["distinct", "dropDuplicates"])}), schema
    if st == "where":
        return step(gen_where(rng, schema)), schema
    s, out = gen_select(rng, schema)
    return step(s), out


def has_unordered_step(p: dict) -> bool:
    """steps outside Prog.WF (limit / orderBy): compared with the specification, not covered by C07_prog"""
    if p["k"] == "base":
        return False
    if p["k"] == "step":
        return p["s"]["k"] in ("limit", "orderBy") or has_unordered_step(p["p"])
    return has_unordered_step(p["l"]) or has_unordered_step(p["r"])


def determined(p: dict, env: t.List[dict]) -> bool:
    """every truncating limit sits directly on a total orderBy, is 0, or is not smaller than the operand can be"""
    if p["k"] == "base":
        return True
    if p["k"] == "step":
        s = p["s"]
        if s["k"] == "limit" and s["n"] != 0 and s["n"] < row_bound(p["p"], env):
            q = p["p"]
            if not (q["k"] == "step" and q["s"]["k"] == "orderBy" and q["s"].get("keys") and len(q["s"]["keys"]) == n_cols(q["p"], env)):
                return False
        if s["k"] == "orderBy" and ends_in(p["p"], "orderBy"):
            return False
        return determined(p["p"], env)
    return determined(p["l"], env) and determined(p["r"], env)


def n_cols(p: dict, env: t.List[dict]) -> int:
    k = p["k"]
    if k == "base":
        return len(env[p["i"]]["schema"])
    if k == "step":
        return len(p["s"]["items"]) if p["s"]["k"] == "select" else n_cols(p["p"], env)
    if k == "byName" and p["am"]:
        return -1  # not needed: an orderBy is only ever generated with the schema at hand
    return n_cols(p["l"], env)


def adapt(rng: random.Random, node: dict, schema: Schema, target: Schema) -> t.Tuple[dict, Schema]:
    """a select that gives `node` the target (name, type) list: re-ordering / renaming / filling with literals"""
    items = []
    used: t.List[str] = []
    for nm, ty in target:
        src = [c for c, cty in schema if cty == ty and c not in used] or [c for c, cty in schema if cty == ty]
        if src:
            c = rng.choice(src)
            used.append(c)
            items.append([nm, ("col", c)])
        else:
            items.append([nm, ("lit", rng.choice([0, 1, None]) if ty == "int" else rng.choice(["a", None]))])
    return {"k": "step", "p": node, "s": {"k": "select", "items": items}}, list(target)


def gen_node(rng: random.Random, env: t.List[dict], depth: int, subs: t.List[t.Tuple[dict, Schema]], stats: dict) -> t.Tuple[dict, Schema]:
    if depth <= 0:
        i = rng.randrange(len(env))
        node, schema = {"k": "base", "i": i}, [tuple(x) for x in env[i]["schema"]]
        node, schema = maybe_step(rng, node, schema, 0.3)
        subs.append((node, schema))
        return node, schema
    l, ls = gen_node(rng, env, depth - 1, subs, stats)
    c = rng.random()
    plain_subs = [(n, sc) for n, sc in subs if not has_setop(n)]
    if c < 0.1:
        r, rs = l, ls  # the very same DataFrame on both sides
        stats["common"] += 1
    elif c < 0.2:
        r, rs = maybe_step(rng, l, ls, 1.0)  # derived from the left operand
        stats["common"] += 1
    elif c < 0.4 and plain_subs:
        r, rs = rng.choice(plain_subs)  # an earlier intermediate result without a set operation in it
        stats["common"] += 1
    else:
        r, rs = gen_node(rng, env, rng.randint(0, depth - 1), subs, stats)
    if has_setop(l) and has_setop(r) and rng.random() < 0.75:
        # most of the time avoid the (known) shared-set-operation-ancestor pattern so that it does not mask the rest
        r, rs = gen_node(rng, env, 0, subs, stats)
    # operands in every final state, on either side
    if rng.random() < 0.22:
        l, ls = final_state(rng, l, ls, env, stats)
    if rng.random() < 0.3:
        r, rs = final_state(rng, r, rs, env, stats)
    op = rng.choice(METHODS + ["byName", "byName", "byNameMissing", "byNameMissing"])
    ltypes = [ty for _, ty in ls]
    if op in METHODS:
        if [ty for _, ty in rs] != ltypes or rng.random() < 0.15:
            rnames = names_for(rng, ltypes, avoid=[n for n, _ in ls], fresh=rng.random() < 0.5)
            r, rs = adapt(rng, r, rs, list(zip(rnames, ltypes)))
            stats["adapted"] += 1
        node, schema = {"k": "setop", "m": op, "l": l, "r": r}, ls
    elif op == "byName":
        if sorted(n for n, _ in rs) != sorted(n for n, _ in ls):
            tgt = list(ls)
            rng.shuffle(tgt)
            r, rs = adapt(rng, r, rs, tgt)
            stats["adapted"] += 1
        elif [n for n, _ in rs] != [n for n, _ in ls]:
            stats["permuted"] += 1
        node, schema = {"k": "byName", "am": False, "l": l, "r": r}, ls
    else:
        lnames = [n for n, _ in ls]
        extra = [(n, ty) for n, ty in rs if n not in lnames]
        if extra or [n for n, _ in rs] != lnames:
            stats["missing_cols"] += 1
        node, schema = {"k": "byName", "am": True, "l": l, "r": r}, ls + extra
    stats["ops"][op] = stats["ops"].get(op, 0) + 1
    node, schema = maybe_step(rng, node, schema, 0.45)
    subs.append((node, schema))
    return node, schema


def gen_case(rng: random.Random, depth: int, stats: dict) -> dict:
    env = gen_env(rng)
    node, schema = gen_node(rng, env, depth, [], stats)
    if node["k"] != "step" and rng.random() < 0.7:
        node, schema = maybe_step(rng, node, schema, 1.0)  # "followed by a further where/select step"
    c = {"env": env, "prog": node}
    if has_unordered_step(node):
        c["nowf"] = True  # contains limit / orderBy steps: outside Prog.WF, compared with the specification only
    return c


# ------------------------------------------------------------------------------------------------
# encoders
# ------------------------------------------------------------------------------------------------


def step_to_lean(s: dict) -> t.Any:
    if s["k"] == "where":
        return {"wher": {"p": X.to_lean(tuple_(s["p"]))}}
    if s["k"] == "select":
        return {"select": {"items": [[n, X.to_lean(tuple_(e))] for n, e in s["items"]]}}
    if s["k"] == "limit":
        return {"limit": {"n": s["n"]}}
    if s["k"] in ("distinct", "dropDuplicates"):  # dropDuplicates() without a subset is distinct()
        return "distinct"
    if s["k"] == "orderBy":
        return {"orderBy": {"keys": s["keys"]}}
    raise ValueError(s)


def prog_to_lean(p: dict) -> t.Any:
    k = p["k"]
    if k == "base":
        return {"base": {"i": p["i"]}}
    if k == "step":
        return {"step": {"p": prog_to_lean(p["p"]), "s": step_to_lean(p["s"])}}
    if k == "setop":
        return {"setop": {"m": p["m"], "l": prog_to_lean(p["l"]), "r": prog_to_lean(p["r"])}}
    if k == "byName":
        return {"byName": {"allowMissing": p["am"], "l": prog_to_lean(p["l"]), "r": prog_to_lean(p["r"])}}
    raise ValueError(p)


def case_to_lean(i: int, c: dict) -> dict:
    return {"case": i, "env": [X.table_to_lean([n for n, _ in e["schema"]], e["rows"]) for e in c["env"]], "prog": prog_to_lean(c["prog"])}


def show_step(s: dict) -> str:
    if s["k"] == "where":
        return f"where({X.show(tuple_(s['p']))})"
    if s["k"] == "limit":
        return f"limit({s['n']})"
    if s["k"] in ("distinct", "dropDuplicates"):
        return s["k"] + "()"
    if s["k"] == "orderBy":
        return "orderBy(" + ", ".join(f"{x['name']} {'desc' if x['desc'] else 'asc'} nulls {'first' if x['nullsFirst'] else 'last'}" for x in s["keys"]) + ")"
    return "select(" + ", ".join(f"{X.show(tuple_(e))}.alias({n!r})" for n, e in s["items"]) + ")"


def show_prog(p: dict) -> str:
    k = p["k"]
    if k == "base":
        return f"t{p['i']}"
    if k == "step":
        return f"{show_prog(p['p'])}.{show_step(p['s'])}"
    if k == "setop":
        return f"{show_prog(p['l'])}.{p['m']}({show_prog(p['r'])})"
    return f"{show_prog(p['l'])}.unionByName({show_prog(p['r'])}{', allowMissingColumns=True' if p['am'] else ''})"


def show_case(c: dict) -> str:
    tabs = "; ".join(f"t{i}={e.get('display') or [n for n, _ in e['schema']]}{e['rows']}" for i, e in enumerate(c["env"]))
    return f"{tabs}; {show_prog(c['prog'])}"


def depth_of(p: dict) -> int:
    k = p["k"]
    if k == "base":
        return 0
    if k == "step":
        return depth_of(p["p"])
    return 1 + max(depth_of(p["l"]), depth_of(p["r"]))


def size_of(p: dict) -> int:
    k = p["k"]
    if k == "base":
        return 1
    if k == "step":
        return 1 + size_of(p["p"])
    return 1 + size_of(p["l"]) + size_of(p["r"])


def has_common_ancestor(p: dict) -> bool:
    def leaves(q: dict) -> t.Set[int]:
        if q["k"] == "base":
            return {q["i"]}
        if q["k"] == "step":
            return leaves(q["p"])
        return leaves(q["l"]) | leaves(q["r"])

    if p["k"] == "base":
        return False
    if p["k"] == "step":
        return has_common_ancestor(p["p"])
    return bool(leaves(p["l"]) & leaves(p["r"])) or has_common_ancestor(p["l"]) or has_common_ancestor(p["r"])


# ------------------------------------------------------------------------------------------------
# the real implementation
# ------------------------------------------------------------------------------------------------

_SESSION = None


def session():
    global _SESSION
    if _SESSION is None:
        _SESSION = vlib.fresh_duckdb_session()
    return _SESSION


def build(p: dict, bases: t.List[t.Any], memo: t.Dict[str, t.Any], F: t.Any) -> t.Any:
    """equal sub-programs are the *same* DataFrame object (common ancestors)"""
    key = json.dumps(p, sort_keys=True)
    if key in memo:
        return memo[key]
    k = p["k"]
    if k == "base":
        df = bases[p["i"]]
    elif k == "step":
        src = build(p["p"], bases, memo, F)
        s = p["s"]
        if s["k"] == "where":
            df = src.where(X.to_column(tuple_(s["p"]), F))
        elif s["k"] == "limit":
            df = src.limit(s["n"])
        elif s["k"] == "distinct":
            df = src.distinct()
        elif s["k"] == "dropDuplicates":
            df = src.dropDuplicates()
        elif s["k"] == "orderBy":
            cols = []
            for ok_ in s["keys"]:
                c_ = F.col(ok_["name"])
                d, nf = ok_["desc"], ok_["nullsFirst"]
                cols.append(c_.asc() if (not d and nf) else c_.asc_nulls_last() if not d else c_.desc() if not nf else c_.desc_nulls_first())
            df = src.orderBy(*cols)
        else:
            df = src.select(*[X.to_column(tuple_(e), F).alias(n) for n, e in s["items"]])
    elif k == "setop":
        l = build(p["l"], bases, memo, F)
        r = build(p["r"], bases, memo, F)
        df = getattr(l, p["m"])(r)
    else:
        l = build(p["l"], bases, memo, F)
        r = build(p["r"], bases, memo, F)
        df = l.unionByName(r, allowMissingColumns=True) if p["am"] else l.unionByName(r)
    memo[key] = df
    return df


def run_impl(c: dict) -> dict:
    from sqlframe.duckdb import functions as F

    try:
        bases = [
            X.make_df(session(), {(e["display"][i] if e.get("display") else n): ty for i, (n, ty) in enumerate(e["schema"])}, e["rows"])
            for e in c["env"]
        ]
        df = build(c["prog"], bases, {}, F)
        cols = list(df.columns)
        if any(e.get("display") for e in c["env"]):
            # the operands spell shared columns with different letter case: only the (case-insensitive) matching is
            # under test here; which spelling the result displays belongs to C10
            cols = [x.lower() for x in cols]
        rows = [[plain(v) for v in r] for r in df.collect()]
        return {"cols": cols, "rows": rows}
    except Exception as e:  # noqa
        return {"err": f"{type(e).__name__}: {str(e)[:300]}"}


def same(a: dict, b: dict) -> bool:
    if "err" in a and "err" in b:
        # the model predicts the exception class only
        return a["err"].split(":")[0] == b["err"].split(":")[0]
    if "err" in a or "err" in b:
        return False
    return a["cols"] == b["cols"] and bag(a["rows"]) == bag(b["rows"])


def evaluate(cases: t.List[dict], workers: int = 0) -> t.List[dict]:
    outs = vlib.run_driver("C07", [case_to_lean(i, c) for i, c in enumerate(cases)])
    impls = vlib.parallel_map(run_impl, cases, workers)
    res = []
    for c, o, impl in zip(cases, outs, impls):
        if "err" in o:
            raise RuntimeError(f"driver rejected a case: {o}")
        res.append(
            {
                "case": c,
                "impl": impl,
                "model": o["model"],
                "spec": o["spec"],
                "scope": o["scope"],
                "wf": o["wf"],
                "impl_eq_model": same(impl, o["model"]),
                "impl_eq_spec": same(impl, o["spec"]),
            }
        )
    return res


# ------------------------------------------------------------------------------------------------
# the generated decisions vs the running code
# ------------------------------------------------------------------------------------------------


def exercise_gen(ctx: Ctx) -> t.Dict[str, t.Any]:
    """compare Gen.SetOps (as the Lean driver sees it) with what the live methods do"""
    from sqlglot import exp

    from sqlframe.base.dataframe import BaseDataFrame
    from sqlframe.base.operations import Operation

    rng = random.Random(f"c07gen:{ctx.seed}")
    pairs = []
    for _ in range(12):
        l = rng.sample(NAMES["int"], rng.randint(1, 4))
        r = rng.sample(NAMES["int"], rng.randint(1, 4))
        pairs.append((l, r, True))
        r2 = list(l)
        rng.shuffle(r2)
        pairs.append((l, r2, False))
    lines = [{"gen": True}] + [{"byname": {"l": l, "r": r, "am": am}} for l, r, am in pairs]
    outs = vlib.run_driver("C07", lines)
    gen = outs[0]
    table = {m: (k, d) for m, k, d in gen["table"]}
    for a, b in gen["aliases"]:
        table[a] = table[b]
    problems: t.List[str] = []

    seen: t.List[t.Tuple[str, bool]] = []
    lists: t.List[t.List[t.Any]] = []
    orig_set, orig_ens = BaseDataFrame._set_operation, BaseDataFrame._ensure_list_of_columns

    def spy_set(self, klass, other, distinct):
        seen.append((klass.__name__, distinct))
        return orig_set(self, klass, other, distinct)

    def spy_ens(self, cols):
        lists.append(list(cols) if isinstance(cols, (list, tuple)) else [cols])
        return orig_ens(self, cols)

    def item(x: t.Any) -> t.List[str]:
        if isinstance(x, str):
            return ["own", x]
        if isinstance(x, exp.Alias) and isinstance(x.this, exp.Null):
            return ["null", x.alias]
        return ["?", repr(x)]

    s = session()
    a = X.make_df(s, {"x": "int", "y": "int"}, [[1, 2], [1, 2], [None, None]])
    b = X.make_df(s, {"x": "int", "y": "int"}, [[1, 2], [None, None], [None, None]])
    BaseDataFrame._set_operation = spy_set  # type: ignore
    try:
        for m in METHODS:
            seen.clear()
            df = getattr(a, m)(b)
            if len(seen) != 1 or m not in table or [seen[0][0], seen[0][1]] != list(table[m]):
                problems.append(f"Gen.setOpTable[{m}] = {table.get(m)} but the running method calls _set_operation{tuple(seen)}")
            tag = OP_NAMES.get(next(x for n, x in gen["tags"] if n == m).split(".")[-1].rstrip(")"), "?")
            if df.last_op != getattr(Operation, tag, None):
                problems.append(f"Gen tag of {m} is {tag} but the result's last_op is {df.last_op}")
        BaseDataFrame._ensure_list_of_columns = spy_ens  # type: ignore
        for (l, r, am), o in zip(pairs, outs[1:]):
            la = X.make_df(s, {n: "int" for n in l}, [[1] * len(l)])
            rb = X.make_df(s, {n: "int" for n in r}, [[2] * len(r)])
            lists.clear()
            seen.clear()
            la.unionByName(rb, allowMissingColumns=am)
            # select() itself calls _ensure_list_of_columns again; the calls made by unionByName come first per side
            got = [[item(x) for x in ls] for ls in lists if all(isinstance(x, (str, exp.Expression)) for x in ls)]
            want_r, want_l = o["r"], o["l"]
            if want_r not in got or (am and want_l not in got):
                problems.append(f"Gen.byName{'Missing' if am else 'Strict'}({l},{r}) = l{want_l} r{want_r} but the running code projects {got[:2]}")
            if [list(x) for x in seen] != [gen["byNameOp"]]:
                problems.append(f"Gen.byNameOp = {gen['byNameOp']} but unionByName calls _set_operation{tuple(seen)}")
    finally:
        BaseDataFrame._set_operation = orig_set  # type: ignore
        BaseDataFrame._ensure_list_of_columns = orig_ens  # type: ignore
    for pb in problems[:3]:
        ctx.broken.append("translator vs running code: " + pb)
    return {"gen_table": gen["table"], "gen_checked_methods": len(METHODS), "gen_checked_byname_lists": len(pairs), "gen_problems": len(problems)}


# ------------------------------------------------------------------------------------------------
# shrinking
# ------------------------------------------------------------------------------------------------


def sub_progs(p: dict) -> t.Iterator[dict]:
    """programs obtained by replacing one node by one of its children"""
    k = p["k"]
    if k == "base":
        return
    if k == "step":
        yield p["p"]
        for q in sub_progs(p["p"]):
            yield dict(p, p=q)
    else:
        yield p["l"]
        yield p["r"]
        for q in sub_progs(p["l"]):
            yield dict(p, l=q)
        for q in sub_progs(p["r"]):
            yield dict(p, r=q)


def shrink(c: dict, failing: t.Callable[[dict], bool], rounds: int = 25) -> dict:
    best = c
    for _ in range(rounds):
        cands = [dict(best, prog=q) for q in sub_progs(best["prog"])]
        for i, e in enumerate(best["env"]):
            for j in range(len(e["rows"])):
                env = copy.deepcopy(best["env"])
                del env[i]["rows"][j]
                cands.append(dict(best, env=env))
        if not cands:
            break
        res = evaluate(cands, workers=1)
        nxt = next((r["case"] for r in res if (r["wf"] or (best.get("nowf") and determined(r["case"]["prog"], r["case"]["env"]))) and failing(r)), None)
        if nxt is None:
            break
        best = nxt
    return best


# ------------------------------------------------------------------------------------------------
# the check
# ------------------------------------------------------------------------------------------------


def known_entries() -> t.Dict[str, dict]:
    known = {e["id"]: e for e in vlib.known_findings(ID)}
    extra = os.path.join(os.path.dirname(os.path.abspath(__file__)), "c07.known.json")
    if os.path.exists(extra):
        for e in json.load(open(extra)).get("findings", []):
            if e.get("property") == ID and e.get("status") == "open":
                known.setdefault(e["id"], e)
    return known


def hand_cases() -> t.List[dict]:
    """fixed cases: every method on one discriminating pair (duplicates, NULL rows, one-sided rows), self-operations"""
    a = {"schema": [["x", "int"], ["y", "int"]], "rows": [[1, 2], [1, 2], [1, 2], [None, None], [None, None], [3, 4], [None, 1]]}
    b = {"schema": [["y", "int"], ["x", "int"]], "rows": [[1, 2], [1, 2], [None, None], [2, 1], [2, 1], [None, 1]]}
    e = {"schema": [["x", "int"], ["y", "int"]], "rows": []}
    z = {"schema": [["u", "int"], ["x", "int"]], "rows": [[7, 1], [None, None]]}
    out = []
    B = lambda i: {"k": "base", "i": i}  # noqa
    for m in METHODS:
        out.append({"env": [a, b, e], "prog": {"k": "setop", "m": m, "l": B(0), "r": B(1)}})
        out.append({"env": [a, b, e], "prog": {"k": "setop", "m": m, "l": B(1), "r": B(0)}})
        out.append({"env": [a, b, e], "prog": {"k": "setop", "m": m, "l": B(0), "r": B(0)}})
        out.append({"env": [a, b, e], "prog": {"k": "setop", "m": m, "l": B(0), "r": B(2)}})
        out.append({"env": [a, b, e], "prog": {"k": "setop", "m": m, "l": B(2), "r": B(0)}})
    for am in (False, True):
        out.append({"env": [a, b, e], "prog": {"k": "byName", "am": am, "l": B(0), "r": B(1)}})
        out.append({"env": [a, b, e], "prog": {"k": "byName", "am": am, "l": B(1), "r": B(0)}})
        out.append({"env": [a, b, e], "prog": {"k": "byName", "am": am, "l": B(0), "r": B(0)}})
    out.append({"env": [a, z, e], "prog": {"k": "byName", "am": True, "l": B(0), "r": B(1)}})
    out.append({"env": [a, z, e], "prog": {"k": "byName", "am": True, "l": B(1), "r": B(0)}})
    dd = {"schema": [["x", "int"], ["y", "int"]], "rows": [[1, 2], [1, 2], [1, 2], [None, None], [None, None], [5, None], [5, None], [3, 4]]}
    ee = {"schema": [["u", "int"], ["v", "int"]], "rows": [[1, 2], [1, 2], [None, None], [None, None], [None, None], [5, None], [5, None], [7, 7]]}
    for m in METHODS:
        for k in ("distinct", "dropDuplicates"):
            out.append({"env": [dd, ee, e], "prog": {"k": "step", "p": {"k": "setop", "m": m, "l": B(0), "r": B(1)}, "s": {"k": k}}})
    for am in (False, True):
        out.append({"env": [dd, dd, e], "prog": {"k": "step", "p": {"k": "byName", "am": am, "l": B(0), "r": B(1)}, "s": {"k": "distinct"}}})
    ia = {"k": "setop", "m": "intersectAll", "l": B(0), "r": B(1)}
    out.append({"env": [dd, ee, e], "prog": {"k": "setop", "m": "exceptAll", "l": ia, "r": {"k": "step", "p": {"k": "setop", "m": "intersectAll", "l": B(0), "r": B(1)}, "s": {"k": "distinct"}}}})
    out.append({"env": [dd, ee, e], "prog": {"k": "step", "p": {"k": "step", "p": ia, "s": {"k": "where", "p": ("isNull", ("col", "x"))}}, "s": {"k": "dropDuplicates"}}})
    # differently-cased spellings of shared columns (PySpark resolves names case-insensitively)
    cl = {"schema": [["x", "int"], ["y", "int"]], "display": ["X", "Y"], "rows": [[1, 2], [1, 2], [3, None]]}
    cr = {"schema": [["y", "int"], ["u", "int"], ["v", "int"]], "display": ["y", "U", "V"], "rows": [[10, 20, 30], [None, 21, 31]]}
    cp = {"schema": [["y", "int"], ["x", "int"]], "display": ["y", "x"], "rows": [[10, 20], [2, 1]]}
    for am in (True, False):
        out.append({"env": [cl, cr, cp], "prog": {"k": "byName", "am": am, "l": B(0), "r": B(2)}})
        out.append({"env": [cl, cr, cp], "prog": {"k": "byName", "am": am, "l": B(2), "r": B(0)}})
    out.append({"env": [cl, cr, cp], "prog": {"k": "byName", "am": True, "l": B(0), "r": B(1)}})
    out.append({"env": [cl, cr, cp], "prog": {"k": "byName", "am": True, "l": B(1), "r": B(0)}})
    out.append({"env": [cl, cr, cp], "prog": {"k": "setop", "m": "exceptAll", "l": {"k": "step", "p": {"k": "byName", "am": True, "l": B(0), "r": B(1)}, "s": {"k": "select", "items": [["x", ("col", "x")], ["y", ("col", "y")]]}}, "r": B(0)}})
    for c in out:
        c["origin"] = "hand"
    # search-only (outside Prog.WF, whose steps are where/select): a non-truncating limit on either operand —
    # the operands' blocks must have been frozen before the operator is built
    lim = lambda p: {"k": "step", "p": p, "s": {"k": "limit", "n": 50}}  # noqa
    for m in METHODS:
        out.append({"env": [a, b, e], "prog": {"k": "setop", "m": m, "l": lim(B(0)), "r": B(1)}, "origin": "hand-limit", "nowf": True})
        out.append({"env": [a, b, e], "prog": {"k": "setop", "m": m, "l": B(0), "r": lim(B(1))}, "origin": "hand-limit", "nowf": True})
    for am in (False, True):
        out.append({"env": [a, b, e], "prog": {"k": "byName", "am": am, "l": lim(B(0)), "r": lim(B(1))}, "origin": "hand-limit", "nowf": True})
    return out


def cases_for(ctx: Ctx, stats: dict) -> t.List[dict]:
    cases: t.List[dict] = []
    corpus_dir = os.path.join(vlib.VERIF, "corpus", ID)
    if os.path.isdir(corpus_dir):
        for fn in sorted(os.listdir(corpus_dir)):
            if fn.endswith(".json"):
                c = json.load(open(os.path.join(corpus_dir, fn)))
                c = c.get("case", c)
                c["origin"] = "corpus:" + fn
                cases.append(c)
    cases += hand_cases()
    n = 4000 if ctx.thorough else 600
    for k in range(n):
        depth = 1 + k % 3
        c = gen_case(ctx.rng, depth, stats)
        c["origin"] = f"random-depth{depth}"
        cases.append(c)
    return cases


def is_known(r: dict, known: t.Dict[str, dict]) -> bool:
    return bool(r["scope"]) and all(h in known for h in r["scope"]) and r["impl_eq_model"]


def run(ctx: Ctx) -> None:
    idx = vlib.props_index()[ID]
    vlib.prove(ctx, MODULES, GEN, idx["theorems"], SOURCES)
    known = known_entries()

    try:
        gen_cov = exercise_gen(ctx)
    except Exception as e:  # the driver does not build / the code has left the shape the spies expect
        gen_cov = {"gen_problems": f"not run: {type(e).__name__}: {str(e)[:200]}"}
        ctx.broken.append(f"translator vs running code: could not be exercised ({type(e).__name__}: {str(e)[:120]})")

    stats: t.Dict[str, t.Any] = {"common": 0, "adapted": 0, "permuted": 0, "missing_cols": 0, "ops": {}, "final_states": {}}
    cases = cases_for(ctx, stats)
    res = evaluate(cases)

    not_wf = [r for r in res if not r["wf"] and not r["case"].get("nowf")]
    if not_wf:
        log(f"C07: {len(not_wf)} generated programs are not PySpark-valid (generator bug); first: {show_case(not_wf[0]['case'])}")
        ctx.broken.append(f"generator produced {len(not_wf)} programs outside Prog.WF")
    res = [r for r in res if r["wf"] or r["case"].get("nowf")]

    model_mismatch = [r for r in res if not r["impl_eq_model"]]
    spec_mismatch = [r for r in res if not r["impl_eq_spec"]]

    new_viol = []
    for r in spec_mismatch:
        if is_known(r, known):
            for h in r["scope"]:
                vlib.report_known(ctx, known[h], known[h]["summary"])
        else:
            new_viol.append(r)

    for h, e in known.items():
        w = e.get("witness")
        if isinstance(w, dict) and "prog" in w:
            r = evaluate([w], workers=1)[0]
            if not r["impl_eq_spec"]:
                vlib.report_known(ctx, e, e["summary"])

    if model_mismatch:
        ctx.broken.append(f"correspondence stream A (implementation vs Impl/C07SetOps.lean): {len(model_mismatch)} of {len(res)} cases differ")

    reported = 0
    seen_shapes: t.Set[str] = set()
    for r in sorted(new_viol, key=lambda r: size_of(r["case"]["prog"])):
        if reported >= 3:
            break
        c = shrink(r["case"], lambda rr: (not rr["impl_eq_spec"]) and not is_known(rr, known))
        shape = show_prog(c["prog"])
        if shape in seen_shapes:
            continue
        seen_shapes.add(shape)
        rr = evaluate([c], workers=1)[0]
        vlib.report_violation(
            ctx,
            {
                "kind": "implementation differs from PySpark's set-operation specification",
                "program": show_case(c),
                "case": c,
                "implementation": rr["impl"],
                "specification": rr["spec"],
                "model": rr["model"],
                "violated_scope_hypotheses": rr["scope"],
                "broken": ctx.broken,
            },
        )
        reported += 1
    if ctx.broken and not reported:
        mm = None
        if model_mismatch:
            m0 = min(model_mismatch, key=lambda r: size_of(r["case"]["prog"]))
            mm = {"program": show_case(m0["case"]), "case": m0["case"], "implementation": m0["impl"], "model": m0["model"]}
        vlib.report_violation(
            ctx,
            {
                "kind": "proof obligation or correspondence no longer checks; no failing input found",
                "broken": ctx.broken,
                "searched": {"cases": len(res), "ops": stats["ops"]},
                "first_model_mismatch": mm,
            },
            no_input=True,
        )

    nontrivial = set()
    depth_hist: t.Dict[str, int] = {}
    n_common = n_null = n_dup = n_empty = n_err = 0
    for r in res:
        c = r["case"]
        d = depth_of(c["prog"])
        depth_hist[str(d)] = depth_hist.get(str(d), 0) + 1
        n_common += has_common_ancestor(c["prog"])
        n_null += any(all(v is None for v in row) for e in c["env"] for row in e["rows"])
        n_dup += any(len(bag(e["rows"])) != len(set(bag(e["rows"]))) for e in c["env"])
        n_empty += any(not e["rows"] for e in c["env"])
        n_err += "err" in r["impl"]
        if "err" not in r["impl"] and r["impl"]["rows"]:
            nontrivial.add(vlib.digest([c["prog"], c["env"]]))
    ctx.cov.update(
        {
            "evaluations": len(res),
            "distinct_nontrivial": len(nontrivial),
            "rule": "corpus, then every method on fixed discriminating pairs (duplicates, NULL rows, empty side, self-operation), then random "
            "nestings of depth 1..3 over three union-compatible base tables (same / permuted / renamed / overlapping names), operands "
            "independent or sharing ancestors, with where/select steps between and after; non-trivial = distinct (program, tables) "
            "whose implementation result is non-empty",
            "traces_validated_against_impl": sum(r["impl_eq_model"] for r in res),
            "impl_vs_spec_agree": sum(r["impl_eq_spec"] for r in res),
            "implementation_errors": n_err,
            "operator_histogram": stats["ops"],
            "nesting_depth_histogram": depth_hist,
            "cases_with_common_ancestor": n_common,
            "cases_with_all_null_rows": n_null,
            "cases_with_duplicate_rows": n_dup,
            "cases_with_an_empty_table": n_empty,
            "right_operand_adapted_by_select": stats["adapted"],
            "byName_permuted_right": stats["permuted"],
            "byName_missing_columns": stats["missing_cols"],
            "operand_final_states": stats["final_states"],
            "cases_outside_the_theorem_scope_limit_orderBy": sum(1 for r in res if r["case"].get("nowf")),
            "cases_with_differently_cased_column_spellings": sum(1 for r in res if any(e.get("display") for e in r["case"]["env"])),
            "dedup_steps_after_set_operations": sum(show_prog(r["case"]["prog"]).count("distinct()") + show_prog(r["case"]["prog"]).count("dropDuplicates()") for r in res),
            "samples": [{"program": show_case(r["case"]), "result": r["impl"]} for r in res[:: max(1, len(res) // 4)][:4]],
            **gen_cov,
        }
    )
    ctx.assumptions += [
        "DuckDB evaluates UNION/INTERSECT/EXCEPT [ALL] as Impl/C07SetOps.lean `evalSetop` says (bags, positional, NULLs equal) and one SELECT block as Core/Sql.lean says (validated by this stream on every case)",
        "PySpark's meaning of union/intersect/intersectAll/exceptAll/unionByName is `setSpec` / `byNameSpec` (validated against live PySpark 3.5.9 during construction)",
        "CTE names are abstracted in the model: the de-duplication of `_add_ctes_to_expression` for common ancestors is exercised by the stream only",
        "further steps inside the theorem are where/select/distinct (bag-determined ones); other C01 steps after a set operation follow from C07_setop's `Fresh` conclusion plus C01",
    ]


def replay(ctx: Ctx, rp: dict) -> None:
    c = rp.get("case")
    if not c:
        print("replay names a broken obligation, not an input:", rp.get("broken"))
        return
    r = evaluate([c], workers=1)[0]
    print(json.dumps({"program": show_case(c), "implementation": r["impl"], "specification": r["spec"], "model": r["model"], "agree": r["impl_eq_spec"]}, indent=1))
    if not r["impl_eq_spec"]:
        vlib.report_violation(ctx, dict(rp, implementation=r["impl"], specification=r["spec"]))
