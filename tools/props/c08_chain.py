"""
c08_chain.py — the part of the C08 check about window columns INSIDE a DataFrame chain ("window columns can be
added anywhere in a chain without disturbing the other columns or rows").

A chain case is a table and a list of public DataFrame calls (where / filter with a Column or a SQL string,
select, withColumn, distinct, orderBy, limit) whose select items may be window functions over a WindowSpec built by
builder calls.  The same chain runs on
  * real sqlframe + DuckDB (`run_impl`): rows, column names, and the number of CTEs after every call,
  * the Lean model Impl/C08Chain.lean (`WDF.run`: the open SELECT block, `operation.wrapper`'s decisions from
    Gen.Operations / Gen.Methods / Gen.Clauses / Gen.C08Chain, SQL's clause order inside one block),
  * the Lean specification (`specRunW`: PySpark's sequential meaning — a window function ranges over all rows of the
    table it is added to),
through lean/Driver/C08.lean.  Generation is organised around what decides the result: WHICH CALLS SHARE A BLOCK
with the window function (a WHERE / DISTINCT / LIMIT that ends up in the window's block is evaluated before / after
it by the engine, whatever the order of the calls).
"""
from __future__ import annotations

import json
import random
import typing as t

import exprs as X
import vlib

# functions whose value changes when rows enter or leave the partition / frame
SENSITIVE = [["row_number"], ["rank"], ["dense_rank"], ["sum", "x"], ["count", "x"], ["count", "id"], ["max", "x"], ["min", "v"], ["lag", "x", 1, None], ["lead", "x", 1, -7], ["ntile", 2], ["first", "x"], ["last", "x"]]
TIE_DEP = {"row_number", "ntile", "lag", "lead", "first", "last"}


def B():
    import c08

    return c08


# ------------------------------------------------------------------------------------------------
# the vocabulary
# ------------------------------------------------------------------------------------------------
# step:  {"k": "where", "p": expr, "str": bool}
#        {"k": "select", "items": [item]}           item: ["col", name] | ["expr", name, expr] | ["win", name, ops, fn]
#        {"k": "withColumn", "item": ["expr", name, expr] | ["win", name, ops, fn]}
#        {"k": "distinct"} | {"k": "orderBy", "keys": [[name, form]]} | {"k": "limit", "n": n}
#        {"k": "drop", "cols": [name]}
#        {"k": "groupAgg", "keys": [name], "aggs": [[name, "sum"|"min"|"max"|"count", column]]}


def to_sql(e: t.Any) -> str:
    """a predicate as the SQL string a user would pass to where() / filter()"""
    e = B().tuple_(e)
    k = e[0]
    if k == "col":
        return e[1]
    if k == "lit":
        v = e[1]
        return "NULL" if v is None else (f"'{v}'" if isinstance(v, str) else str(v))
    if k == "bin":
        sym = {"add": "+", "sub": "-", "mul": "*", "lt": "<", "le": "<=", "gt": ">", "ge": ">=", "eq": "=", "ne": "<>", "and": "AND", "or": "OR"}[e[1]]
        return f"({to_sql(e[2])} {sym} {to_sql(e[3])})"
    if k == "not":
        return f"(NOT {to_sql(e[1])})"
    if k == "neg":
        return f"(-{to_sql(e[1])})"
    if k == "isNull":
        return f"({to_sql(e[1])} IS NULL)"
    raise ValueError(e)


def sql_able(e: t.Any) -> bool:
    try:
        to_sql(e)
        return True
    except (ValueError, KeyError):
        return False


def item_name(it: t.Sequence[t.Any]) -> str:
    return it[1]


def cols_after(cols: t.List[str], st: dict) -> t.List[str]:
    if st["k"] == "select":
        return [item_name(i) for i in st["items"]]
    if st["k"] == "withColumn":
        n = item_name(st["item"])
        return cols if n in cols else cols + [n]
    if st["k"] == "groupAgg":
        return list(st["keys"]) + [a[0] for a in st["aggs"]]
    if st["k"] == "drop":
        return [c for c in cols if c not in st["cols"]]
    return cols


def key_lean(k: t.Sequence[t.Any]) -> dict:
    """DataFrame.orderBy key -> OrdKey (Spark: asc = NULLS FIRST, desc = NULLS LAST)"""
    n, f = k[0], k[1]
    desc = f.startswith("desc")
    nf = {"asc": True, "desc": False, "asc_nulls_first": True, "asc_nulls_last": False, "desc_nulls_first": True, "desc_nulls_last": False}[f]
    return {"name": n, "desc": desc, "nullsFirst": nf}


def item_lean(it: t.Sequence[t.Any]) -> dict:
    b = B()
    if it[0] == "col":
        return {"expr": {"n": it[1], "e": X.to_lean(("col", it[1]))}}
    if it[0] == "expr":
        return {"expr": {"n": it[1], "e": X.to_lean(b.tuple_(it[2]))}}
    if it[0] == "win":
        wf, rf = b.fn_to_lean(list(it[3]))
        if wf is None:
            raise ValueError("ratio functions are not part of the chain vocabulary")
        return {"win": {"n": it[1], "ops": [b.op_to_lean(o) for o in it[2]], "fn": wf}}
    raise ValueError(it)


def step_lean(st: dict) -> t.Any:
    k = st["k"]
    if k == "where":
        return {"wher": {"p": X.to_lean(B().tuple_(st["p"]))}}
    if k == "select":
        return {"select": {"items": [item_lean(i) for i in st["items"]]}}
    if k == "withColumn":
        return {"withColumn": {"it": item_lean(st["item"])}}
    if k == "distinct":
        return "distinct"
    if k == "orderBy":
        return {"orderBy": {"keys": [key_lean(x) for x in st["keys"]]}}
    if k == "limit":
        return {"limit": {"n": st["n"]}}
    if k == "drop":
        return {"drop": {"ns": list(st["cols"])}}
    if k == "groupAgg":
        return {"groupAgg": {"keys": list(st["keys"]), "aggs": [{"name": a[0], "kind": a[1], "col": a[2]} for a in st["aggs"]]}}
    raise ValueError(k)


def to_lean(i: int, c: dict) -> dict:
    return {"case": i, "table": X.table_to_lean(list(c["schema"]), c["rows"]), "chain": [step_lean(s) for s in c["chain"]]}


def show_item(it: t.Sequence[t.Any]) -> str:
    b = B()
    if it[0] == "col":
        return repr(it[1])
    if it[0] == "expr":
        return f"{X.show(b.tuple_(it[2]))}.alias({it[1]!r})"
    return f"{b.show_fn(list(it[3]))}.over({b.show_ops(it[2])}).alias({it[1]!r})"


def show(c: dict) -> str:
    b = B()
    s = f"df{list(c['schema'])}{c['rows']}"
    for st in c["chain"]:
        k = st["k"]
        if k == "where":
            s += f".where({to_sql(st['p'])!r})" if st.get("str") else f".where({X.show(b.tuple_(st['p']))})"
        elif k == "select":
            s += ".select(" + ", ".join(show_item(i) for i in st["items"]) + ")"
        elif k == "withColumn":
            it = st["item"]
            body = X.show(b.tuple_(it[2])) if it[0] == "expr" else f"{b.show_fn(list(it[3]))}.over({b.show_ops(it[2])})"
            s += f".withColumn({it[1]!r}, {body})"
        elif k == "distinct":
            s += ".distinct()"
        elif k == "orderBy":
            s += ".orderBy(" + ", ".join(f"col({n!r}).{f}()" for n, f in st["keys"]) + ")"
        elif k == "limit":
            s += f".limit({st['n']})"
        elif k == "drop":
            s += ".drop(" + ", ".join(map(repr, st["cols"])) + ")"
        elif k == "groupAgg":
            s += ".groupBy(" + ", ".join(map(repr, st["keys"])) + ").agg(" + ", ".join(f"F.{a[1]}({a[2]!r}).alias({a[0]!r})" for a in st["aggs"]) + ")"
    return s


# ------------------------------------------------------------------------------------------------
# the real implementation
# ------------------------------------------------------------------------------------------------


def real_item(F: t.Any, it: t.Sequence[t.Any]) -> t.Any:
    b = B()
    if it[0] == "col":
        return it[1] if (len(it) > 2 and it[2] == "str") else F.col(it[1])
    if it[0] == "expr":
        return X.to_column(b.tuple_(it[2]), F).alias(it[1])
    return b.real_fn(F, list(it[3])).over(b.build_spec(it[2])).alias(it[1])


def run_impl(c: dict) -> dict:
    from sqlframe.duckdb import functions as F

    b = B()
    out: t.Dict[str, t.Any] = {}
    try:
        df = X.make_df(b.session(), c["schema"], c["rows"])
        ctes = []
        for st in c["chain"]:
            k = st["k"]
            if k == "where":
                p = b.tuple_(st["p"])
                df = df.where(to_sql(p)) if st.get("str") else (df.filter if st.get("filter") else df.where)(X.to_column(p, F))
            elif k == "select":
                df = df.select(*[real_item(F, i) for i in st["items"]])
            elif k == "withColumn":
                it = st["item"]
                col = X.to_column(b.tuple_(it[2]), F) if it[0] == "expr" else b.real_fn(F, list(it[3])).over(b.build_spec(it[2]))
                df = df.withColumn(it[1], col)
            elif k == "distinct":
                df = df.distinct()
            elif k == "orderBy":
                df = df.orderBy(*[getattr(F.col(n), f)() for n, f in st["keys"]])
            elif k == "limit":
                df = df.limit(st["n"])
            elif k == "drop":
                df = df.drop(*st["cols"])
            elif k == "groupAgg":
                df = df.groupBy(*st["keys"]).agg(*[getattr(F, a[1])(a[2]).alias(a[0]) for a in st["aggs"]])
            else:
                raise ValueError(k)
            ctes.append(len(df.expression.ctes))
        out["ctes"] = ctes
        out["cols"] = list(df.columns)
        out["rows"] = [[b.enc(v) for v in r] for r in df.collect()]
    except Exception as e:  # noqa
        msg = f"{type(e).__name__}: {str(e)[:200]}"
        out["err"] = "IndexError" if isinstance(e, IndexError) else msg
        out["detail"] = msg
    return out


# ------------------------------------------------------------------------------------------------
# comparison
# ------------------------------------------------------------------------------------------------


def same_bag(a: dict, b: dict) -> bool:
    if "err" in a or "err" in b:
        return "err" in a and "err" in b and a["err"] == b["err"]
    if a["cols"] != b["cols"]:
        return False
    return vlib.bag(a["rows"]) == vlib.bag(b["rows"])


def judge(c: dict, o: dict, impl: dict) -> dict:
    """one result record in the vocabulary of c08.evaluate"""
    determined = bool(o["determined"])
    r = {
        "case": c,
        "impl": {k: v for k, v in impl.items() if k in ("cols", "rows", "err", "detail")},
        "clause": impl.get("ctes"),
        "obs": [],
        "emit": o["trace"],
        "model": o["model"],
        "spec": o["spec"],
        "scope": o["scope"],
        "accepts": o["accepts"],
        "determined": determined,
        "proj": None,
        # stream A for a chain: the number of CTEs after every call (which calls share a block)
        "clause_eq": ("ctes" in impl and impl["ctes"] == o["trace"]) or ("ctes" not in impl and "err" in o["model"]),
    }
    r["impl_eq_model"] = (not determined) or same_bag(impl, o["model"])
    r["compared_spec"] = bool(determined and o["accepts"] and "err" not in o["spec"])
    r["impl_eq_spec"] = (not r["compared_spec"]) or same_bag(impl, o["spec"])
    if "err" not in o["spec"] and o["accepts"] and "err" in impl:
        r["compared_spec"] = True
        r["impl_eq_spec"] = False
    return r


def shrink_candidates(c: dict) -> t.List[dict]:
    out = []
    ch = c["chain"]
    for i in range(len(ch)):
        if len(ch) > 1:
            out.append(dict(c, chain=ch[:i] + ch[i + 1 :]))
    for i, st in enumerate(ch):
        if st["k"] == "where" and st.get("str"):
            out.append(dict(c, chain=ch[:i] + [dict(st, str=False)] + ch[i + 1 :]))
        if st["k"] == "select":
            its = st["items"]
            for j in range(len(its)):
                if len(its) > 1:
                    out.append(dict(c, chain=ch[:i] + [dict(st, items=its[:j] + its[j + 1 :])] + ch[i + 1 :]))
                if its[j][0] == "win" and len(its[j][2]) > 1:
                    for q in range(len(its[j][2])):
                        it2 = [its[j][0], its[j][1], its[j][2][:q] + its[j][2][q + 1 :], its[j][3]]
                        out.append(dict(c, chain=ch[:i] + [dict(st, items=its[:j] + [it2] + its[j + 1 :])] + ch[i + 1 :]))
        if st["k"] == "groupAgg" and len(st["aggs"]) > 1:
            for j in range(len(st["aggs"])):
                out.append(dict(c, chain=ch[:i] + [dict(st, aggs=st["aggs"][:j] + st["aggs"][j + 1 :])] + ch[i + 1 :]))
        for holder, key in (("withColumn", "item"),):
            if st["k"] == holder and st[key][0] == "win" and len(st[key][2]) > 1:
                it = st[key]
                for j in range(len(it[2])):
                    out.append(dict(c, chain=ch[:i] + [dict(st, **{key: [it[0], it[1], it[2][:j] + it[2][j + 1 :], it[3]]})] + ch[i + 1 :]))
    rows = c["rows"]
    for i in range(len(rows)):
        if len(rows) > 1:
            out.append(dict(c, rows=rows[:i] + rows[i + 1 :]))
    return [x for x in out if valid(x)]


def valid(c: dict) -> bool:
    """every call only mentions columns that exist where it is made (a shrink step must not produce a program
    PySpark itself rejects)"""
    b = B()
    cols = list(c["schema"])
    if not c["rows"] or not c["chain"]:
        return False

    def refs(e: t.Any) -> t.Set[str]:
        e = b.tuple_(e)
        if e[0] == "col":
            return {e[1]}
        return set().union(*[refs(x) for x in e[1:] if isinstance(x, tuple)]) if len(e) > 1 else set()

    def item_refs(it: t.Sequence[t.Any]) -> t.Set[str]:
        if it[0] == "col":
            return {it[1]}
        if it[0] == "expr":
            return refs(it[2])
        out: t.Set[str] = set()
        for o in it[2]:
            if o["op"] == "partitionBy":
                out |= set(o["cols"])
            elif o["op"] == "orderBy":
                out |= {k[0] for k in o["keys"]}
        fn = it[3]
        if fn[0] in ("lag", "lead", "sum", "min", "max", "count", "first", "last", "avg"):
            out.add(fn[1])
        return out

    for st in c["chain"]:
        k = st["k"]
        if k == "where" and not refs(st["p"]) <= set(cols):
            return False
        if k == "select":
            names = [item_name(i) for i in st["items"]]
            if len(set(names)) != len(names) or any(not item_refs(i) <= set(cols) for i in st["items"]):
                return False
        if k == "withColumn" and not item_refs(st["item"]) <= set(cols):
            return False
        if k == "orderBy" and (not st["keys"] or any(n not in cols for n, _ in st["keys"])):
            return False
        if k == "drop" and (not set(st["cols"]) <= set(cols) or set(st["cols"]) >= set(cols)):
            return False
        if k == "groupAgg":
            names = list(st["keys"]) + [a[0] for a in st["aggs"]]
            if not st["keys"] or len(set(names)) != len(names) or not set(st["keys"]) <= set(cols) or any(a[2] not in cols for a in st["aggs"]):
                return False
        cols = cols_after(cols, st)
    return True


# ------------------------------------------------------------------------------------------------
# generation
# ------------------------------------------------------------------------------------------------


def passthrough_filter(rng: random.Random, cols: t.List[str], avoid: t.Sequence[str] = ()) -> tuple:
    """a predicate over columns that are not the window column: it removes rows other rows' values depend on"""
    cand = [c for c in ("id", "x", "v", "g", "u") if c in cols and c not in avoid]
    if not cand:  # only columns of unknown type are left: a type-agnostic predicate
        return ("not", ("isNull", ("col", rng.choice(cols))))
    c = rng.choice(cand)
    r = rng.random()
    if c == "id":
        return ("bin", rng.choice(["ge", "gt", "ne", "le"]), ("col", "id"), ("lit", rng.choice([1, 2, 3])))
    if r < 0.45:
        return ("bin", rng.choice(["gt", "ge", "ne", "lt"]), ("col", c), ("lit", rng.choice([0, 1, 2])))
    if r < 0.75:
        return ("not", ("isNull", ("col", c)))
    if r < 0.85:
        return ("isNull", ("col", c))
    return ("bin", "or", ("isNull", ("col", c)), ("bin", "lt", ("col", c), ("lit", 2)))


def rand_spec(rng: random.Random, fn: list, cols: t.List[str], frames: bool = True) -> t.List[dict]:
    """builder calls over plain columns of `cols`; a unique tiebreaker (id) when the function depends on tie order"""
    b = B()
    part = [p for p in rng.choice([[], ["g"], ["g"], ["h"], ["g", "h"]]) if p in cols]
    kind = fn[0]
    needs_order = kind in b.NEEDS_ORDER_NO_FRAME
    okeys: t.List[tuple] = []
    if needs_order or rng.random() < 0.75:
        pool = [c for c in ("v", "u", "x") if c in cols]
        if pool and rng.random() < 0.6:
            okeys.append((rng.choice(pool), rng.choice(b.EXPLICIT)))
        if "id" in cols and (kind in TIE_DEP or not okeys or rng.random() < 0.5):
            okeys.append(("id", rng.choice(["asc", "desc"])))
        if not okeys and pool:
            okeys.append((pool[0], rng.choice(b.EXPLICIT)))
    frame = None
    if frames and not needs_order and okeys and rng.random() < 0.4:
        s, e = rng.choice([(b.UP, 0), (-1, 0), (-1, 1), (0, b.UF), (b.UP, b.UF), (0, 1)])
        frame = ("rowsBetween", s, e)
        if "id" in cols and not any(k[0] == "id" for k in okeys):
            okeys.append(("id", "asc"))
    if needs_order and not okeys:
        okeys = [("id", "asc")] if "id" in cols else [(cols[0], "asc")]
    return b.mk_ops(part, okeys, frame)


def rand_fn(rng: random.Random, cols: t.List[str]) -> list:
    pool = [f for f in SENSITIVE if len(f) < 2 or not isinstance(f[1], str) or f[1] in cols]
    return list(rng.choice(pool))


def win_step(rng: random.Random, cols: t.List[str], name: str, fn: t.Optional[list] = None, mode: t.Optional[str] = None) -> dict:
    fn = fn or rand_fn(rng, cols)
    ops = rand_spec(rng, fn, cols)
    mode = mode or rng.choice(["withColumn", "select"])
    if mode == "select" and name not in cols:
        return {"k": "select", "items": [["col", c, rng.choice(["col", "str"])] for c in cols] + [["win", name, ops, fn]]}
    return {"k": "withColumn", "item": ["win", name, ops, fn]}


def where_step(rng: random.Random, p: tuple) -> dict:
    st: t.Dict[str, t.Any] = {"k": "where", "p": p, "str": bool(sql_able(p) and rng.random() < 0.3)}
    if not st["str"] and rng.random() < 0.3:
        st["filter"] = True
    return st


def post_step(rng: random.Random, cols: t.List[str], wnames: t.List[str]) -> t.List[dict]:
    """one user-level move after the window column exists (one or two calls)"""
    r = rng.random()
    if r < 0.45:
        return [where_step(rng, passthrough_filter(rng, cols, avoid=wnames))]
    if r < 0.55 and wnames:
        w = rng.choice(wnames)
        p = rng.choice([("bin", rng.choice(["gt", "le", "eq"]), ("col", w), ("lit", rng.choice([0, 1, 2]))), ("not", ("isNull", ("col", w))), ("isNull", ("col", w))])
        return [where_step(rng, p)]
    if r < 0.6:
        keep = [c for c in cols if c in wnames or c == "id" or rng.random() < 0.5]
        return [{"k": "select", "items": [["col", c, rng.choice(["col", "str"])] for c in keep]}] if keep else []
    if r < 0.65:
        gone = [c for c in cols if c not in wnames and c != "id" and rng.random() < 0.4]
        return [{"k": "drop", "cols": gone}] if gone and len(gone) < len(cols) else []
    if r < 0.75:
        src = rng.choice([c for c in cols if c in wnames or c in ("x", "v", "id", "u")] or cols)
        kinds = {c: k for c, k in B().SCHEMA.items()}
        if kinds.get(src, "int") != "int":
            return []
        name = rng.choice(["y", src]) if src not in ("id",) else "y"
        return [{"k": "withColumn", "item": ["expr", name, ("bin", "add", ("col", src), ("lit", 1))]}]
    if r < 0.85 and "id" in cols:
        return [{"k": "orderBy", "keys": [["id", rng.choice(["asc", "desc"])]]}, {"k": "limit", "n": rng.choice([1, 2, 3, 4])}]
    if r < 0.9:
        return [{"k": "distinct"}]
    if r < 0.97:
        keys = [k for k in rng.choice([["g"], ["h"], ["g", "h"]]) if k in cols]
        ints = [c for c in cols if c in wnames or B().SCHEMA.get(c) == "int"]
        if keys and ints:
            aggs = [[f"a{j}", rng.choice(["sum", "min", "max", "count"]), rng.choice([c for c in ints if c in wnames] or ints)] for j in range(rng.choice([1, 2]))]
            return [{"k": "groupAgg", "keys": keys, "aggs": aggs}]
        return []
    if "id" in cols:
        return [{"k": "orderBy", "keys": [["id", rng.choice(["asc", "desc"])]]}]
    return []


def pre_step(rng: random.Random, cols: t.List[str]) -> t.List[dict]:
    r = rng.random()
    if r < 0.35:
        return [where_step(rng, passthrough_filter(rng, cols))]
    if r < 0.5 and "id" in cols:
        return [{"k": "orderBy", "keys": [["id", rng.choice(["asc", "desc"])]]}, {"k": "limit", "n": rng.choice([2, 3, 4, 5])}]
    if r < 0.65:
        keep = [c for c in cols if c in ("g", "v", "x") or rng.random() < 0.3]
        if keep:
            return [{"k": "select", "items": [["col", c, "col"] for c in keep]}, {"k": "distinct"}]
        return []
    if r < 0.8:
        return [{"k": "withColumn", "item": ["expr", rng.choice(["y", "x"]), ("bin", "add", ("col", "x"), ("lit", 1))]}] if "x" in cols else []
    if r < 0.88:
        return [{"k": "distinct"}]
    if r < 0.95 and all(c in cols for c in ("g", "h", "x", "v")):
        return [{"k": "groupAgg", "keys": ["g", "h"], "aggs": [["x", "sum", "x"], ["v", rng.choice(["max", "min", "count"]), "v"]]}]
    return [{"k": "select", "items": [["col", c, "col"] for c in cols if c != "u"]}]


def mk(rows: t.List[list], chain: t.List[dict], origin: str) -> dict:
    return {"schema": B().SCHEMA, "rows": rows, "chain": chain, "origin": origin}


def cases_for(ctx: t.Any) -> t.List[dict]:
    b = B()
    rng = ctx.rng
    cols0 = list(b.SCHEMA)
    reps = 3 if ctx.thorough else 1
    cases: t.List[dict] = []

    def rows(n: t.Optional[int] = None) -> t.List[list]:
        return b.gen_rows(rng, n=n or rng.choice([3, 4, 5, 6, 7]))

    # (c1) the window column, then ONE call that does not mention it: every sensitive function x every way of adding
    #      the column x a filter on a passed-through column (Column / SQL string / filter alias), a narrowing select,
    #      DISTINCT, ORDER BY + LIMIT
    for _ in range(reps):
        for fn in SENSITIVE:
            for mode in ("withColumn", "select"):
                for form in ("col", "str", "filter"):
                    ws = win_step(rng, cols0, "w", list(fn), mode)
                    p = passthrough_filter(rng, cols0)
                    if form == "str" and not sql_able(p):
                        p = ("bin", "ge", ("col", "id"), ("lit", 2))
                    st = {"k": "where", "p": p, "str": form == "str"}
                    if form == "filter":
                        st["filter"] = True
                    cases.append(mk(rows(), [ws, st], "chain-window-then-filter"))
                ws = win_step(rng, cols0, "w", list(fn), mode)
                cases.append(mk(rows(), [ws, {"k": "orderBy", "keys": [["id", rng.choice(["asc", "desc"])]]}, {"k": "limit", "n": rng.choice([1, 2, 3])}], "chain-window-then-limit"))

    # (c2) a call BEFORE the window column that must not end up after it: filter, ORDER BY + LIMIT, DISTINCT over
    #      duplicate rows, a redefined column the window reads
    for _ in range(2 * reps):
        for fn in SENSITIVE:
            r = rng.random()
            if r < 0.3:
                pre = [where_step(rng, passthrough_filter(rng, cols0))]
            elif r < 0.55:
                pre = [{"k": "orderBy", "keys": [["id", rng.choice(["asc", "desc"])]]}, {"k": "limit", "n": rng.choice([2, 3, 4])}]
            elif r < 0.8:
                keep = [c for c in ("g", "h", "v", "x") if c in ("g", "x") or rng.random() < 0.5]
                pre = [{"k": "select", "items": [["col", c, "col"] for c in keep]}, {"k": "distinct"}]
            else:
                pre = [{"k": "withColumn", "item": ["expr", "x", ("bin", "mul", ("col", "x"), ("lit", 2))]}]
            cols = cols0
            for s in pre:
                cols = cols_after(cols, s)
            f = list(fn)
            if len(f) > 1 and isinstance(f[1], str) and f[1] not in cols:
                f[1] = "x"
            cases.append(mk(rows(), pre + [win_step(rng, cols, "w", f)], "chain-call-before-window"))

    # (c3) the window column REPLACES a column (withColumn on an existing name), then a filter / a second window on
    #      that name: the later call must see the window's values
    for _ in range(8 * reps):
        fn = rng.choice([["row_number"], ["rank"], ["sum", "x"], ["count", "x"], ["max", "x"], ["dense_rank"]])
        name = rng.choice(["x", "u", "v"])
        if name in ("u", "v"):
            ops = b.mk_ops(rng.choice([[], ["g"]]), [("id", rng.choice(["asc", "desc"]))], None)
        else:
            ops = b.mk_ops(rng.choice([[], ["g"]]), [("v", rng.choice(b.EXPLICIT)), ("id", "asc")], None)
        ws = {"k": "withColumn", "item": ["win", name, ops, list(fn)]}
        p = rng.choice([("bin", rng.choice(["gt", "ge", "le"]), ("col", name), ("lit", rng.choice([1, 2, 3]))), ("not", ("isNull", ("col", name)))])
        cases.append(mk(rows(), [ws, where_step(rng, p)], "chain-window-replaces-column"))
        cases.append(mk(rows(), [ws, {"k": "withColumn", "item": ["win", "w2", b.mk_ops([], [("id", "asc")], None), ["sum", name]]}], "chain-window-over-window"))

    # (c4) several window columns, each added by its own call, with calls in between
    for _ in range(10 * reps):
        cols = cols0
        chain: t.List[dict] = []
        for j in range(rng.choice([2, 2, 3])):
            name = "w" if j == 0 else f"w{j}"
            src_cols = cols
            fn = rand_fn(rng, [c for c in src_cols if c != "h"])
            if j > 0 and rng.random() < 0.4:
                fn = [rng.choice(["sum", "max", "count"]), "w"]
            st = win_step(rng, cols, name, fn)
            chain.append(st)
            cols = cols_after(cols, st)
            if rng.random() < 0.5:
                for s in post_step(rng, cols, [n for n in cols if n.startswith("w")]):
                    chain.append(s)
                    cols = cols_after(cols, s)
        cases.append(mk(rows(), chain, "chain-several-windows"))

    # (c6) groupBy().agg() right after / right before the window column (the aggregate reads the window column; the
    #      window ranges over the aggregated rows)
    for _ in range(6 * reps):
        fn = rng.choice([["row_number"], ["rank"], ["sum", "x"], ["count", "x"], ["dense_rank"], ["max", "x"]])
        ws = win_step(rng, cols0, "w", list(fn))
        keys = rng.choice([["g"], ["h"], ["g", "h"]])
        cases.append(mk(rows(), [ws, {"k": "groupAgg", "keys": keys, "aggs": [["m", rng.choice(["max", "sum", "min"]), "w"], ["n", "count", "w"]]}], "chain-window-then-groupby"))
        cases.append(mk(rows(), [ws, where_step(rng, passthrough_filter(rng, cols0)), {"k": "groupAgg", "keys": keys, "aggs": [["m", rng.choice(["max", "sum"]), "w"]]}], "chain-window-then-groupby"))
        pre = {"k": "groupAgg", "keys": ["g", "h"], "aggs": [["x", "sum", "x"], ["n", "count", "id"]]}
        wfn = rng.choice([["rank"], ["dense_rank"], ["sum", "x"], ["max", "n"], ["count", "x"]])
        wops = b.mk_ops(rng.choice([[], ["g"]]), [("x", rng.choice(b.EXPLICIT)), ("n", "asc")] if wfn[0] in ("rank", "dense_rank") else [], None)
        cases.append(mk(rows(), [pre, {"k": "withColumn", "item": ["win", "w", wops, wfn]}] + ([where_step(rng, ("not", ("isNull", ("col", "g"))))] if rng.random() < 0.5 else []), "chain-groupby-then-window"))

    # (c7) the columns the window was computed from are dropped after it, then a filter on what is left
    for _ in range(6 * reps):
        ws = win_step(rng, cols0, "w", list(rng.choice(SENSITIVE)), "withColumn")
        gone = [c for c in ("g", "h", "v", "u") if rng.random() < 0.6] or ["u"]
        cases.append(mk(rows(), [ws, {"k": "drop", "cols": gone}, where_step(rng, passthrough_filter(rng, ["id", "x"]))], "chain-window-then-drop"))

    # (c5) random chains: calls before, the window column, calls after
    n_rand = 900 if ctx.thorough else 150
    for _ in range(n_rand):
        cols = cols0
        chain = []
        for _i in range(rng.choice([0, 0, 1, 1, 2])):
            for s in pre_step(rng, cols):
                chain.append(s)
                cols = cols_after(cols, s)
        if not [c for c in cols if b.SCHEMA.get(c) == "int"]:
            continue
        st = win_step(rng, cols, "w", rand_fn(rng, cols))
        chain.append(st)
        cols = cols_after(cols, st)
        for _i in range(rng.choice([1, 1, 2, 3])):
            for s in post_step(rng, cols, ["w"]):
                chain.append(s)
                cols = cols_after(cols, s)
        c = mk(rows(), chain, "chain-random")
        if valid(c):
            cases.append(c)
    return [c for c in cases if valid(c)]


def digest(c: dict) -> str:
    return vlib.digest([c["chain"], c["rows"]])
