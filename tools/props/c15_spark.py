"""
c15_spark.py — what PySpark says a predicate text selects (comparison C for C15: PySpark <-> specification).

There is no PySpark DataFrame API for UPDATE / DELETE, but *which rows a predicate selects* is exactly what
`DataFrame.filter(text)` answers: the specification's reading of SQL text (double-quoted strings, backticks, backslash
escapes, ==, three-valued logic, IN lists, LIKE, name resolution inside subqueries) is compared with it.

stdin : JSON list of {"schema": {col: int|str|bool}, "rows": [...], "other": {"schema", "rows"}?, "text": str}
stdout: JSON list of {"selected": [rows]} | {"error": "..."}
run   : PYSPARK_PYTHON=/venv/bin/python /venv/bin/python tools/props/c15_spark.py < in.json > out.json
"""
from __future__ import annotations

import json
import sys

DDL = {"int": "bigint", "str": "string", "bool": "boolean"}


def main() -> int:
    items = json.load(sys.stdin)
    from pyspark.sql import SparkSession

    spark = SparkSession.builder.master("local[1]").config("spark.ui.enabled", "false").config("spark.sql.shuffle.partitions", "1").getOrCreate()
    spark.sparkContext.setLogLevel("ERROR")
    out = []
    for it in items:
        try:
            ddl = ", ".join(f"{c} {DDL[k]}" for c, k in it["schema"].items())
            df = spark.createDataFrame([tuple(r) for r in it["rows"]], schema=ddl)
            if it.get("other"):
                oddl = ", ".join(f"{c} {DDL[k]}" for c, k in it["other"]["schema"].items())
                spark.createDataFrame([tuple(r) for r in it["other"]["rows"]], schema=oddl).createOrReplaceTempView("o")
            rows = df.filter(it["text"]).collect()
            out.append({"selected": [list(r) for r in rows]})
        except Exception as e:  # noqa
            out.append({"error": f"{type(e).__name__}: {str(e)[:200]}"})
    json.dump(out, sys.stdout)
    spark.stop()
    return 0


if __name__ == "__main__":
    sys.exit(main())
