"""
C03 — the SQL text returned by df.sql() means the same as what collect() executes.

proof : lean/SqlframeModel/Props/C03.lean — self-containedness (every referenced CTE defined earlier, no
        name defined twice) for every tree of wraps / joins / set operations (C03_closed), preserved by the
        final re-hashing (C03_rehash), under explicit freshness hypotheses on the content hash that are
        checked here on every generated statement.
tie   : (a) structural stream: program trees are built on the real DataFrame API; the CTE chain of the real
        statement (names -> first-occurrence indices, references) must equal the model's chain;
        (b) every real statement, for every (optimize, quote_identifiers, pretty), is parsed back and checked
        closed/unique directly.
validation (not proof): every text is executed on DuckDB and compared with collect() (rows, column names) —
        this is the only evidence for optimize=True, where sqlglot's optimizer (third party) rewrites the query.
"""
from __future__ import annotations

import itertools
import json
import os
import random
import typing as t

import c01
import c03_agg
import exprs as X
import vlib
from vlib import Ctx, bag, plain

ID = "C03"
LEVEL = "proof"
MODULES = ["SqlframeModel.Codec.C01", "SqlframeModel.Props.C03", "SqlframeModel.Props.C03Text", "SqlframeModel.Props.C03Agg", "SqlframeModel.Codec.C03"]  # the last one imports all
GEN = ["Actions", "Operations", "Methods", "Clauses", "C03Agg"]
SOURCES = ["SqlframeModel/Props/C03.lean", "SqlframeModel/Props/C03Text.lean", "SqlframeModel/Props/C03Agg.lean", "SqlframeModel/Lemmas/C03.lean", "SqlframeModel/Impl/C03.lean",
           "SqlframeModel/Impl/C03Agg.lean", "SqlframeModel/Lemmas/C03Agg.lean", "SqlframeModel/Impl/DataFrame.lean", "SqlframeModel/Props/C01.lean"]
FLAGS = list(itertools.product([True, False], [True, False], [True, False]))  # optimize, quote_identifiers, pretty

# ------------------------------------------------------------------------------------------------
# structural programs
# ------------------------------------------------------------------------------------------------


def gen_tree(rng: random.Random, depth: int) -> tuple:
    if depth <= 0 or rng.random() < 0.3:
        return ("base", rng.randrange(2))
    c = rng.random()
    if c < 0.16:
        return (rng.choice(["agg", "distinct", "ordlimit", "respell", "window", "window2"]), gen_tree(rng, depth - 1))
    if c < 0.22:  # joins without an equi-key: the optimizer decides alone what may be merged into them
        return ("xjoin", gen_tree(rng, depth - 1), gen_tree(rng, depth - 1), rng.choice(["cross", "cond", "cond_left"]))
    if c < 0.4:
        return ("wrap", gen_tree(rng, depth - 1))
    if c < 0.75:
        return ("join", gen_tree(rng, depth - 1), gen_tree(rng, depth - 1), rng.choice(["inner", "left", "full", "inner", "left", "full", "right", "left_semi", "left_anti"]))
    return ("setop", gen_tree(rng, depth - 1), gen_tree(rng, depth - 1), rng.choice(["union", "intersect", "exceptAll"]))


class Namer:
    """content ids: equal subtrees (same base object, same operations) get the same name, like a content hash"""

    def __init__(self):
        self.ids: t.Dict[t.Any, int] = {}
        self.fresh = 1000

    def name(self, key: t.Any) -> int:
        if key not in self.ids:
            self.ids[key] = len(self.ids) + 1
        return self.ids[key]

    def supply(self, n: int) -> t.List[int]:
        out = list(range(self.fresh, self.fresh + n))
        self.fresh += n
        return out


def is_structural(tr: tuple) -> bool:
    """only select-wraps / joins / set operations are numbered by the Lean chain model"""
    return tr[0] in ("base", "wrap", "join", "setop") and all(is_structural(x) for x in tr[1:] if isinstance(x, tuple))


def size(tr: tuple) -> int:
    return 1 + sum(size(x) for x in tr[1:] if isinstance(x, tuple))


def to_prog(tr: tuple, nm: Namer, path: str = "") -> t.Tuple[dict, t.Any]:
    """returns (Lean Prog JSON for the DataFrame `real(tr)`, content key of its last CTE)"""
    k = tr[0]
    if k == "base":
        key = ("base", tr[1])
        return {"base": {"n": nm.name(key)}}, key
    if k == "wrap":
        p, pk = to_prog(tr[1], nm)
        key = ("sel", pk)
        return {"wrap": {"p": p, "n": nm.name(key)}}, key
    l, lk = to_prog(tr[1], nm)
    r, rk = to_prog(tr[2], nm)
    lwk = ("sel", lk)  # the decorator wraps the left side (FROM < SELECT)
    rsk = ("selw", rk)  # right side: explicit .select(k, v AS w) wraps
    rwk = ("sel", rsk)  # `other._convert_leaf_to_cte()`
    lp = {"wrap": {"p": l, "n": nm.name(lwk)}}
    rp = {"wrap": {"p": r, "n": nm.name(rsk)}}
    fresh = nm.supply(size(tr) * 4 + 8)
    if k == "join":
        key = ("join", lwk, rwk, tr[3], fresh[0])
        return {"join": {"l": lp, "r": rp, "n": nm.name(rwk), "fresh": fresh}}, key
    key = ("setop", lwk, rwk, tr[3], fresh[0])
    return {"setop": {"l": lp, "r": rp, "n": nm.name(rwk), "m": nm.name(key), "fresh": fresh}}, key


_S = None
_BASES: t.List[t.Any] = []


def bases():
    global _S
    if _S is None:
        _S = vlib.fresh_duckdb_session()
        _BASES.append(_S.createDataFrame([(1, 10), (2, 20), (2, 21), (None, 5)], schema="k bigint, v bigint"))
        _BASES.append(_S.createDataFrame([(2, 7), (3, 8), (None, 9), (2, 7)], schema="k bigint, v bigint"))
    return _S, _BASES


def real(tr: tuple):
    from sqlframe.duckdb import functions as F

    _, bs = bases()
    k = tr[0]
    if k == "base":
        return bs[tr[1]].select("k", "v")
    if k == "wrap":
        return real(tr[1]).select("k", "v")
    if k == "agg":  # blocks the optimizer cannot merge away: identical copies keep identical bodies
        return real(tr[1]).groupBy("k").agg(F.sum("v").alias("v")).select("k", "v")
    if k == "distinct":
        return real(tr[1]).distinct().select("k", "v")
    if k == "ordlimit":
        return real(tr[1]).orderBy(F.col("k").desc_nulls_last(), F.col("v").asc_nulls_first()).limit(3).select("k", "v")
    if k == "respell":  # mixed-case output names: the text must report the user's spelling
        return real(tr[1]).withColumnRenamed("v", "Vee").select(F.col("k").alias("Kay"), "Vee").select(F.col("Kay").alias("k"), F.col("Vee").alias("v"))
    if k == "window":  # a filter on a window column must stay above the window
        from sqlframe.duckdb import Window

        w = Window.partitionBy("k").orderBy(F.col("v").asc_nulls_first())
        return real(tr[1]).withColumn("rn", F.row_number().over(w)).where(F.col("rn") == 1).select("k", "v")
    if k == "window2":  # a filter on an ordinary column *after* a window column was computed must not change the window's input
        from sqlframe.duckdb import Window

        w = Window.partitionBy("k").orderBy(F.col("v").asc_nulls_first())
        return real(tr[1]).withColumn("rn", F.row_number().over(w)).where(F.col("v") != 20).select("k", F.col("rn").alias("v"))
    if k == "unaliased":  # an expression without alias: the text must name the column like collect() does
        return real(tr[1]).select("k", F.col("v") + 1)
    L = real(tr[1])
    R = real(tr[2])
    if k == "xjoin":  # crossJoin + filter / join on a condition that is not an equality of keys
        R3 = R.select(F.col("k").alias("k2"), F.col("v").alias("w"))
        if tr[3] == "cross":
            return L.crossJoin(R3).where(F.col("v") > F.col("w")).select("k", "v")
        if tr[3] == "cond":
            return L.join(R3, F.col("v") >= F.col("w")).select("k", "v")
        return L.join(R3, (F.col("k") == F.col("k2")) & (F.col("v") >= F.col("w")), "left").select("k", F.col("w").alias("v"))
    if k == "join":
        R2 = R.select(F.col("k"), F.col("v").alias("w"))
        return L.join(R2, on="k", how=tr[3]).select("k", "v")
    R2 = R.select(F.col("k"), F.col("v").alias("w"))
    return getattr(L, tr[3])(R2).select("k", "v")


def chain_of(sql: str) -> t.Tuple[t.List[str], t.List[t.List[str]], t.List[str]]:
    """(names, refs per CTE, refs of the final block) of a statement, via sqlglot"""
    import sqlglot
    from sqlglot import exp

    tree = sqlglot.parse_one(sql, dialect="duckdb")
    ctes = tree.args.get("with").expressions if tree.args.get("with") else []
    names = [c.alias for c in ctes]

    def refs(node) -> t.List[str]:
        out = []
        for tb in node.find_all(exp.Table):
            if tb.name in names and not tb.args.get("db"):
                if tb.name not in out:
                    out.append(tb.name)
        return out

    body = tree.copy()
    body.set("with", None)
    return names, [refs(c.this) for c in ctes], refs(body)


def canon(names: t.List[t.Any], refs: t.List[t.List[t.Any]], open_: t.List[t.Any]) -> t.Any:
    idx = {n: i for i, n in enumerate(names)}
    return {"n": len(names), "refs": [sorted(idx.get(r, -1) for r in rs) for rs in refs], "open": sorted(idx.get(r, -1) for r in open_), "unique": len(set(names)) == len(names)}


def closed_unique(names: t.List[str], refs: t.List[t.List[str]], open_: t.List[str]) -> t.List[str]:
    problems = []
    if len(set(names)) != len(names):
        problems.append(f"a CTE name is defined twice: {names}")
    for i, rs in enumerate(refs):
        for r in rs:
            if r not in names[:i]:
                problems.append(f"CTE {names[i]} refers to {r}, which is not defined before it")
    for r in open_:
        if r not in names:
            problems.append(f"the final block refers to undefined {r}")
    return problems


def engine_artefact(conn: t.Any, df: t.Any, text: str, canon_rows: t.Callable[[t.Any], t.Any]) -> bool:
    """rows of the text and of collect() differ: is it the *engine's own* optimizer?  DuckDB 1.2.2 evaluates e.g.
    `SELECT * FROM t WHERE x = y AND x > y AND y < 3` to the row (1, 1) (its filter combiner; with `PRAGMA
    disable_optimizer` it returns nothing).  The engine with its optimizer disabled is the reference: if text and collect()
    agree there, the text means what collect() executes and the difference is not sqlframe's (counted, not reported)."""
    try:
        conn.execute("PRAGMA disable_optimizer")
        return canon_rows(df.collect()) == canon_rows(conn.execute(text).fetchall())
    except Exception:  # noqa
        return False
    finally:
        try:
            conn.execute("PRAGMA enable_optimizer")
        except Exception:  # noqa
            pass


def run_texts(df, ordered: bool) -> t.Tuple[t.List[str], t.Dict[str, t.Any]]:
    """every flag combination: never fails, self-contained, and returns collect()'s rows and names"""
    s, _ = bases()
    conn = s._conn
    fails: t.List[str] = []
    info: t.Dict[str, t.Any] = {}
    try:
        R = df.collect()
        C = [[plain(v) for v in r] for r in R]
    except Exception as e:  # C03 only speaks about DataFrames that can be collected (joins failing here are C02's)
        return [], {"uncollectable": f"{type(e).__name__}: {str(e)[:120]}"}
    # the names collect() reports are its Rows' field names; df.columns stands in when there is no row (and says
    # nothing for an unexpanded `SELECT *` over a table the catalog has not looked up)
    cols = list(R[0].__fields__) if R else list(df.columns)
    for opt, quote, pretty in FLAGS:
        tag = f"optimize={opt},quote_identifiers={quote},pretty={pretty}"
        try:
            text = df.sql(dialect="duckdb", optimize=opt, quote_identifiers=quote, pretty=pretty)
        except Exception as e:  # noqa
            fails.append(f"[{tag}] sql() raised {type(e).__name__}: {str(e)[:120]}")
            continue
        try:
            names, refs, open_ = chain_of(text)
            for pb in closed_unique(names, refs, open_):
                fails.append(f"[{tag}] {pb}")
            if not opt and quote and not pretty:
                info["chain"] = canon(names, refs, open_)
        except Exception as e:  # noqa
            fails.append(f"[{tag}] text does not parse back: {type(e).__name__}: {str(e)[:120]}")
        try:
            cur = conn.execute(text)
            got_cols = [d[0] for d in cur.description]
            got = [[plain(v) for v in r] for r in cur.fetchall()]
        except Exception as e:  # noqa
            fails.append(f"[{tag}] the engine rejects the text: {type(e).__name__}: {str(e)[:160]}")
            continue
        if got_cols != cols and "*" not in cols:
            fails.append(f"[{tag}] column names {got_cols} differ from collect()'s {cols}")
        if (got != C) if ordered else (bag(got) != bag(C)):
            canon_rows = (lambda rs: [[plain(v) for v in r] for r in rs]) if ordered else (lambda rs: bag([[plain(v) for v in r] for r in rs]))
            if engine_artefact(conn, df, text, canon_rows):
                info["engine_artefacts"] = info.get("engine_artefacts", 0) + 1
            else:
                fails.append(f"[{tag}] rows differ from collect(): {got[:6]} vs {C[:6]}")
    info["collect"] = C
    return fails, info


def run_struct(tr: tuple) -> dict:
    try:
        from sqlglot.schema import MappingSchema

        bases()[0].catalog._schema = MappingSchema()
        df = real(tr)
        fails, info = run_texts(df, False)
        return {"fails": fails, "chain": info.get("chain"), "uncollectable": info.get("uncollectable"), "engine_artefacts": info.get("engine_artefacts", 0)}
    except Exception as e:  # noqa
        return {"fails": [f"building the program raised {type(e).__name__}: {str(e)[:200]}"], "chain": None}


def apply_spelled(df: t.Any, s: dict, F: t.Any) -> t.Any:
    """the step with every name it *introduces* written in upper case (references stay as generated: DuckDB
    sessions normalise both) — the rendered text must report the user's spelling, and still mean the same"""
    k = s["k"]
    if k == "select":
        return df.select(*[X.to_column(c01.tuple_(e), F).alias(n.upper()) for n, e in s["items"]])
    if k == "withColumn":
        return df.withColumn(s["n"].upper(), X.to_column(c01.tuple_(s["e"]), F))
    if k == "withColumnRenamed":
        return df.withColumnRenamed(s["a"], s["b"].upper())
    if k == "toDF":
        return df.toDF(*[n.upper() for n in s["names"]])
    return c01.apply_step(df, s, F)


SOURCES_KINDS = ["table", "sql_star", "sql_cols", "read_table"]


def star_ok(c: dict) -> bool:
    """`session.sql("SELECT * FROM t")` over a table the catalog has not looked up has no column list: before an explicit
    select only the steps that name their columns themselves are exercised (the others need the list and either are
    rejected when the program is built or silently work on `*`: not C03's business)"""
    for s in c["steps"]:
        if s["k"] == "select":
            return True
        if s["k"] not in ("where", "orderBy", "limit", "distinct"):
            return False
    return True


def star_filter(c: dict) -> bool:
    """a row filter (where / dropna) anywhere downstream of the unexpanded `SELECT *` of a table whose columns the catalog
    does not know (the star stays at the bottom of the CTE chain)"""
    return c.get("source") == "sql_star" and any(s["k"] in ("where", "dropna") for s in c["steps"])


def make_source(c: dict) -> t.Any:
    """the chain's input: createDataFrame (VALUES), or a real engine table reached through session.table /
    session.sql("SELECT * …") / session.sql("SELECT cols …") / read.table, in a session whose catalog already
    knows another table (the optimizer then sees a non-empty schema that lacks this one)"""
    from sqlglot.schema import MappingSchema

    s = bases()[0]
    src = c.get("source", "createDataFrame")
    if src == "createDataFrame":
        # what the optimizer does depends on whether the catalog knows any table: a case says which (default: none),
        # so that its outcome does not depend on which cases the same worker process ran before
        if not c.get("catalog_seen"):
            s.catalog._schema = MappingSchema()
            return X.make_df(s, c["schema"], c["rows"])
    conn = s._conn
    if not getattr(make_source, "made", False):
        conn.execute("CREATE OR REPLACE TABLE c03_seen (k BIGINT, v BIGINT)")
        conn.execute("INSERT INTO c03_seen VALUES (1, 2)")
        make_source.made = True  # type: ignore
    s.catalog._schema = MappingSchema()
    s.table("c03_seen")
    if src == "createDataFrame":
        return X.make_df(s, c["schema"], c["rows"])
    name = "c03_src_" + vlib.digest([c["schema"], c["rows"], src])[:12]
    ddl = ", ".join(f"{n} {'BIGINT' if k == 'int' else 'VARCHAR'}" for n, k in c["schema"].items())
    conn.execute(f"CREATE OR REPLACE TABLE {name} ({ddl})")
    for r in c["rows"]:
        conn.execute(f"INSERT INTO {name} VALUES ({', '.join('?' for _ in r)})", list(r))
    if src == "table":
        return s.table(name)
    if src == "read_table":
        return s.read.table(name)
    if src == "sql_star":
        return s.sql(f"SELECT * FROM {name}")
    return s.sql(f"SELECT {', '.join(c['schema'])} FROM {name}")


def run_chain(c: dict) -> dict:
    from sqlframe.duckdb import functions as F

    try:
        df = make_source(c)
        for s in c["steps"]:
            df = apply_spelled(df, s, F) if c.get("spell") else c01.apply_step(df, s, F)
        fails, tinfo = run_texts(df, c01.order_checked(c))
        shape = None
        if c.get("source", "createDataFrame") == "createDataFrame" and c["rows"]:
            try:
                shape = c01.shape_of_sql(df.sql(dialect="duckdb", optimize=False))
            except Exception as e:  # noqa
                shape = f"unreadable: {type(e).__name__}"
        return {"fails": fails, "shape": shape, "engine_artefacts": tinfo.get("engine_artefacts", 0)}
    except Exception as e:  # noqa
        return {"fails": [f"building the program raised {type(e).__name__}: {str(e)[:200]}"]}


# ------------------------------------------------------------------------------------------------
# known-finding classification for optimize=True (sqlglot's optimizer is third party)
# ------------------------------------------------------------------------------------------------


def only_optimized(fails: t.List[str]) -> bool:
    return bool(fails) and all(f.startswith("[optimize=True") for f in fails)


def limit_then_reader(c: dict) -> bool:
    """a step that filters/deduplicates/sorts rows after a truncating limit (the optimizer may move it below the LIMIT)"""
    seen_limit = False
    for s in c["steps"]:
        if s["k"] == "limit" and s["n"] < c01.BIG:
            seen_limit = True
        elif seen_limit and s["k"] in ("where", "distinct", "orderBy", "dropna"):
            return True
    return False


def bases_of(tr: tuple) -> t.Set[int]:
    if tr[0] == "base":
        return {tr[1]}
    return set().union(*[bases_of(x) for x in tr[1:] if isinstance(x, tuple)])


def has_common_base(tr: tuple) -> bool:
    if tr[0] in ("join", "setop", "xjoin") and (bases_of(tr[1]) & bases_of(tr[2])):
        return True
    return any(has_common_base(x) for x in tr[1:] if isinstance(x, tuple))


def has_kind(tr: tuple, kind: str) -> bool:
    return tr[0] == kind or any(has_kind(x, kind) for x in tr[1:] if isinstance(x, tuple))


def has_semi_anti(tr: tuple) -> bool:
    if tr[0] == "join" and tr[3] in ("left_semi", "left_anti"):
        return True
    return any(has_semi_anti(x) for x in tr[1:] if isinstance(x, tuple))


def has_outer_join(tr: tuple) -> bool:
    if (tr[0] == "join" and tr[3] in ("left", "right", "full")) or (tr[0] == "xjoin" and tr[3] == "cond_left"):
        return True
    return any(has_outer_join(x) for x in tr[1:] if isinstance(x, tuple))


def nested_outer(tr: tuple) -> bool:
    """a join / set operation one of whose operands contains an outer join, or an outer join over a join"""
    if tr[0] in ("join", "setop", "xjoin"):
        if has_outer_join(tr[1]) or has_outer_join(tr[2]):
            return True
        if tr[0] in ("join", "xjoin") and tr[3] not in ("inner", "cross", "cond") and any(x[0] in ("join", "setop", "xjoin") or (x[0] == "wrap" and contains_join(x)) for x in (tr[1], tr[2])):
            return True
    return any(nested_outer(x) for x in tr[1:] if isinstance(x, tuple))


def has_distinct_setop(tr: tuple) -> bool:
    """an INTERSECT / EXCEPT ALL whose result is then projected to fewer columns (here: by a later join/select)"""
    if tr[0] == "setop" and tr[3] in ("intersect", "exceptAll"):
        return True
    return any(has_distinct_setop(x) for x in tr[1:] if isinstance(x, tuple))


def contains_join(tr: tuple) -> bool:
    return tr[0] in ("join", "setop", "xjoin") or any(contains_join(x) for x in tr[1:] if isinstance(x, tuple))


def tree_reductions(tr: tuple) -> t.List[tuple]:
    """trees obtained by replacing one node by one of its operands"""
    out: t.List[tuple] = []
    subs = [i for i, x in enumerate(tr) if isinstance(x, tuple)]
    for i in subs:
        out.append(tr[i])
    for i in subs:
        for r in tree_reductions(tr[i]):
            out.append(tr[:i] + (r,) + tr[i + 1 :])
    return out


def minimise_tree(tr: tuple) -> tuple:
    best = tr
    for _ in range(10):
        nxt = None
        for cand in tree_reductions(best):
            r = run_struct(cand)
            if r["fails"] and not r.get("uncollectable"):
                nxt = cand
                break
        if nxt is None:
            break
        best = nxt
    return best


def classify_tree(tr: tuple, fails: t.List[str], known: t.Dict[str, dict]) -> t.List[str]:
    """third-party (sqlglot optimizer) findings: only optimize=True renderings fail, and a minimal failing subprogram
    (operands replaced by their own operands while it still fails) has the listed shape"""
    if not only_optimized(fails):
        return []
    tr = minimise_tree(tr)
    fails = run_struct(tr)["fails"]
    if not only_optimized(fails):
        return []
    hs = set()
    for f in fails:
        if "rows differ" in f and has_semi_anti(tr) and "H_optSemiAntiDropped" in known:
            hs.add("H_optSemiAntiDropped")
        elif "rows differ" in f and has_kind(tr, "window2") and "H_optFilterBelowWindow" in known:
            hs.add("H_optFilterBelowWindow")
        elif "column names" in f and "_col_" in f and tr[0] == "unaliased" and "H_optUnaliasedName" in known:
            hs.add("H_optUnaliasedName")
        elif "sql() raised KeyError" in f and has_common_base(tr) and "H_optDiamondKeyError" in known:
            hs.add("H_optDiamondKeyError")
        elif "rows differ" in f and nested_outer(tr) and "H_optNestedOuterJoin" in known:
            hs.add("H_optNestedOuterJoin")
        elif "rows differ" in f and has_distinct_setop(tr) and "H_optProjectsThroughSetOp" in known:
            hs.add("H_optProjectsThroughSetOp")
        else:
            return []
    return sorted(hs)


def step_refs(s: dict) -> t.Set[str]:
    """input columns a step's expressions read"""
    k = s["k"]
    if k == "where":
        return c01.expr_refs(c01.tuple_(s["p"]))
    if k == "select":
        return set().union(*[c01.expr_refs(c01.tuple_(e)) for _, e in s["items"]]) if s["items"] else set()
    if k == "withColumn":
        return c01.expr_refs(c01.tuple_(s["e"]))
    if k == "dropna":
        return set(s["sub"])
    return set()


def lateral_alias(c: dict) -> bool:
    """the mechanisms by which sqlglot's optimizer resolves a reference to an *input* column to a same-named alias:
    (a) a row filter (where / dropna) reads column n and a later step gives the name n a new meaning — merged into one
        block, the filter is evaluated on the new value;
    (b) one select list defines n (not as the plain column) and a later item of the same list reads the input n;
    (c) toDF moves an existing name to another position; two dropna steps both define the helper column num_nulls"""
    cols = list(c["schema"])
    if sum(1 for s in c["steps"] if s["k"] == "dropna") >= 2:
        return True
    filtered: t.Set[str] = set()  # names read by a filter so far
    gone: t.Set[str] = set()  # names that existed earlier in the chain and were renamed / dropped
    for s in c["steps"]:
        k = s["k"]
        if k in ("where", "dropna"):
            filtered |= step_refs(s)
        if k == "select":
            seen_new: t.Set[str] = set()
            for n, e in s["items"]:
                e = c01.tuple_(e)
                if c01.expr_refs(e) & seen_new:
                    return True  # (b)
                if n in cols and e != ("col", n):
                    seen_new.add(n)
                    if n in filtered:
                        return True  # (a)
            gone |= {x for x in cols if x not in [n for n, _ in s["items"]]}
            cols = [n for n, _ in s["items"]]
        elif k == "withColumn":
            if s["n"] in cols and s["n"] in filtered:
                return True
            if s["n"] not in cols:
                cols = cols + [s["n"]]
        elif k in ("fillna", "replace"):
            if set(s["sub"]) & filtered:
                return True
        elif k == "withColumnRenamed":
            gone.add(s["a"])
            cols = [s["b"] if x == s["a"] else x for x in cols]
        elif k == "drop":
            gone |= set(s["ns"])
            cols = [x for x in cols if x not in s["ns"]]
        elif k == "toDF":
            if any(n in cols and cols.index(n) != i for i, n in enumerate(s["names"])):
                return True
            gone |= {x for x in cols if x not in s["names"]}
            filtered = {s["names"][cols.index(x)] for x in filtered if x in cols} | filtered
            cols = list(s["names"])
        elif k == "unpivot":
            gone |= {x for x in cols if x not in s["ids"]}
            cols = s["ids"] + [s["var"], s["val"]]
    return False


def order_key_dropped(c: dict) -> bool:
    """an orderBy whose key column is later projected away / renamed / redefined"""
    keys: t.Set[str] = set()
    for s in c["steps"]:
        k = s["k"]
        if k == "orderBy":
            keys = {x["name"] for x in s["keys"]}
        elif keys:
            if k == "select" and any(n not in [m for m, e in s["items"] if c01.tuple_(e) == ("col", m)] for n in keys):
                return True
            if k == "withColumn" and s["n"] in keys:
                return True
            if k == "withColumnRenamed" and s["a"] in keys:
                return True
            if k == "drop" and set(s["ns"]) & keys:
                return True
            if k == "toDF":
                return True
            if k == "unpivot" and not keys <= set(s["ids"]):
                return True
    return False


def minimise_chain(c: dict, keep: t.Callable[[dict], bool]) -> dict:
    """drop steps while `keep` still holds (a minimal failing core: the classification looks at that, not at the
    whole program, so an unrelated failure inside a program that merely *contains* a listed shape is still reported)"""
    best = c
    for _ in range(12):
        cands = [dict(best, steps=best["steps"][:i] + best["steps"][i + 1 :]) for i in range(len(best["steps"])) if len(best["steps"]) > 1]
        cands = [x for x in cands if c01.valid(x) and not c01.has_risky_limit(x)]
        nxt = next((x for x in cands if keep(x)), None)
        if nxt is None:
            break
        best = nxt
    return best


def classify_chain(c: dict, fails: t.List[str], known: t.Dict[str, dict], depth: int = 2) -> t.List[str]:
    """[] unless every minimal failing core found in the program has a listed shape"""
    if not only_optimized(fails):
        return []
    core = minimise_chain(c, lambda x: bool(run_chain(x)["fails"]))
    cf = run_chain(core)["fails"]
    hs = classify_core(core, cf, known)
    if not hs:
        return []
    if depth > 0 and len(core["steps"]) < len(c["steps"]):
        # another failure may hide behind this core: break the core (remove one of its steps from the program) and look again
        for st in core["steps"]:
            i = next(j for j, x in enumerate(c["steps"]) if x is st or x == st)
            rest = dict(c, steps=c["steps"][:i] + c["steps"][i + 1 :])
            if not rest["steps"] or not c01.valid(rest) or c01.has_risky_limit(rest):
                continue
            rf = run_chain(rest)["fails"]
            if rf and not classify_chain(rest, rf, known, depth - 1):
                return []
    return hs


def classify_core(c: dict, fails: t.List[str], known: t.Dict[str, dict]) -> t.List[str]:
    if not only_optimized(fails):
        return []
    hs = []
    if star_filter(c) and "H_optStarFilter" in known and all("Referenced table" in f and "not found" in f for f in fails):
        hs.append("H_optStarFilter")
    if limit_then_reader(c) and "H_optKeepsLimitBarrier" in known:
        hs.append("H_optKeepsLimitBarrier")
    if lateral_alias(c) and "H_optLateralAlias" in known:
        hs.append("H_optLateralAlias")
    if order_key_dropped(c) and "H_optOrderByMerged" in known:
        hs.append("H_optOrderByMerged")
    return hs


def show_tree(tr: tuple) -> str:
    k = tr[0]
    if k == "base":
        return f"b{tr[1]}"
    if k == "wrap":
        return f"{show_tree(tr[1])}.select(k,v)"
    if k in ("agg", "distinct", "ordlimit", "respell", "window", "window2", "unaliased"):
        return f"{show_tree(tr[1])}.{k}()"
    return f"{show_tree(tr[1])}.{tr[3] if k == 'setop' else 'join[' + tr[3] + ']'}({show_tree(tr[2])})"


def c11_cols(c: dict) -> t.List[str]:
    import c11

    return c11.current_cols(c)


def run(ctx: Ctx) -> None:
    idx = vlib.props_index()[ID]
    vlib.prove(ctx, MODULES, GEN, idx["theorems"], SOURCES)
    known = {e["id"]: e for e in vlib.known_findings(ID)}

    # (d) aggregate pipelines: every route to an aggregate x every consumer the optimizer would merge it with (runs first:
    #     it forks its own workers before this process touches the engine)
    vlib.log(f"C03: proved / audited after {ctx.elapsed():.1f}s")
    agg_viol, agg_cov = c03_agg.run_family(ctx, known)
    vlib.log(f"C03: aggregate pipelines done after {ctx.elapsed():.1f}s ({agg_cov['aggregate_programs']} programs)")

    # (a) structural stream
    trees: t.List[tuple] = [
        ("base", 0),
        ("wrap", ("wrap", ("base", 0))),
        ("join", ("base", 0), ("base", 1), "inner"),
        ("join", ("wrap", ("base", 0)), ("base", 0), "left"),  # common ancestor
        ("join", ("join", ("base", 0), ("base", 1), "inner"), ("join", ("base", 0), ("base", 1), "inner"), "inner"),  # identical subtrees
        ("setop", ("base", 0), ("base", 0), "union"),
        ("setop", ("join", ("base", 0), ("base", 1), "left"), ("wrap", ("base", 0)), "exceptAll"),
    ]
    for _ in range(300 if ctx.thorough else 40):
        trees.append(gen_tree(ctx.rng, ctx.rng.choice([1, 2, 2, 3])))
    trees += [
        ("join", ("agg", ("base", 0)), ("agg", ("base", 0)), "inner"),  # two identical aggregated frames
        ("join", ("ordlimit", ("base", 1)), ("ordlimit", ("base", 1)), "left"),
        ("setop", ("distinct", ("base", 0)), ("distinct", ("base", 0)), "union"),
        ("respell", ("base", 0)),
        ("window", ("base", 0)),
        ("window2", ("base", 0)),
        ("unaliased", ("base", 1)),
        ("join", ("base", 0), ("base", 1), "left_semi"),
        ("join", ("base", 0), ("base", 1), "left_anti"),
        ("join", ("base", 0), ("base", 1), "right"),
        ("join", ("wrap", ("base", 1)), ("distinct", ("base", 0)), "left_anti"),
        ("xjoin", ("base", 0), ("agg", ("base", 1)), "cross"),
        ("xjoin", ("wrap", ("base", 0)), ("ordlimit", ("base", 1)), "cond"),
        ("xjoin", ("distinct", ("base", 0)), ("base", 1), "cond_left"),
    ]
    lean_cases = []
    for i, tr in enumerate(trees):
        nm = Namer()
        p, _ = to_prog(tr if is_structural(tr) else ("base", 0), nm)
        lean_cases.append({"case": i, "prog": p})
    impls = vlib.parallel_map(run_struct, trees)
    outs: t.List[t.Optional[dict]]
    try:
        outs = vlib.run_driver("C03", lean_cases)  # type: ignore
    except Exception as e:  # noqa  (the model no longer builds: the executed comparison still looks for a failing input)
        ctx.broken.append(f"the CTE-chain model could not be run: {type(e).__name__}: {str(e)[:300]}")
        outs = [None] * len(trees)
    struct_mismatch = []
    viol: t.List[dict] = list(agg_viol)
    hyp_fail = 0
    uncollectable = 0
    for tr, o, im in zip(trees, outs, impls):
        if o is not None and "err" in o:
            raise RuntimeError(f"driver rejected a program: {o}")
        if o is not None and not o["ok"]:
            hyp_fail += 1
        mc = canon(o["names"], o["refs"], o["open"]) if o is not None else None
        if im.get("uncollectable"):
            uncollectable += 1
            continue
        if o is not None and is_structural(tr) and (im["chain"] is None or mc != im["chain"]):
            struct_mismatch.append({"program": show_tree(tr), "tree": tr, "model": mc, "implementation": im["chain"]})
        if im["fails"]:
            kf = classify_tree(tr, im["fails"], known)
            if kf:
                for h in kf:
                    vlib.report_known(ctx, known[h], known[h]["summary"])
            else:
                viol.append({"program": show_tree(tr), "tree": tr, "failures": im["fails"], "family": "structural"})
    vlib.log(f"C03: structural stream done after {ctx.elapsed():.1f}s ({len(trees)} trees)")
    if hyp_fail:
        ctx.broken.append(f"harness bug: the synthetic names violate Prog.OK in {hyp_fail} programs")
    if struct_mismatch:
        ctx.broken.append(f"correspondence stream (CTE chain of the real statement vs Impl/C03.lean): {len(struct_mismatch)} of {len(trees)} programs differ")

    # (b) semantic stream: C01 chains under every flag combination
    chains: t.List[dict] = []
    cdir = os.path.join(vlib.VERIF, "corpus", ID)
    if os.path.isdir(cdir):
        for fn in sorted(os.listdir(cdir)):
            if fn.endswith(".json"):
                chains.append(json.load(open(os.path.join(cdir, fn))))
    for _ in range(1500 if ctx.thorough else 150):
        L = ctx.rng.randint(1, 6)
        c = c01.gen_program(ctx.rng, [ctx.rng.choice(c01.KINDS) for _ in range(L)])
        if c and c01.valid(c) and not c01.has_risky_limit(c):
            if ctx.rng.random() < 0.3:
                # end on a mixed-case spelling: the rendered text must report the user's spelling like collect()
                cols = c11_cols(c)
                if "MixedCase" not in cols:
                    c["steps"].append({"k": "withColumnRenamed", "a": ctx.rng.choice(cols), "b": "MixedCase"})
            r = ctx.rng.random()
            if r < 0.3:
                c["source"] = ctx.rng.choice(SOURCES_KINDS)
                if c["source"] == "sql_star" and not star_ok(c):
                    c["source"] = "sql_cols"
            elif r < 0.55:
                c["spell"] = True
            elif r < 0.7:
                c["catalog_seen"] = True
            chains.append(c)
    # every kind of table source followed by one step of every kind (the first step is where name resolution against
    # the catalog happens)
    for src in SOURCES_KINDS:
        for kind in c01.KINDS:
            c = c01.gen_program(ctx.rng, [kind, "select"], focus=True)
            if c and c01.valid(c) and not c01.has_risky_limit(c) and (src != "sql_star" or star_ok(c)):
                c["source"] = src
                chains.append(c)
    # focused kind tuples (every step reads or rewrites one column), as generated and with every introduced name
    # spelled in upper case: alias handling in the final block (display names, ORDER BY keys) depends on the neighbours
    for kinds in itertools.product(c01.KINDS, repeat=3 if ctx.thorough else 2):
        for spell in (False, True, True):
            c = c01.gen_program(ctx.rng, kinds, focus=True)
            if c and c01.valid(c) and not c01.has_risky_limit(c):
                if spell:
                    c["spell"] = True
                chains.append(c)
    cres = vlib.parallel_map(run_chain, chains)
    vlib.log(f"C03: chains executed after {ctx.elapsed():.1f}s ({len(chains)} chains)")
    # (c) the unoptimized statement, block by block, against the model's chain of frozen CTEs (C03_text_eval is about that chain)
    try:
        mouts = vlib.run_driver("C01", [c01.case_to_lean(i, c) for i, c in enumerate(chains)])
    except Exception as e:  # noqa
        ctx.broken.append(f"the DataFrame model could not be run: {type(e).__name__}: {str(e)[:300]}")
        mouts = [{} for _ in chains]
    shape_bad = []
    shape_ok = 0
    for c, r, o in zip(chains, cres, mouts):
        if r.get("shape") is None or "shape" not in o:
            continue
        ms = c01.norm_shape(o["shape"])
        rs = c01.norm_shape(r["shape"])
        if c.get("spell") and isinstance(rs, list):
            # the statement writes introduced names as the user spelled them (upper case here); the model has one spelling
            for sh in (ms, rs):
                for blk in sh:
                    if isinstance(blk, dict) and blk.get("kind") == "block":
                        blk["sel"] = [str(n).lower() for n in blk["sel"]]
                        blk["order"] = [[str(k[0]).lower(), k[1]] for k in blk["order"]]
        if rs != ms:
            shape_bad.append({"program": c01.show_case(c), "statement": r["shape"], "model": o["shape"]})
        else:
            shape_ok += 1
    if shape_bad:
        ctx.broken.append(f"correspondence stream (CTE chain of the real unoptimized statement vs the model's frozen blocks DF.hist): {len(shape_bad)} of {shape_ok + len(shape_bad)} chains differ, e.g. {json.dumps(shape_bad[0])[:700]}")
    for c, r in zip(chains, cres):
        if r["fails"]:
            kf = classify_chain(c, r["fails"], known)
            if kf:
                for h in kf:
                    vlib.report_known(ctx, known[h], known[h]["summary"])
            else:
                viol.append({"program": c01.show_case(c), "case": c, "failures": r["fails"], "family": "chain"})

    vlib.log(f"C03: chains classified after {ctx.elapsed():.1f}s")

    def tup(x):
        return tuple(tup(y) if isinstance(y, list) else y for y in x)

    for h, e in known.items():
        w = e.get("witness") or {}
        if w.get("case"):
            r = run_chain(w["case"])
        elif w.get("agg_case"):
            r = c03_agg.run_case(w["agg_case"])
        elif w.get("tree"):
            r = run_struct(tup(w["tree"]))
        else:
            continue
        if r["fails"]:
            vlib.report_known(ctx, e, e["summary"])

    reported = 0
    for v in viol[:3]:
        if v["family"] == "aggregate":
            v = c03_agg.shrink_violation(v, known)
        if v["family"] == "chain":
            c = c01.shrink.__wrapped__(v["case"]) if hasattr(c01.shrink, "__wrapped__") else v["case"]
            # local shrink: drop steps / rows while it still fails
            best = c
            for _ in range(8):
                cands = [dict(best, steps=best["steps"][:i] + best["steps"][i + 1 :]) for i in range(len(best["steps"])) if len(best["steps"]) > 1]
                cands += [dict(best, rows=best["rows"][:i] + best["rows"][i + 1 :]) for i in range(len(best["rows"]))]
                cands = [x for x in cands if c01.valid(x) and not c01.has_risky_limit(x)]
                nxt = next((x for x in cands if run_chain(x)["fails"] and not classify_chain(x, run_chain(x)["fails"], known)), None)
                if nxt is None:
                    break
                best = nxt
            v = dict(v, case=best, program=c01.show_case(best), failures=run_chain(best)["fails"])
        vlib.report_violation(ctx, dict(v, kind="a rendering of df.sql() fails, is not self-contained, or does not return collect()'s result", broken=ctx.broken))
        reported += 1
    if ctx.broken and not reported:
        vlib.report_violation(ctx, {"kind": "proof obligation or correspondence no longer checks; no failing input found", "broken": ctx.broken, "searched": {"trees": len(trees), "chains": len(chains)}, "first_model_mismatch": struct_mismatch[:1], "statement_shape_mismatches": shape_bad[:3]}, no_input=True)

    ctx.cov.update(
        {
            "evaluations": (len(trees) + len(chains) + agg_cov["aggregate_programs"]) * len(FLAGS),
            "distinct_nontrivial": len({json.dumps(t_) for t_ in trees if t_[0] != "base"}) + len({vlib.digest([c["steps"], c["rows"]]) for c in chains if c["steps"]}),
            "rule": "structural programs = random trees (depth <= 3) of select-wraps / joins / set operations over two base DataFrames (shared subtrees give common ancestors and clashing CTE names); "
            "semantic programs = random C01 chains; each rendered under all 8 (optimize, quote_identifiers, pretty) combinations, parsed back, checked closed/unique, executed and compared with collect(); "
            "evaluations = program x flag renderings; non-trivial = distinct non-leaf trees + distinct non-empty chains",
            "programs": len(trees) + len(chains),
            "structural_programs": len(trees),
            "traces_validated_against_impl": len(trees) - len(struct_mismatch),
            "chain_programs": len(chains),
            "statement_shapes_validated_against_impl": shape_ok,
            "uncollectable_programs_skipped": uncollectable,
            "engine_optimizer_artefacts": sum(r.get("engine_artefacts", 0) for r in impls) + sum(r.get("engine_artefacts", 0) for r in cres) + agg_cov.get("aggregate_engine_artefacts", 0),
            "renderings_failing": sum(len(v["failures"]) for v in viol),
            "optimizer_known_findings": len(ctx.known_hits),
            "samples": [show_tree(trees[i]) for i in (3, 4, 6)] + [c01.show_case(chains[0])[:300] if chains else ""],
        }
    )
    ctx.cov.update(agg_cov)
    ctx.assumptions += [
        "optimize=True: sqlglot's optimizer is third party; equivalence of its output is validated per program by execution on DuckDB, not proved",
        "the CRC content hash is injective on the CTE bodies of one statement (checked on every generated statement: names unique)",
        "sqlglot parses back the text it rendered (used to extract the CTE chain)",
        "DuckDB with `PRAGMA disable_optimizer` is the reference engine: when a text and collect() return different rows but agree with the engine's optimizer disabled, the difference is the engine's (DuckDB 1.2.2: `x = y AND x > y AND y < 3` returns the row (1, 1)); such renderings are counted as engine_optimizer_artefacts, not reported",
    ]


def replay(ctx: Ctx, rp: dict) -> None:
    if rp.get("case"):
        r = run_chain(rp["case"])
        print(json.dumps({"program": c01.show_case(rp["case"]), "failures": r["fails"]}, indent=1))
    elif rp.get("agg_case"):
        r = c03_agg.run_case(rp["agg_case"])
        print(json.dumps({"program": c03_agg.show(rp["agg_case"]), "failures": r["fails"]}, indent=1))
    elif rp.get("tree"):
        tr = json.loads(json.dumps(rp["tree"]))

        def tup(x):
            return tuple(tup(y) if isinstance(y, list) else y for y in x)

        r = run_struct(tup(tr))
        print(json.dumps({"program": show_tree(tup(tr)), "failures": r["fails"]}, indent=1))
    else:
        print("replay names a broken obligation, not an input:", rp.get("broken"))
        return
    if r["fails"]:
        vlib.report_violation(ctx, dict(rp, failures=r["fails"]))
