#!/venv/bin/python
"""
c16_trace.py — the DYNAMIC part of the C16 translator (runs the real code; kept apart from
tools/translate.py, which never imports sqlframe).

For every function exported by every engine's `sqlframe.<engine>.functions`, under that engine's
REAL session class (stub driver modules in sys.modules + a fake DB-API connection for engines whose
drivers are not installed), the function is called with a tracing `str` subclass in each argument
position that PySpark 3.5.9 treats as a column name (tools/oracle/pyspark_colname_positions.json).
Wrappers around the coercion entry points of sqlframe/base/column.py and base/functions.py record
which coercion the string meets:

    ensureCol  Column.ensure_col / functions.col        (str -> column reference)
    literal    Column._lit / functions.lit / a Python operator with a Column (binary_op, inverse_binary_op)
    parsed     Column(<str>)                            (sqlglot.maybe_parse of the string)
    text       the call succeeds but the string meets no coercion at all: it is consumed as plain Python
               text (a format string); such parameters read a Column's `.expression.this` as text too
    none       the call raised although the col(name) form works

The result tree is inspected as a cross-check (a string literal carrying the tracer's text overrides
an `ensureCol` classification: an untracked path turned the name into a literal).

Output: lean/SqlframeModel/Gen/Functions.lean (namespace Sqlframe.Gen): the static decisions of
tools/gen_c16.py (`ast`) followed by the table `cells : List Cell`.

Usage:  c16_trace.py [--repo /repo] [--out <Gen dir>] [--json file]
Library: install_stubs(), make_session(engine), functions_module(engine), cells_for(engine), build_call(...)
"""
from __future__ import annotations

import contextlib
import importlib
import inspect
import json
import os
import re
import sys
import types
import typing as t
import warnings

HERE = os.path.dirname(os.path.abspath(__file__))
TOOLS = os.path.dirname(HERE)
VERIF = os.path.dirname(TOOLS)
REPO = os.environ.get("VERIF_REPO", "/repo")
ORACLE = os.path.join(TOOLS, "oracle", "pyspark_colname_positions.json")
ENGINES = ["standalone", "spark", "databricks", "duckdb", "postgres", "bigquery", "snowflake", "redshift"]

TRACER_TEXT = "zq_tracer"  # a plain identifier: every coercion accepts it

# ------------------------------------------------------------------------------------------------
# engine sessions without drivers
# ------------------------------------------------------------------------------------------------


class _Anything:
    """attribute/callable sink used where a driver object is only stored, never used"""

    def __init__(self, **kw):
        self.__dict__.update(kw)

    def __getattr__(self, name):
        if name.startswith("__"):
            raise AttributeError(name)
        v = _Anything()
        self.__dict__[name] = v
        return v

    def __call__(self, *a, **k):
        return _Anything()

    def __bool__(self):
        return True

    def __iter__(self):
        return iter(())


class FakeConn(_Anything):
    """fake DB-API connection: enough for every session __init__ in sqlframe/<engine>/session.py"""

    def __init__(self):
        super().__init__(converter=None, _numpy=False, _support_negative_year=False)

    def cursor(self):
        return _Anything()


def _stub(name: str, **attrs: t.Any) -> types.ModuleType:
    parts = name.split(".")
    for i in range(1, len(parts) + 1):
        n = ".".join(parts[:i])
        if n not in sys.modules:
            m = types.ModuleType(n)
            m.__path__ = []  # type: ignore
            m.__verif_stub__ = True  # type: ignore
            sys.modules[n] = m
            if i > 1:
                setattr(sys.modules[".".join(parts[: i - 1])], parts[i - 1], m)
    m = sys.modules[name]
    for k, v in attrs.items():
        if not hasattr(m, k):
            setattr(m, k, v)
    return m


_STUBS_DONE = False


def install_stubs(repo: t.Optional[str] = None) -> None:
    """stub driver modules that are not installed; put the repo first on sys.path"""
    global _STUBS_DONE
    repo = repo or REPO
    if repo not in sys.path:
        sys.path.insert(0, repo)
    if _STUBS_DONE:
        return

    def missing(mod: str) -> bool:
        try:
            return importlib.util.find_spec(mod) is None  # type: ignore
        except (ImportError, ValueError, AttributeError):
            return True

    import importlib.util  # noqa

    if missing("psycopg2"):
        _stub("psycopg2", ProgrammingError=Exception)
        _stub("psycopg2.extensions", connection=object)
    if missing("redshift_connector"):
        _stub("redshift_connector")
        _stub("redshift_connector.core", Connection=object)
    if missing("snowflake"):
        _stub("snowflake")
        _stub("snowflake.connector", SnowflakeConnection=object)
        _stub("snowflake.connector.cursor")
        _stub("snowflake.connector.converter", SnowflakeConverter=object)
    if missing("google.cloud.bigquery"):
        _stub("google")
        _stub("google.cloud")
        _stub("google.cloud.bigquery", QueryJobConfig=_Anything)
        _stub("google.cloud.bigquery.dbapi", connect=lambda *a, **k: FakeConn())
    if missing("databricks.sql"):
        _stub("databricks")
        _stub("databricks.sql", connect=lambda *a, **k: FakeConn(), ServerOperationError=Exception)
        _stub("databricks.sql.client", Connection=object)
    _STUBS_DONE = True


def make_session(engine: str) -> t.Any:
    """a fresh session of the engine's real session class (the class is a process-wide singleton: reset it)"""
    install_stubs()
    from sqlframe.base.session import _BaseSession

    _BaseSession._instance = None  # type: ignore
    mod = importlib.import_module(f"sqlframe.{engine}.session")
    classes = [
        v
        for v in vars(mod).values()
        if isinstance(v, type) and issubclass(v, _BaseSession) and v is not _BaseSession and v.__module__ == mod.__name__
    ]
    if len(classes) != 1:
        raise RuntimeError(f"{engine}: expected one session class, found {classes}")
    cls = classes[0]
    with warnings.catch_warnings():
        warnings.simplefilter("ignore")
        if engine == "standalone":
            return cls()
        if engine == "duckdb":
            import duckdb

            return cls(conn=duckdb.connect(":memory:"))
        if engine == "spark":
            return cls(conn=_Anything())
        return cls(conn=FakeConn())


def functions_module(engine: str) -> types.ModuleType:
    install_stubs()
    return importlib.import_module(f"sqlframe.{engine}.functions")


def exported(engine: str) -> t.Dict[str, t.Callable]:
    """public callables an engine's functions module offers (what `from sqlframe.<e>.functions import *` gives)"""
    F = functions_module(engine)
    out = {}
    for name in dir(F):
        if name.startswith("_"):
            continue
        f = getattr(F, name)
        if inspect.isfunction(f) and hasattr(f, "unsupported_engines"):
            out[name] = f
    return out


# ------------------------------------------------------------------------------------------------
# the tracer
# ------------------------------------------------------------------------------------------------


class TraceStr(str):
    """the traced column name; identity (`is`) is what the wrappers look for"""

    __slots__ = ()


class Recorder:
    def __init__(self) -> None:
        self.events: t.List[str] = []
        self.depth = 0
        self.active = False

    def hit(self, kind: str, value: t.Any) -> bool:
        if self.active and self.depth == 0 and isinstance(value, TraceStr):
            self.events.append(kind)
            return True
        return False


REC = Recorder()
_INSTALLED = False


def install_tracer() -> None:
    """wrap the coercion entry points (idempotent)"""
    global _INSTALLED
    if _INSTALLED:
        return
    install_stubs()
    from sqlframe.base import functions as BF
    from sqlframe.base.column import Column

    @contextlib.contextmanager
    def inside(hit: bool):
        if hit:
            REC.depth += 1
        try:
            yield
        finally:
            if hit:
                REC.depth -= 1

    orig_ensure = Column.ensure_col.__func__  # type: ignore
    orig_lit_cls = Column._lit.__func__  # type: ignore
    orig_init = Column.__init__
    orig_binary = Column.binary_op
    orig_inverse = Column.inverse_binary_op

    def ensure_col(cls, value):  # type: ignore
        with inside(REC.hit("ensureCol", value)):
            return orig_ensure(cls, value)

    def _lit(cls, value):  # type: ignore
        with inside(REC.hit("literal", value)):
            return orig_lit_cls(cls, value)

    def __init__(self, expression):  # type: ignore
        with inside(REC.hit("parsed", expression)):
            return orig_init(self, expression)

    def binary_op(self, klass, other, paren=False, **kwargs):  # type: ignore
        with inside(REC.hit("literal", other)):
            return orig_binary(self, klass, other, paren=paren, **kwargs)

    def inverse_binary_op(self, klass, other, paren=False, **kwargs):  # type: ignore
        with inside(REC.hit("literal", other)):
            return orig_inverse(self, klass, other, paren=paren, **kwargs)

    Column.ensure_col = classmethod(ensure_col)  # type: ignore
    Column._lit = classmethod(_lit)  # type: ignore
    Column.__init__ = __init__  # type: ignore
    Column.binary_op = binary_op  # type: ignore
    Column.inverse_binary_op = inverse_binary_op  # type: ignore

    orig_col = BF.col
    orig_lit = BF.lit

    import functools

    @functools.wraps(orig_col)
    def col(column_name):  # type: ignore
        with inside(REC.hit("ensureCol", column_name)):
            return orig_col(column_name)

    @functools.wraps(orig_lit)
    def lit(value=None):  # type: ignore
        with inside(REC.hit("literal", value)):
            return orig_lit(value)

    col.unsupported_engines = orig_col.unsupported_engines  # type: ignore
    lit.unsupported_engines = orig_lit.unsupported_engines  # type: ignore
    mods = [BF] + [functions_module(e) for e in ENGINES]
    for m in mods:
        if getattr(m, "col", None) is orig_col:
            m.col = col  # type: ignore
        if getattr(m, "lit", None) is orig_lit:
            m.lit = lit  # type: ignore
    _INSTALLED = True


def tree_outcome(result: t.Any, text: str) -> str:
    """what became of the tracer's text in the resulting expression: column / literal / both / absent / nocolumn"""
    from sqlglot import exp

    from sqlframe.base.column import Column

    items = result if isinstance(result, (list, tuple)) else [result]
    col = lit = False
    seen = False
    for r in items:
        if not isinstance(r, Column):
            continue
        seen = True
        for node in r.expression.walk():
            if isinstance(node, exp.Literal) and node.is_string and text in str(node.this):
                lit = True
            elif isinstance(node, exp.Identifier) and str(node.this).lower() == text.lower() and isinstance(node.parent, (exp.Column, exp.Dot)):
                col = True
    if not seen:
        return "nocolumn"
    return "both" if (col and lit) else "column" if col else "literal" if lit else "absent"


def classify(events: t.List[str], outcome: str, raised: t.Optional[str]) -> str:
    if raised is not None:
        return "none"
    kinds = set(events)
    if not kinds:
        return "text"  # used as a plain Python string (or dropped): no coercion met
    if "literal" in kinds or outcome in ("literal", "both"):
        return "literal"
    if "parsed" in kinds:
        return "parsed"
    return "ensureCol"


# ------------------------------------------------------------------------------------------------
# typed dummy arguments
# ------------------------------------------------------------------------------------------------

# per-function dummy values for parameters the annotation-based default cannot serve (by parameter name)
OVERRIDES: t.Dict[str, t.Dict[str, t.Any]] = {
    "from_json": {"schema": "a INT", "options": None},
    "from_csv": {"schema": "a INT", "options": None},
    "schema_of_json": {"options": None},
    "schema_of_csv": {"options": None},
    "to_json": {"options": None},
    "to_csv": {"options": None},
    "from_xml": {"schema": "a INT", "options": None},
    "schema_of_xml": {"options": None},
    "to_xml": {"options": None},
    "window": {"windowDuration": "10 minutes", "slideDuration": "5 minutes", "startTime": "1 minutes"},
    "session_window": {"gapDuration": "10 minutes"},
    "date_trunc": {"format": "month"},
    "trunc": {"format": "month"},
    "conv": {"fromBase": 10, "toBase": 2},
    "regexp_replace": {"pattern": "a", "replacement": "b"},
    "regexp_extract": {"pattern": "(a)", "idx": 1},
    "to_utc_timestamp": {"tz": "UTC"},
    "from_utc_timestamp": {"tz": "UTC"},
    "extract": {"field": "__LIT_year"},
    "date_part": {"field": "__LIT_year"},
    "datepart": {"field": "__LIT_year"},
    "percentile_approx": {"percentage": 0.5, "accuracy": 100},
    "approx_percentile": {"percentage": 0.5, "accuracy": 100},
    "percentile": {"percentage": 0.5, "frequency": 1},
    "round": {"scale": 1},
    "bround": {"scale": 1},
    "sha2": {"numBits": 256},
    "ntile": {"n": 2},
    "overlay": {"pos": 2, "len": 1},
    "slice": {"start": 1, "length": 2},
    "substring": {"pos": 1, "len": 2},
    "lpad": {"len": 3, "pad": "x"},
    "rpad": {"len": 3, "pad": "x"},
    "sequence": {},
    "array_join": {"delimiter": ",", "null_replacement": "n"},
    "array_insert": {"pos": 1},
    "array_repeat": {"count": 2},
    "months_between": {"roundOff": True},
    "next_day": {"dayOfWeek": "Mon"},
    "levenshtein": {"threshold": 2},
    "format_number": {"d": 2},
    "format_string": {"format": "%s"},
    "printf": {},
    "split": {"pattern": ",", "limit": 2},
    "substring_index": {"delim": ".", "count": 1},
    "translate": {"matching": "a", "replace": "b"},
    "repeat": {"n": 2},
    "shiftleft": {"numBits": 1},
    "shiftright": {"numBits": 1},
    "shiftLeft": {"numBits": 1},
    "shiftRight": {"numBits": 1},
    "shiftrightunsigned": {"numBits": 1},
    "shiftRightUnsigned": {"numBits": 1},
    "lag": {"offset": 1},
    "lead": {"offset": 1},
    "nth_value": {"offset": 1, "ignoreNulls": True},
    "first": {"ignorenulls": True},
    "last": {"ignorenulls": True},
    "first_value": {},
    "last_value": {},
    "any_value": {},
    "approx_count_distinct": {"rsd": 0.05},
    "approxCountDistinct": {"rsd": 0.05},
    "rand": {"seed": 1},
    "randn": {"seed": 1},
    "instr": {"substr": "a"},
    "locate": {"substr": "a", "pos": 1},
    "encode": {"charset": "UTF-8"},
    "decode": {"charset": "UTF-8"},
    "get_json_object": {"path": "$.a"},
    "json_tuple": {},
    "date_format": {"format": "yyyy-MM-dd"},
    "to_date": {"format": "yyyy-MM-dd"},
    "to_timestamp": {"format": "yyyy-MM-dd HH:mm:ss"},
    "unix_timestamp": {"format": "yyyy-MM-dd HH:mm:ss"},
    "from_unixtime": {"format": "yyyy-MM-dd HH:mm:ss"},
    "make_interval": {},
    "sort_array": {"asc": True},
    "array_sort": {"comparator": None},
    "broadcast": {},
    "call_function": {"funcName": "f"},
    "call_udf": {"udfName": "f"},
    "when": {"value": 1},
    "expr": {"str": "a + 1"},
    "typeof": {},
    "mask": {},
    "like": {},
    "array_position": {"value": 1},
    "array_remove": {"element": 1},
    "map_contains_key": {"value": 1},
    "array_contains": {"value": 1},
    "bucket": {"numBuckets": 4},
    "log": {"arg1": 2.0},
    "ilike": {},
}


def _lambda_for(name: str) -> t.Callable:
    two = {"zip_with", "aggregate", "reduce", "map_filter", "transform_keys", "transform_values", "map_zip_with"}
    if name in ("map_zip_with",):
        return lambda k, v1, v2: v1
    if name in ("zip_with", "map_filter", "transform_keys", "transform_values"):
        return lambda x, y: x
    if name in ("aggregate", "reduce"):
        return lambda acc, x: acc
    return lambda x: x


def dummy_for(F: types.ModuleType, fname: str, p: inspect.Parameter, k: int) -> t.Any:
    ov = OVERRIDES.get(fname, {})
    if p.name in ov:
        v = ov[p.name]
        if isinstance(v, str) and v.startswith("__LIT_"):
            return F.lit(v[6:])
        return v
    ann = p.annotation if isinstance(p.annotation, str) else (p.annotation.__name__ if isinstance(p.annotation, type) else str(p.annotation))
    if p.annotation is inspect.Parameter.empty:
        ann = ""
    a = ann.replace("t.", "").replace("typing.", "")
    if "Callable" in a:
        if fname in ("aggregate", "reduce") and p.name == "finish":
            return lambda x: x
        return _lambda_for(fname)
    if "ColumnOrName" in a or "ColumnOrLiteral" in a or a in ("Column", "Optional[Column]", "Any", "Optional[Any]"):
        return F.col(f"d{k}")
    if "DataType" in a or "StructType" in a or "ArrayType" in a:
        return "a INT"
    if a.startswith("Optional[") and p.default is None:
        inner = a[len("Optional[") : -1]
        return dummy_for(F, fname, p.replace(annotation=inner), k)
    if "bool" in a:
        return True
    if "int" in a:
        return 2
    if "float" in a:
        return 0.5
    if "str" in a:
        return "s"
    if "Dict" in a or "dict" in a:
        return None
    if p.default is not inspect.Parameter.empty:
        return p.default
    return F.col(f"d{k}")


Cell = t.Dict[str, t.Any]


def target_param(sig: inspect.Signature, pp: t.Dict[str, t.Any]) -> t.Optional[inspect.Parameter]:
    """sqlframe's parameter corresponding to PySpark's parameter `pp` (same name, else same index / the vararg)"""
    params = list(sig.parameters.values())
    if pp["kind"] == "vararg":
        for p in params:
            if p.kind is inspect.Parameter.VAR_POSITIONAL:
                return p
        # sqlframe takes a fixed list where PySpark takes *cols: use the parameter at that index
        pos = [p for p in params if p.kind in (inspect.Parameter.POSITIONAL_ONLY, inspect.Parameter.POSITIONAL_OR_KEYWORD)]
        return pos[pp["index"]] if pp["index"] < len(pos) else None
    if pp["kind"] == "kwonly":
        return sig.parameters.get(pp["name"])
    pos = [p for p in params if p.kind in (inspect.Parameter.POSITIONAL_ONLY, inspect.Parameter.POSITIONAL_OR_KEYWORD)]
    if pp["index"] < len(pos):
        return pos[pp["index"]]
    for p in params:
        if p.kind is inspect.Parameter.VAR_POSITIONAL:
            return p  # PySpark names a positional that sqlframe folds into *cols
    return None


VARIANTS_BASE = ("min", "full")
# what the OTHER arguments are, beyond the typed dummy values of min/full (PySpark documents each kind):
#   names  every other ColumnOrName position is given by name ('d<k>')
#   cols   every other ColumnOrName position is given as a Column (also where the typed dummy is an int)
#   nums   every other position that PySpark annotates `Union[ColumnOrName, int|float]` is given as a Python number
#   drop:<p>  every parameter except the optional parameter <p> (explicitly left at its default, e.g. None)
VARIANTS_OTHER = ("names", "cols", "nums")


def py_param_of(fname: str, sig: inspect.Signature, p: inspect.Parameter, positions: t.Dict[str, t.Any]) -> t.Optional[dict]:
    """PySpark's parameter corresponding to sqlframe's parameter `p` (same name, else same index)"""
    pps = positions.get(fname, {}).get("params", [])
    for pp in pps:
        if pp["name"] == p.name:
            return pp
    params = [q for q in sig.parameters.values() if q.kind in (inspect.Parameter.POSITIONAL_ONLY, inspect.Parameter.POSITIONAL_OR_KEYWORD)]
    if p in params:
        i = params.index(p)
        for pp in pps:
            if pp["kind"] == "pos" and pp["index"] == i:
                return pp
    if p.kind is inspect.Parameter.VAR_POSITIONAL:
        for pp in pps:
            if pp["kind"] == "vararg":
                return pp
    return None


def _is_colname(pp: t.Optional[dict]) -> bool:
    return bool(pp and pp.get("colname") and pp.get("jvm") != "literal")


def other_value(F: types.ModuleType, fname: str, p: inspect.Parameter, i: int, variant: str, pp: t.Optional[dict]) -> t.Any:
    """the value of a non-target parameter under an argument variant"""
    base = dummy_for(F, fname, p, i)
    if variant in ("min", "full") or variant.startswith("drop:") or not _is_colname(pp):
        return base
    ann = pp["annotation"] if pp else ""
    if variant == "names":
        return f"d{i}"
    if variant == "cols":
        return F.col(f"d{i}")
    if variant == "nums":
        if re.search(r"\bint\b", ann):
            return base if (isinstance(base, int) and not isinstance(base, bool)) else 2
        if re.search(r"\bfloat\b", ann):
            return base if isinstance(base, float) else 0.5
    return base


def _sibling(F: types.ModuleType, k: int, variant: str) -> t.Any:
    """another element of the same *cols"""
    return f"d{k}" if variant == "names" else F.col(f"d{k}")


def build_call(
    F: types.ModuleType, fname: str, sig: inspect.Signature, tgt: inspect.Parameter, sub: int, value: t.Any, variant: str,
    positions: t.Optional[t.Dict[str, t.Any]] = None,
) -> t.Tuple[list, dict]:
    """arguments for f with `value` at the target position; other arguments are typed dummies.
    variant 'min': only what is required (+ everything positional before the target); 'full': every parameter;
    'names' / 'cols' / 'nums' / 'drop:<p>': as 'full' with the other arguments varied (see VARIANTS_OTHER).
    For a *cols target, `sub` says where the value goes: 0 first element, 1 a later element, 2 / 3 the same inside ONE
    list argument (PySpark: `f([a, b])` is `f(a, b)` where the annotation allows a list)."""
    positions = positions if positions is not None else load_positions()
    args: list = []
    kwargs: dict = {}
    params = list(sig.parameters.values())
    ti = params.index(tgt)
    dropped = variant[5:] if variant.startswith("drop:") else None
    everything = variant != "min"
    pp_t = py_param_of(fname, sig, tgt, positions)
    vararg_view = tgt.kind is inspect.Parameter.VAR_POSITIONAL and bool(pp_t) and pp_t["kind"] == "vararg"
    for i, p in enumerate(params):
        if p.kind is inspect.Parameter.VAR_KEYWORD:
            continue
        if p.kind is inspect.Parameter.VAR_POSITIONAL:
            if p is tgt:
                lsub = sub % 2
                elems = [_sibling(F, 90, variant), _sibling(F, 91, variant)] if lsub > 0 or everything else [_sibling(F, 90, variant)]
                elems[min(lsub, len(elems) - 1)] = value
                if vararg_view:
                    # PySpark's view of the call: the elements of *cols start at PySpark's index of the vararg; sqlframe's
                    # fixed parameters from there on (e.g. struct(col, *cols)) are elements of it
                    first = pp_t["index"] or 0
                    del args[first:]
                if sub >= 2:
                    args.append(list(elems))
                else:
                    args.extend(elems)
            elif everything or fname in VARARG_REQUIRED:
                if "ColumnOrName" in str(p.annotation) or "Column" in str(p.annotation) or p.annotation is inspect.Parameter.empty:
                    args.extend([_sibling(F, 92, variant), _sibling(F, 93, variant)])
                elif "str" in str(p.annotation):
                    args.extend(["s1", "s2"])
                else:
                    args.extend([1, 2])
            continue
        if p is tgt:
            v = value
        elif p.name == dropped:
            continue
        elif p.default is inspect.Parameter.empty or everything or (i < ti and p.kind is not inspect.Parameter.KEYWORD_ONLY):
            v = other_value(F, fname, p, i, variant, py_param_of(fname, sig, p, positions))
        else:
            continue
        if p.kind is inspect.Parameter.KEYWORD_ONLY or (i > ti and p.kind is inspect.Parameter.POSITIONAL_OR_KEYWORD and not any(q.kind is inspect.Parameter.VAR_POSITIONAL for q in params[: i + 1])):
            kwargs[p.name] = v
        elif dropped is not None and any(q.name == dropped for q in params[:i]) and p.kind is inspect.Parameter.POSITIONAL_OR_KEYWORD and not any(q.kind is inspect.Parameter.VAR_POSITIONAL for q in params):
            kwargs[p.name] = v  # a positional parameter after the dropped one
        else:
            args.append(v)
    return args, kwargs


def _arg_key(x: t.Any) -> str:
    if callable(x) and not isinstance(x, type):
        return "<fn>"
    if isinstance(x, (list, tuple)):
        return "[" + ",".join(_arg_key(y) for y in x) + "]"
    return f"{type(x).__name__}:{x!r}"


_VARIANTS_CACHE: t.Dict[t.Tuple, t.List[str]] = {}


def variants_for(F: types.ModuleType, cell: t.Dict[str, t.Any], positions: t.Optional[t.Dict[str, t.Any]] = None) -> t.List[str]:
    """the argument variants of a cell that give DIFFERENT calls (duplicates of an earlier variant are dropped)"""
    key = (F.__name__, cell["f"], cell["tgt"], cell["sub"])
    if key in _VARIANTS_CACHE:
        return _VARIANTS_CACHE[key]
    positions = positions if positions is not None else load_positions()
    f = getattr(F, cell["f"])
    sig = inspect.signature(f)
    tgt = sig.parameters[cell["tgt"]]
    names = list(VARIANTS_BASE) + list(VARIANTS_OTHER)
    optional = [p.name for p in sig.parameters.values() if p is not tgt and p.default is not inspect.Parameter.empty and p.kind in (inspect.Parameter.POSITIONAL_OR_KEYWORD, inspect.Parameter.KEYWORD_ONLY)]
    if len(optional) >= 2 and not any(p.kind is inspect.Parameter.VAR_POSITIONAL for p in sig.parameters.values()):
        names += [f"drop:{n}" for n in optional]
    out, seen = [], set()
    for v in names:
        try:
            a, k = build_call(F, cell["f"], sig, tgt, cell["sub"], "<target>", v, positions)
        except Exception:  # noqa
            continue
        sig_key = _arg_key(a) + "|" + ",".join(f"{n}={_arg_key(x)}" for n, x in sorted(k.items()))
        if sig_key in seen:
            continue
        seen.add(sig_key)
        out.append(v)
    _VARIANTS_CACHE[key] = out
    return out


VARARG_REQUIRED = {"greatest", "least", "coalesce", "concat", "concat_ws", "array", "struct", "create_map", "map_concat", "hash", "xxhash64", "named_struct", "json_tuple", "stack", "format_string", "printf", "elt", "arrays_zip", "array_union", "count_distinct", "countDistinct", "grouping_id", "call_function", "call_udf", "java_method", "reflect", "try_reflect"}


_POSITIONS: t.Optional[t.Dict[str, t.Any]] = None


def load_positions() -> t.Dict[str, t.Any]:
    global _POSITIONS
    if _POSITIONS is None:
        _POSITIONS = json.load(open(ORACLE))["functions"]
    return _POSITIONS


def accepts_list(pp: t.Dict[str, t.Any]) -> bool:
    """PySpark documents `f([a, b])` for this *cols (annotation `Union[ColumnOrName, List[ColumnOrName], ...]`)"""
    return pp.get("kind") == "vararg" and "List[" in (pp.get("annotation") or "")


def cells_for(engine: str, positions: t.Optional[t.Dict[str, t.Any]] = None) -> t.List[Cell]:
    """the finite part of the quantifier for one engine: (function, position[, sub-position of a vararg])"""
    positions = positions or load_positions()
    out: t.List[Cell] = []
    for fname, f in sorted(exported(engine).items()):
        if fname not in positions:
            continue
        try:
            sig = inspect.signature(f)
        except (TypeError, ValueError):
            continue
        for pp in positions[fname]["params"]:
            if not pp["colname"] or pp.get("jvm") == "literal":
                continue  # not a column-name position (for `literal`: PySpark itself makes a literal of a str there)
            tgt = target_param(sig, pp)
            if tgt is None:
                out.append({"f": fname, "e": engine, "pos": pp["index"] if pp["index"] is not None else 99, "sub": 0, "pname": pp["name"], "tgt": None})
                continue
            subs = [0, 1] if tgt.kind is inspect.Parameter.VAR_POSITIONAL and pp["kind"] == "vararg" else [0]
            if subs == [0, 1] and accepts_list(pp):
                subs = [0, 1, 2, 3]  # 2 / 3: the same two places inside ONE list argument
            for sub in subs:
                out.append({"f": fname, "e": engine, "pos": pp["index"] if pp["index"] is not None else 99, "sub": sub, "pname": pp["name"], "tgt": tgt.name})
    return out


def call_cell(F: types.ModuleType, cell: Cell, value: t.Any, variant: str) -> t.Any:
    f = getattr(F, cell["f"])
    sig = inspect.signature(f)
    tgt = sig.parameters[cell["tgt"]]
    args, kwargs = build_call(F, cell["f"], sig, tgt, cell["sub"], value, variant)
    return f(*args, **kwargs)


def reference_cell(cell: Cell) -> Cell:
    """the call whose Column form is the reference: for a list form (`sub` 2 / 3) PySpark's meaning is the varargs call"""
    return dict(cell, sub=cell["sub"] - 2) if cell["sub"] >= 2 else cell


def trace_cell(F: types.ModuleType, cell: Cell) -> t.Dict[str, t.Any]:
    """coercion met by a traced name in this cell, worst over the argument variants.
    A variant whose call fails even with `col(name)` in that position says nothing about the string and is
    skipped; a cell with no usable variant is reported as `unevaluable` (kept out of the Lean table).
    For a list form the reference is the varargs call with `col(name)`."""
    if cell["tgt"] is None:
        return {"coercion": "none", "detail": "sqlframe's signature has no parameter at this position"}
    order = ["none", "text", "literal", "parsed", "ensureCol"]  # worst first
    worst = None
    details = []
    ref = reference_cell(cell)
    for variant in variants_for(F, cell):
        try:
            with warnings.catch_warnings():
                warnings.simplefilter("ignore")
                call_cell(F, ref, F.col(TRACER_TEXT), variant)
        except Exception as e:  # noqa
            details.append({"variant": variant, "skipped": f"the Column form fails too: {type(e).__name__}: {str(e)[:100]}"})
            continue
        tr = TraceStr(TRACER_TEXT)
        REC.events = []
        REC.depth = 0
        REC.active = True
        raised = None
        outcome = "absent"
        try:
            with warnings.catch_warnings():
                warnings.simplefilter("ignore")
                res = call_cell(F, cell, tr, variant)
            outcome = tree_outcome(res, TRACER_TEXT)
        except Exception as e:  # noqa
            raised = f"{type(e).__name__}: {str(e)[:100]}"
        finally:
            REC.active = False
        c = classify(list(REC.events), outcome, raised)
        details.append({"variant": variant, "events": list(REC.events), "outcome": outcome, "raised": raised, "coercion": c})
        if worst is None or order.index(c) < order.index(worst):
            worst = c
    return {"coercion": worst or "unevaluable", "detail": details}


def trace_engine(engine: str, positions: t.Optional[t.Dict[str, t.Any]] = None) -> t.List[Cell]:
    install_tracer()
    make_session(engine)
    F = functions_module(engine)
    rows = []
    for cell in cells_for(engine, positions):
        r = trace_cell(F, cell)
        rows.append(dict(cell, **r))
    return rows


def trace_all(keep_unevaluable: bool = False, rows: t.Optional[t.List[Cell]] = None) -> t.List[Cell]:
    """trace every engine (or take the rows traced elsewhere, e.g. one engine per worker process)"""
    if rows is None:
        positions = load_positions()
        rows = []
        for e in ENGINES:
            rows.extend(trace_engine(e, positions))
    order = {e: i for i, e in enumerate(ENGINES)}
    rows = sorted(rows, key=lambda r: order[r["e"]])  # stable: the order of cells_for inside an engine is kept
    global UNEVALUABLE
    UNEVALUABLE = [r for r in rows if r["coercion"] == "unevaluable"]
    return rows if keep_unevaluable else [r for r in rows if r["coercion"] != "unevaluable"]


UNEVALUABLE: t.List[Cell] = []


# ------------------------------------------------------------------------------------------------
# Lean rendering
# ------------------------------------------------------------------------------------------------


def render_lean(rows: t.List[Cell], static_text: str, origin: str) -> str:
    sys.path.insert(0, TOOLS)
    import gen_c16  # type: ignore

    return static_text.rstrip("\n") + "\n\n" + gen_c16._render_table(rows, origin)


def generate(repo: str, outdir: t.Optional[str], json_out: t.Optional[str] = None, traced_rows: t.Optional[t.List[Cell]] = None) -> t.Tuple[str, t.List[Cell]]:
    """trace the working tree (or take `traced_rows`, traced per engine in worker processes) and write
    Gen/Functions.lean (unless outdir is None); returns (text, rows)"""
    global REPO
    REPO = repo
    install_stubs(repo)
    sys.path.insert(0, TOOLS)
    import gen_c16  # type: ignore

    static_text = gen_c16.static_part(repo)
    rows = trace_all(rows=traced_rows)
    text = render_lean(rows, static_text, "traced")
    if outdir is not None:
        os.makedirs(outdir, exist_ok=True)
        path = os.path.join(outdir, "Functions.lean")
        old = open(path, encoding="utf-8").read() if os.path.exists(path) else None
        if old != text:
            tmp = path + f".{os.getpid()}.tmp"
            with open(tmp, "w", encoding="utf-8") as f:
                f.write(text)
            os.replace(tmp, path)
    if json_out:
        with open(json_out, "w") as f:
            json.dump([{k: r[k] for k in ("f", "e", "pos", "sub", "coercion")} for r in rows], f, indent=0)
    return text, rows


def main() -> int:
    import argparse

    ap = argparse.ArgumentParser()
    ap.add_argument("--repo", default=REPO)
    ap.add_argument("--out", default=os.path.join(VERIF, "lean", "SqlframeModel", "Gen"))
    ap.add_argument("--json", default=None)
    ap.add_argument("--show", action="store_true")
    ap.add_argument("--rows-only", action="store_true", help="write only --json, not Gen/Functions.lean")
    a = ap.parse_args()
    text, rows = generate(a.repo, None if a.rows_only else a.out, a.json)
    if a.show:
        for r in rows:
            if r["coercion"] != "ensureCol":
                print(r["f"], r["e"], r["pos"], r["sub"], r["coercion"], json.dumps(r["detail"])[:300])
    import collections

    print(dict(collections.Counter(r["coercion"] for r in rows)), len(rows), file=sys.stderr)
    for r in UNEVALUABLE:
        print("unevaluable:", r["f"], r["e"], r["pos"], r["sub"], json.dumps(r["detail"])[:300], file=sys.stderr)
    return 0


if __name__ == "__main__":
    sys.exit(main())
